"""Per-worker context: budgets, scratch space, counters, failure capture, Hypothesis drivers."""

import contextlib
import hashlib
import json
import os
import shutil
import tempfile
import time
import traceback
from collections import Counter

from . import findings


class Failure(Exception):
    """Raised inside a Hypothesis test when a case violates the property (unknown signature)."""


class HarnessError(Exception):
    """The harness (not the code under test) is broken: exit 2, never a verdict."""


class Viol:
    __slots__ = ("sig", "msg")

    def __init__(self, sig, msg):
        self.sig = sig
        self.msg = msg

    def to_json(self):
        return {"sig": self.sig, "msg": self.msg}

    def __repr__(self):
        return f"Viol({self.sig!r}, {self.msg!r})"


class Result:
    """What run_case returns."""

    def __init__(self, violations=(), nontrivial=False, classes=(), counters=None):
        self.violations = list(violations)
        self.nontrivial = nontrivial
        self.classes = list(classes)
        self.counters = counters or {}


def canon(case):
    return json.dumps(case, sort_keys=True, ensure_ascii=True, separators=(",", ":"), default=str)


def digest(case):
    return hashlib.sha1(canon(case).encode()).hexdigest()[:14]  # noqa: S324


def _trunc(obj, n=160):
    """Truncate long strings inside a case so samples stay readable."""
    if isinstance(obj, str):
        return obj if len(obj) <= n else obj[:n] + f"...(+{len(obj) - n})"
    if isinstance(obj, list):
        out = [_trunc(x, n) for x in obj[:40]]
        if len(obj) > 40:
            out.append(f"...(+{len(obj) - 40} items)")
        return out
    if isinstance(obj, dict):
        return {str(k): _trunc(v, n) for k, v in list(obj.items())[:60]}
    return obj


def product_frame(exc):
    """Innermost traceback frame inside the code under test (dvc_data), or None."""
    repo = os.path.realpath(os.environ.get("VERIF_REPO", "/repo"))
    best = None
    for fs in traceback.extract_tb(exc.__traceback__):
        fn = os.path.realpath(fs.filename)
        if fn.startswith(repo + os.sep) and "dvc_data" in fn:
            best = (os.path.relpath(fn, repo), fs.name)
    return best


def reset_globals():
    """Reset process-global state of the code under test (global memfs, staging url cache)."""
    from fsspec.implementations.memory import MemoryFileSystem as _M

    _M.store.clear()
    _M.pseudo_dirs[:] = [""]
    try:
        from dvc_data.hashfile import build as _b

        _b._url_cache.clear()
    except Exception:  # noqa: BLE001
        pass


class Ctx:
    def __init__(self, prop_id, tier, seed, worker=0, nworkers=1, budget_s=None, replaying=False):
        self.prop_id = prop_id
        self.tier = tier
        self.seed = seed
        self.worker = worker
        self.nworkers = nworkers
        self.hseed = seed * 1000 + worker
        self.replaying = replaying
        self.t0 = time.time()
        self.budget_s = budget_s
        self.known = findings.load(prop_id)
        self.known_hits = Counter()
        self.evaluations = 0
        self.skipped = 0
        self.classes = Counter()
        self.counters = Counter()
        self.digests = set()
        self.samples = []
        self.failure = None
        self.failure_input = None
        self.failure_msg = ""
        self.regressions_replayed = 0
        self.notes = []
        base = None
        use_disk = os.environ.get("VERIF_SCRATCH") == "disk" or (
            tier == "thorough" and nworkers >= 4 and worker % 4 == 3
        )
        if not use_disk and os.path.isdir("/dev/shm") and os.access("/dev/shm", os.W_OK):
            base = "/dev/shm"
        self.scratch_kind = "tmpfs" if base else "disk"
        self.root = tempfile.mkdtemp(prefix=f"vd-{prop_id}-{worker}-", dir=base)
        self._n = 0

    # ---- budgets -------------------------------------------------------------------------
    def n(self, quick, thorough):
        scale = float(os.environ.get("VERIF_SCALE", "1"))
        return max(1, int((quick if self.tier == "quick" else thorough) * scale))

    def over_budget(self):
        return self.budget_s is not None and (time.time() - self.t0) > self.budget_s

    # ---- scratch -------------------------------------------------------------------------
    @contextlib.contextmanager
    def tmpdir(self):
        reset_globals()
        self._n += 1
        d = os.path.join(self.root, f"c{self._n}")
        os.mkdir(d)
        try:
            yield d
        finally:
            _rmtree(d)
            reset_globals()

    def cleanup(self):
        _rmtree(self.root)

    # ---- recording -----------------------------------------------------------------------
    def note(self, case, result):
        for c in result.classes:
            self.classes[c] += 1
        for k, v in result.counters.items():
            self.counters[k] += v
        if result.nontrivial:
            d = digest(case)
            if d not in self.digests:
                self.digests.add(d)
                if len(self.samples) < 4 and (len(self.digests) in (1, 5, 25, 100)):
                    self.samples.append(_trunc(case))

    def split_known(self, violations):
        unknown = []
        for v in violations:
            if v.sig in self.known:
                self.known_hits[v.sig] += 1
            else:
                unknown.append(v)
        return unknown

    def exec_case(self, case, run_case):
        """Run one case through run_case and account for it; raise Failure on a violation."""
        if self.over_budget() and not self.replaying:
            # Hypothesis re-executes a failing example while shrinking and for the final report:
            # keep the verdict for the recorded failing input stable, skip everything else.
            if self.failure is not None and canon(case) == self.failure_input:
                raise Failure(self.failure_msg)
            self.skipped += 1
            return None
        self.evaluations += 1
        try:
            res = run_case(case, self)
        except Failure as exc:
            self.failure_input = canon(case)
            self.failure_msg = str(exc)
            raise
        except (HarnessError, KeyboardInterrupt):
            raise
        except Exception as exc:  # noqa: BLE001
            fr = product_frame(exc)
            if fr is None:
                raise HarnessError(
                    "harness exception: " + "".join(traceback.format_exception(exc))[-3000:]
                ) from exc
            res = Result(
                [Viol(f"exc:{type(exc).__name__}:{fr[0]}:{fr[1]}",
                      f"unexpected {type(exc).__name__}: {exc} (in {fr[0]}:{fr[1]})")]
            )
        self.note(case, res)
        unknown = self.split_known(res.violations)
        if unknown:
            self.failure = {"case": case, "violations": [v.to_json() for v in unknown]}
            self.failure_input = canon(case)
            self.failure_msg = "; ".join(f"[{v.sig}] {v.msg}" for v in unknown)
            raise Failure(self.failure_msg)
        return res

    # ---- Hypothesis drivers --------------------------------------------------------------
    def settings(self, examples, **kw):
        from hypothesis import HealthCheck, Phase, settings

        return settings(
            max_examples=examples,
            database=None,
            deadline=None,
            report_multiple_bugs=False,
            print_blob=False,
            suppress_health_check=[HealthCheck.too_slow, HealthCheck.data_too_large,
                                   HealthCheck.large_base_example],
            phases=[Phase.explicit, Phase.generate, Phase.shrink],
            **kw,
        )

    def run_given(self, strategy, run_case, examples):
        """Drive run_case over `examples` generated cases. Returns True if no failure."""
        import hypothesis
        from hypothesis import given, seed

        ctx = self
        # Run in chunks with derived seeds so that an exhausted wall budget stops generation too
        # (inside one Hypothesis run skipped cases are still generated, which can cost minutes).
        for k, n in enumerate(self._chunks(examples)):
            if self.over_budget() and not self.replaying:
                self.skipped += n
                continue

            @seed(self.hseed * 64 + k)
            @self.settings(n)
            @given(strategy)
            def test(case):
                ctx.exec_case(case, run_case)

            try:
                test()
            except Failure:
                return False
            except hypothesis.errors.HypothesisException as exc:
                raise HarnessError(f"hypothesis: {type(exc).__name__}: {exc}") from exc
        return True

    @staticmethod
    def _chunks(examples):
        if examples <= 400:
            return [examples]
        size = max(200, examples // 12)
        out = [size] * (examples // size)
        if examples % size:
            out.append(examples % size)
        return out

    def run_machine(self, machine_cls, examples, steps):
        import hypothesis
        from hypothesis import seed
        from hypothesis.stateful import run_state_machine_as_test

        for k, n in enumerate(self._chunks(examples)):
            if self.over_budget() and not self.replaying:
                self.skipped += n
                continue
            try:
                run_state_machine_as_test(
                    seed(self.hseed * 64 + k)(machine_cls),
                    settings=self.settings(n, stateful_step_count=steps),
                )
            except Failure:
                return False
            except hypothesis.errors.HypothesisException as exc:
                raise HarnessError(f"hypothesis: {type(exc).__name__}: {exc}") from exc
        return True

    # ---- result --------------------------------------------------------------------------
    def to_json(self):
        return {
            "worker": self.worker,
            "hseed": self.hseed,
            "pythonhashseed": os.environ.get("PYTHONHASHSEED"),
            "scratch": self.scratch_kind,
            "evaluations": self.evaluations,
            "skipped_over_budget": self.skipped,
            "classes": dict(self.classes),
            "counters": dict(self.counters),
            "digests": sorted(self.digests),
            "samples": self.samples,
            "known_hits": dict(self.known_hits),
            "failure": self.failure,
            "regressions_replayed": self.regressions_replayed,
            "notes": self.notes,
            "wall_s": round(time.time() - self.t0, 3),
        }


def _rmtree(d):
    def onerr(func, path, exc_info):
        try:
            os.chmod(os.path.dirname(path), 0o755)
            os.chmod(path, 0o644)
            func(path)
        except OSError:
            pass

    shutil.rmtree(d, onerror=onerr)
