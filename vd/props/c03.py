"""C03 - a directory's identifier is a canonical, deterministic function of its contents."""

import hashlib
import json
import os
import shutil
import tempfile
import threading
import time
import traceback

from hypothesis import strategies as st

from .. import gen, ops, ref
from ..ctx import Failure, HarnessError, Result, Viol, product_frame, reset_globals

LEVEL = "exploration"
WORKERS = {"quick": 8, "thorough": 16}
BUDGET_S = {"quick": 45, "thorough": 650}
RULE = (
    "Two generated halves. PURE: an entry set {key tuple -> oid} (nested keys over a name pool with "
    "sort-sensitive names such as 'a', 'a.dir', 'a b', 'a!', non-ASCII, quotes; a tenth of the leaf names "
    "and a ninth of the directory parts are awkward-but-legal for the stored JSON form: names that are not valid UTF-8 as "
    "Python represents them (lone surrogates U+DC80..U+DCFF from surrogateescape: Latin-1 / Shift-JIS / truncated "
    "UTF-8 / arbitrary bytes), C0 controls, quote, backslash and literal backslash-u text, DEL/C1, U+2028/9, BOM, "
    "U+FFFD/U+FFFF, the code points next to the surrogate block, astral characters), per-entry Meta variants, a "
    "hash name (md5, md5-dos2unix, sha256), an insertion permutation (Fisher-Yates from drawn ints, optional "
    "duplicate adds) and one mutation (rename, re-hash, add, drop, swap, push-down). Oracle: as_bytes / "
    "digest of the permuted tree == the independent encoder vd.ref.ref_tree_bytes + hashlib; other metadata => same bytes and oid (also digest(with_meta=True)); "
    "the mutated set serialises to different bytes/oid and parsing the bytes with json gives back exactly the "
    "entry set (injectivity); from_list(as_list()) and the with_meta variant are the identity on the "
    "serialised projection; Tree.load after odb.add accepts the listing the library wrote (never 'corrupted'), "
    "returns the same listing, re-digests to the same id, and the stored bytes are the "
    "reference bytes; the SAME listing is also put into private stores in 1-2 drawn other stored forms - entries in a "
    "drawn order, the same JSON document laid out differently (keys of every entry reversed, compact / spaced "
    "separators, indentation, trailing newline), both (each under the name a content-addressed writer gives those "
    "bytes), or WITH metadata exactly as the library stores it (digest(with_meta=True) + add_update_tree put the "
    "with-meta text under the metadata-free id; read back with hash_name= as index loading does; md5 family) - and "
    "the tree Tree.load re-parses from every form must be the directly built one: same entries, as_bytes() == "
    "reference bytes, digest() == reference id and stages the reference bytes, and one more store / load / digest "
    "cycle gives the same bytes and id; for every directory prefix get_obj == reference object of the re-rooted entries and "
    "filter keeps exactly the keys below it; file / absent prefixes behave as documented. HIST: a history on ONE "
    "Tree instance - drawn trie-backed reads (get_obj, filter, iteritems, as_trie, ls, shortest_prefix) interleaved "
    "with Tree.add overwriting existing keys with new hashes, adds of new keys and re-digests; after every step "
    "as_bytes/digest == reference of a model dict and every drawn read agrees with the model. PUB: several trees "
    "published with Tree.from_trie from ONE working trie (plain pygtrie or an earlier tree's as_trie()) that is "
    "edited (replace/add/remove keys) between publications; after every step a drawn published tree - often an "
    "earlier one - must have listing/id == reference of the entries it was published with and answer the drawn "
    "prefix reads from exactly those entries. LIVE: up to 8 live trees derived from one another (filter, "
    "update_meta, odb.add + Tree.load through harness-owned HashInfo keys - for half of the loads the listing sits in a "
    "private store in a drawn stored form as above (other entry order / JSON layout under the name of those bytes, or "
    "with metadata under the tree's id) -, loading twice through one key, get_obj) "
    "with add and digest applied to one of them at a time; after every step EVERY live tree must still report the "
    "id the model assigns it (its last digest; the source's id for filter/update_meta copies; the key for loaded "
    "trees) with hash_info == oid, serialise (as_bytes) to the canonical reference listing of its own entries "
    "whatever form it was parsed from, equal a fresh rebuild + reference when it is clean, and "
    "every HashInfo key handed to load must be unchanged. The first tree's entries carry drawn, mostly non-empty Meta "
    "(size / isexec / etag ...) and read-only renderings - as_list(with_meta=True), as_bytes(with_meta=True), as_list(), "
    "as_bytes(), 0-2 drawn per step - are applied to it BEFORE its first digest and to the step's tree right after every "
    "step's operation (so also between an add and the next digest), before the harness serialises anything itself: the "
    "id / canonical bytes clauses above must hold whatever was rendered first (the id does not depend on file metadata "
    "nor on having looked at it), and a with-meta rendering must list the same (relpath, digest) pairs plus exactly the "
    "tree's own per-entry Meta.to_dict() (re-parsing the with-meta text loses nothing). "
    "FS: a generated tree (in a third of the cases 1-3 files/directories carry awkward names as above; names that "
    "are not valid UTF-8 only when no State is used) materialised twice in two drawn creation orders (second copy on tmpfs or on the "
    "disk temp dir), staged with build() under checksum_jobs in {None,1,2,8}, state none / cold+warm, optionally "
    "with the State already holding rows for the same unchanged files from a build / _get_hashes run under the "
    "OTHER md5 flavour, under sha256, or version-less DVC 2.x rows (CRLF text files are frequent), through an "
    "`ignore` object whose walk() yields every directory exactly once in a generated order (top-down with permuted "
    "siblings, bottom-up, arbitrary permutation of the triples, names inside dirs/files permuted), after "
    "touch and chmod +x of drawn files, for a drawn sub-directory (direct build vs get_obj, and the same build with "
    "the sub-directory's path spelled with an inner '/./', a doubled separator, a '/.' suffix or a trailing separator), with two "
    ">1 MiB files in one directory (public parallel path; also 1-3 MiB CRLF texts hashed as md5-dos2unix with a "
    "CR LF across k*2^20 or a NUL block at a 2^20 offset, i.e. files whose per-read legacy digest would change "
    "with the read size) and through _get_hashes(state=None) once with every file sequential and once pooled, "
    "and _get_hashes(large_file_threshold=small or huge, "
    "jobs, drawn per-file delays so the unordered pool really completes out of order); and (drawn for five cases in six: one or both of) "
    "the same directory read through a filesystem that is NOT the local one, so that what reports the files' "
    "metadata is part of the input: (dfs) a dvc_data.fs.DataFileSystem view over a DataIndex backed by a cache that "
    "holds the directory under the OTHER hash flavour (md5 <-> md5-dos2unix; md5 for sha256), so no trusted hash under "
    "the requested name is handed over and build() must hash every file's bytes - or, a quarter of these, under the "
    "same flavour (hashes trusted) - with entries from the lazily loaded bare stored .dir listing (info() reports size "
    "None), with the true sizes filled in for a drawn subset, or as explicit per-file entries with meta None / Meta() "
    "/ Meta(size); the drawn sub-directory is built through the view before or after the whole tree; (wrap) a thin "
    "read-only fsspec filesystem over one of the two copies whose info()/ls() reports per file size None / no size "
    "key / 0 / the true size and lists names in a drawn order. Oracle: every oid == "
    "ref_tree_oid(hashlib manifest), staged listing bytes == reference bytes, the staged listing stored with "
    "odb.add and re-parsed with Tree.load is accepted and is the same listing / id, _get_hashes maps each path to "
    "its own hashlib digest; metamorphic: every whole-tree build of a case gives ONE id and every file ONE "
    "digest on all routings (where the legacy digest of a >1 MiB file is not pinned down, only this is asked); the "
    "view builds are routings like the others (id, listing bytes, per-file digests == reference / == every other "
    "routing) and the sub-directory built through a view has the reference id and the id of the sub-directory built "
    "from the local copy. "
    "Non-trivial: pure = >=3 entries, >=1 nested key, permutation != identity; "
    "live = nested keys, >=2 live trees and a re-digest that changes one tree's id while copies are alive; "
    "pub = nested keys and a read on a published tree whose entries differ from the working trie's current ones; "
    "hist = nested keys and a read, then an overwrite of an existing key with another hash, then a prefix-based read; "
    "fs = >=2 files and (>=2 files hashed on pool threads in one phase, or a warm build served entirely from "
    "the state, or a State pre-warmed under another algorithm, or a walk that reaches a root holding files after a "
    "sub-directory, or a view build that really hashed a non-empty file whose info carried no / a zero size). "
    "Distinct = SHA-1 of the case JSON."
)
ASSUMPTIONS = [
    "key parts are non-empty, contain no '/' and no key is a prefix of another (a tree of files), as staging produces",
    "names are what the OS layer / a cloud listing can hand out: any str without '/' and NUL whose only surrogates "
    "are lone U+DC80..U+DCFF in the canonical surrogateescape form (os.fsdecode of bytes that are not UTF-8). Other "
    "lone surrogates, or a high surrogate followed by a low one as two separate code units, are not produced by "
    "any caller (JSON's escaped form cannot tell the latter from the astral character) and are not generated",
    "filesystem half: names that are not valid UTF-8 are generated only for cases without a State: on the "
    "unchanged tree State.save_many -> sqlite raises UnicodeEncodeError for such a path (no identifier is produced; "
    "a robustness limit outside this property's statement, reported as an observation)",
    "case files carry such names as JSON \\udcXX escapes (stdlib json, ensure_ascii) and every message is "
    "backslash-escaped to ASCII before it leaves the module; replay is byte-for-byte deterministic",
    "vd.ref.ref_tree_bytes (hand-written serialiser, json used only for string escaping) and hashlib are the "
    "trusted reference",
    "the with_meta round trip passes hash_name and is limited to md5/md5-dos2unix (from_list(hash_name=...) reads "
    "the hash from a Meta field; Meta has no sha256 field); sub-tree oids from get_obj are compared for the md5 "
    "family only (get_obj always digests with md5)",
    "filesystem half: a State database is combined with md5/md5-dos2unix only. With another name (sha256) on a "
    "local store plus a State, build() returns the md5-based directory id that HashFileDB.add just recorded in "
    "the state under the store's hash name (_build_external_tree_info reads it back); no caller configures a "
    "local store that way (non-md5 names are used for remote stores, where the State is inert), so it is "
    "recorded as an observation, not judged",
    "stored forms: a .dir object is a JSON list of {hash key, relpath[, metadata fields]} objects; any JSON text "
    "of that document (entry order, key order, separators, indentation, trailing newline - another writer, an "
    "older version, a hand-repaired cache) lists the same set of (relpath, digest) pairs, and a listing stored WITH "
    "metadata is what the library's own digest(with_meta=True) + add_update_tree leave under the metadata-free id. "
    "Only what the statement says is asked of the re-parsed tree (same pairs => same canonical bytes and id on "
    "as_bytes()/digest(), re-serialising is stable); before digest() a loaded tree reports the key it was loaded "
    "under (Tree.load does not re-digest) and that is not judged. Foreign forms are ASCII-only JSON like the "
    "library's own output (no raw UTF-8: Tree.load opens the object in text mode with the locale's encoding); the "
    "with-meta form is read back with hash_name= (without it HashInfo.from_dict cannot pick the hash out of an entry "
    "that carries metadata) and only for md5 / md5-dos2unix; for sha256 the drawn form falls back to 'permuted'",
    "live half: as_list()/as_bytes() with either with_meta value are read-only (tree.py renders from _dict on every "
    "call on HEAD); the metadata expected in a with-meta rendering is read from the tree's own entries (iteration), "
    "not modelled independently (update_meta / load merge metadata in ways this property does not state)",
    "touch/chmod never change file contents; mtimes are set by the harness with os.utime(ns=...)",
    "view routes: a size of None / a missing size key in info() means 'unknown' (fsspec convention, e.g. HTTP without "
    "Content-Length; DataIndex._info_from_entry reports None for entries without a size; hash.file_md5 handles "
    "size=None explicitly) and a size of 0 for a file that has bytes is what procfs-like / generated-content sources "
    "report; none of them says anything about the contents, which build() must read. The DataFileSystem view is "
    "judged only when the harness has read back from the source cache exactly the bytes of every file (a CRLF and "
    "an LF twin share one md5-dos2unix address, so a legacy cache cannot always hold the directory faithfully; such "
    "cases are labelled and skipped). With the same flavour on both sides build() may trust the hashes / the "
    "directory id the index hands over; the id must still be the reference. State is inert for non-local "
    "filesystems (State.get/save return early)",
    "per-file delays (2 ms sleeps inside a wrapper around build.hash_file) only shape the completion order of "
    "the hashing pool; no verdict depends on time",
]

MIB = 2**20
HNAMES = ["md5", "md5", "md5", "md5-dos2unix", "sha256"]
PNAMES = ["a", "a.dir", "a b", "a!", "a'b", 'a"b', "a-", "a0", "b", "B", "sub", "é", "文件", "z", "a\\b",
          "{b}", "100%", ".h", "~", "A", "dir", "x.y", "0", "Ünï", "a\tb", "a\nb", " ", "\x7f", "é"]
OIDS = [hashlib.md5(bytes([i])).hexdigest() for i in range(6)]  # noqa: S324

# Names that are legal file names / key parts but awkward for the stored JSON form of a listing.
# SURR: names that are not valid UTF-8 on disk, as Python hands them out (os.fsdecode / os.listdir /
# os.walk use surrogateescape: the undecodable byte 0xE9 of the Latin-1 name b"caf\xe9.txt" becomes the lone
# surrogate U+DCE9). Latin-1, Shift-JIS, truncated UTF-8 sequences, CESU-style bytes.
SURR = ["caf\udce9.txt", "\udcff", "a\udc80b", "\udce9\udce8", "\udc83e\udc83X", "na\udcefve", "\udcfe\udcff",
        "z\udce9", "\udced\udca0\udc80", "\udcc3", "\udcc3(", "\udcf0\udc9f\udc98", "\udce9.dir", "\udce9 \udce9", "\U0001f600\udce9"]
# ESC: characters a JSON writer must escape or that parsers/encoders are known to treat specially: C0 controls,
# quote, backslash (also a literal backslash-u sequence), DEL/C1, U+2028/9, BOM, U+FFFD/U+FFFF, the code points
# next to the surrogate block, astral characters (written as surrogate PAIRS by an ASCII-only writer)
ESC = ["a\x01b", "\x1f", "a\rb", "\x08\x0c", "a\x1bz", 'a"', '"', "\\", "a\\", "\\u0041", "\\n", '\\"', "\\udce9",
       "\u2028", "a\u2029b", "\x85", "\ufeffa", "\ufffd", "\uffff", "\ue000", "\ud7ff", "\x80", "\U0001f600",
       "a\U00010000", "\U0010ffff", "e\u0301", "\x7f\x01"]
AWK_CHARS = ["a", "b", ".", " ", "\udc80", "\udce9", "\udcff", "\udcc3", "\udca9", "\x01", "\x1f", '"', "\\", "\u2028",
             "\ue000", "\ud7ff", "\U0001f600", "\U00010000", "\xe9", "u", "0"]
AWK_DIRS = ["d\udce9", 'q"\\', "\U0001f4c1\x01"]


def canon_name(s):
    """The str a UTF-8 filesystem encoding gives back for the bytes of `s` (os.fsdecode(os.fsencode(s)) without
    depending on the locale): adjacent escaped bytes that happen to form valid UTF-8 collapse to the character."""
    return s.encode("utf-8", "surrogateescape").decode("utf-8", "surrogateescape")


def has_surrogate(s):
    return any(0xDC80 <= ord(c) <= 0xDCFF for c in s)


def has_escape(s):
    return any(ord(c) < 0x20 or c in '"\\\x7f\u2028\u2029' for c in s)


def has_astral(s):
    return any(ord(c) > 0xFFFF for c in s)


def _ascii(s):
    return str(s).encode("ascii", "backslashreplace").decode("ascii")


# ------------------------------------------------------------------------------------------
# reference
# ------------------------------------------------------------------------------------------
def hkey(algo):
    return "md5" if algo == "md5-dos2unix" else algo


def ref_bytes(entries, algo):
    """entries {relpath: oid} -> stored listing bytes (shared independent encoder)."""
    return ref.ref_tree_bytes(entries, hkey(algo))


def ref_oid(entries, algo):
    return ref.ref_hash(ref_bytes(entries, algo), algo) + ".dir"


def joined(e):
    return {"/".join(k): v for k, v in e.items()}


# ------------------------------------------------------------------------------------------
# generators
# ------------------------------------------------------------------------------------------
def _name_ok(s):
    return bool(s) and "/" not in s and "\x00" not in s and s not in (".", "..", ".dvcignore")


def awkward_names(surrogates=True):
    """File names / key parts with lone surrogates (non-UTF-8 names), characters JSON must escape, astral
    characters. Every name is in the canonical form a UTF-8 filesystem encoding round-trips."""
    pools = [st.sampled_from(ESC)]
    chars = AWK_CHARS if surrogates else [c for c in AWK_CHARS if not has_surrogate(c)]
    pools.append(st.lists(st.sampled_from(chars), min_size=1, max_size=4).map("".join))
    if surrogates:
        pools += [st.sampled_from(SURR),
                  # arbitrary bytes as a file name, decoded the way the OS layer does
                  st.binary(min_size=1, max_size=4).map(lambda b: b.decode("utf-8", "surrogateescape"))]
    out = st.one_of(*pools).map(canon_name).filter(_name_ok)
    return out if surrogates else out.filter(lambda s: not has_surrogate(s))


def pnames():
    usual = [st.sampled_from(PNAMES), st.sampled_from(PNAMES[:8]), gen.names()]
    return st.one_of(*usual, *usual, *usual, awkward_names())  # one leaf name in ten is awkward


_DIRS = ["a", "a.dir", "sub", "é", "a b", "B", "a!", "z"]
DIRS = [*_DIRS, *_DIRS, *_DIRS, *AWK_DIRS]  # one directory part in nine is awkward
XOIDS = OIDS + [hashlib.md5(b"x%d" % i).hexdigest() for i in range(12)]  # noqa: S324


PN = pnames()
# keys as [dir parts..., leaf]; directory parts come from a tiny pool so directories are shared
PKEYS = st.lists(st.tuples(st.lists(st.sampled_from(DIRS), max_size=3), PN).map(lambda t: [*t[0], t[1]]),
                 min_size=1, max_size=10)


def entries_of(case):
    """Deterministic entry set of a pure case: keys in drawn order, skipping any key that would make one key a
    prefix of another (the input domain is a tree of files); oids assigned cyclically."""
    out = {}
    for k in case["keys"]:
        k = tuple(k)
        if any(k[:len(o)] == o or o[:len(k)] == k for o in out):
            continue
        out[k] = case["oids"][len(out) % len(case["oids"])]
    return out


# How a listing sits in the store before Tree.load parses it. "canonical" = the bytes the library writes; "permuted"
# = the same entries in a drawn order; "layout" = the same JSON document laid out differently (keys of every entry in
# reversed order, compact / spaced separators, indentation, trailing newline); "with-meta" = the listing WITH metadata
# as the library itself stores it: digest(with_meta=True) + add_update_tree put the with-meta text under the
# metadata-free id (md5 family only; for other names the form falls back to "permuted").
STORED_FORMS = ["canonical", "permuted", "permuted", "layout", "layout", "permuted+layout", "with-meta", "with-meta"]
STORED = st.fixed_dictionaries({
    "form": st.sampled_from(STORED_FORMS),
    "perm": st.lists(st.integers(0, 11), min_size=1, max_size=8),
    "keys": st.sampled_from(["sorted", "reversed", "reversed"]),
    "sep": st.sampled_from(["default", "compact", "compact", "spaced"]),
    "indent": st.sampled_from([None, None, 0, 2, "\t"]),
    "newline": st.booleans(),
})

METAS = [{}, {"size": 0}, {"size": 5}, {"isexec": True}, {"size": 7, "isexec": True}, {"nfiles": 0},
         {"version_id": "v1"}, {"etag": "e"}, {"checksum": "c"}, {"size": 2**40, "inode": 5, "mtime": 1.5}]


@st.composite
def pure_cases(draw):
    return {
        "kind": "pure",
        "algo": draw(st.sampled_from(HNAMES)),
        "keys": draw(PKEYS),
        "oids": draw(st.lists(st.sampled_from(XOIDS), min_size=1, max_size=6)),
        "metas": draw(st.lists(st.sampled_from(METAS), min_size=1, max_size=4)),
        "metas2": draw(st.lists(st.sampled_from(METAS), min_size=1, max_size=4)),
        "perm": draw(st.lists(st.integers(0, 11), min_size=1, max_size=10)),
        "dup": draw(st.booleans()),
        "with_meta_digest": draw(st.booleans()),
        "mut": {"op": draw(st.sampled_from(["rename", "rehash", "add", "drop", "swap", "push"])),
                "i": draw(st.integers(0, 11)), "j": draw(st.integers(0, 11)),
                "name": draw(PN), "oid": draw(st.sampled_from(XOIDS))},
        "absent": draw(st.lists(PN, min_size=1, max_size=2)),
        # stored forms of the listing that Tree.load has to parse back into the same object
        "stored": draw(st.lists(STORED, min_size=1, max_size=2)),
    }


READS = ["get_obj", "filter", "iteritems", "as_trie", "ls", "shortest_prefix"]
HSTEP = st.fixed_dictionaries({
    "op": st.sampled_from(["overwrite", "overwrite", "overwrite", "new", "none"]),
    "i": st.integers(0, 11),
    "oid": st.sampled_from(XOIDS),
    "name": PN,
    "digest": st.booleans(),
    "p": st.integers(0, 7),
    "reads": st.lists(st.sampled_from(READS), min_size=0, max_size=3, unique=True),
})


@st.composite
def hist_cases(draw):
    """A history on ONE Tree instance: trie-backed reads interleaved with adds that overwrite existing keys."""
    return {
        "kind": "hist",
        "algo": draw(st.sampled_from(HNAMES)),
        "keys": draw(PKEYS),
        "oids": draw(st.lists(st.sampled_from(XOIDS), min_size=1, max_size=6)),
        "first_reads": draw(st.lists(st.sampled_from(READS), max_size=2, unique=True)),
        "steps": draw(st.lists(HSTEP, min_size=1, max_size=8)),
    }


PSTEP = st.fixed_dictionaries({
    "op": st.sampled_from(["replace", "replace", "add", "remove", "publish", "publish", "reopen", "none"]),
    "i": st.integers(0, 11),
    "oid": st.sampled_from(XOIDS),
    "name": PN,
    "t": st.integers(0, 5),
    "p": st.integers(0, 7),
    "reads": st.lists(st.sampled_from(READS), min_size=0, max_size=3, unique=True),
})


@st.composite
def pub_cases(draw):
    """Several trees published with Tree.from_trie from ONE working trie that keeps being edited."""
    return {
        "kind": "pub",
        "algo": draw(st.sampled_from(HNAMES)),
        "keys": draw(PKEYS),
        "oids": draw(st.lists(st.sampled_from(XOIDS), min_size=1, max_size=6)),
        "via": draw(st.sampled_from(["trie", "as_trie"])),
        "steps": draw(st.lists(PSTEP, min_size=2, max_size=9)),
    }


RENDERS = ["as_list_meta", "as_bytes_meta", "as_list_meta", "as_bytes_meta", "as_list", "as_bytes"]
LIVE_METAS = [m for m in METAS if m] * 2 + [{}]
LSTEP = st.fixed_dictionaries({
    "op": st.sampled_from(["filter", "filter", "update_meta", "store_load", "store_load", "load_again", "get_obj",
                           "add", "add", "add", "digest", "digest", "digest", "digest", "digest"]),
    "a": st.integers(0, 7),
    "b": st.integers(0, 7),
    "i": st.integers(0, 11),
    "oid": st.sampled_from(XOIDS),
    "name": st.one_of(st.none(), PN),
    "p": st.integers(0, 7),
    # store_load: the form in which the listing sits in the store (see STORED_FORMS)
    "stored": st.one_of(st.none(), STORED),
    # read-only renderings of tree `a` right after the op, BEFORE the harness looks at anything
    "render": st.lists(st.sampled_from(RENDERS), max_size=2),
})


@st.composite
def live_cases(draw):
    """Several live trees derived from one another (filter / update_meta / load / get_obj copies), one of them
    mutated and re-digested at a time."""
    return {
        "kind": "live",
        "algo": draw(st.sampled_from(HNAMES)),
        "keys": draw(PKEYS),
        "oids": draw(st.lists(st.sampled_from(XOIDS), min_size=1, max_size=6)),
        "steps": draw(st.lists(LSTEP, min_size=3, max_size=10)),
        # Meta of the first tree's entries (mostly non-empty) and renderings done before its first digest
        "metas": draw(st.lists(st.sampled_from(LIVE_METAS), min_size=1, max_size=3)),
        "first": draw(st.lists(st.sampled_from(RENDERS), max_size=2)),
    }


# CRLF-bearing text is frequent: that is where md5 and md5-dos2unix digests of one file differ
FS_CONTENT = st.one_of(gen.contents(), gen.contents(), st.sampled_from(["p:crlf", "p:C", "p:b513", "p:hi8"]))
PREWARM = [None, "build", "build", "get_hashes", "get_hashes", "sha256", "legacy-rows"]


@st.composite
def legacy_big(draw):
    """Segments (gen.content_bytes strings) of a 1-3 MiB CRLF text whose chunk-wise legacy digest depends on the
    read size: a CR LF pair across k*2^20, or a NUL block starting at a 2^20 offset."""
    block = draw(st.sampled_from([b"line of text\r\n", b"ab\r\n", b"0123456789abcde\n", b"q"]))
    total = draw(st.sampled_from([MIB + 70000, MIB + 2**19, 2 * MIB + 5, 3 * MIB - 7]))
    shape = draw(st.sampled_from(["straddle", "straddle", "bin-at-MiB", "plain"]))
    k = draw(st.integers(1, max(1, (total - 2) // MIB)))

    def filler(n):
        q, r = divmod(n, len(block))
        return ([f"r:{q}:{block.hex()}"] if q else []) + (["h:" + (b"q" * r).hex()] if r else [])

    if shape == "plain":
        return filler(total)
    if shape == "straddle":
        return [*filler(k * MIB - 1), "h:0d0a", *filler(total - k * MIB - 1)]
    return [*filler(k * MIB), "r:600:00", "h:0d0a", *filler(total - k * MIB - 602)]


LEGACY_BIG = legacy_big()


def rename_nodes(tree, renames):
    """Give drawn nodes (files or directories, numbered in pre-order) of a nested case tree drawn names; a rename
    that would collide with a sibling is skipped. Applied while the case is generated: the case holds the result."""
    def count(t):
        return sum(1 + (count(v) if isinstance(v, dict) else 0) for v in t.values())

    total = count(tree)
    todo = {}
    for i, nm in renames:
        todo.setdefault(i % total, nm)
    n = -1

    def rec(t):
        nonlocal n
        out = {}
        for name, v in t.items():
            n += 1
            new = todo.get(n)
            sub = rec(v) if isinstance(v, dict) else v
            if new is not None and new not in t and new not in out:
                name = new
            out[name] = sub
        return out

    return rec(tree)


FS_AWK = awkward_names()
FS_AWK_UTF8 = awkward_names(surrogates=False)

# The same generated directory read through a filesystem that is NOT the local one (what reports the files'
# metadata is part of the input): "dfs" = a dvc_data.fs.DataFileSystem view over a DataIndex backed by a cache that
# holds the directory under the OTHER hash flavour (so nothing hands build() a trusted hash under the requested
# name and every file is really hashed) or under the same one (hashes trusted); the index entries come from the
# lazily loaded stored .dir listing (no sizes: info() reports size None), carry the true sizes for a drawn subset,
# or are explicit per-file entries with meta None / Meta() / Meta(size). "wrap" = a thin read-only fsspec
# filesystem over one of the two local copies whose info()/ls() reports, per file, size None, no size key at all,
# size 0, or the true size (remote filesystems that do not know sizes up front), listing names in a drawn order.
VIEW_DFS = st.fixed_dictionaries({
    "src": st.sampled_from(["other", "other", "other", "same"]),
    "entries": st.sampled_from(["bare", "bare", "sized", "flat"]),
    "mask": st.lists(st.integers(0, 2), min_size=1, max_size=6),
    "sub_first": st.booleans(),
    "jobs": st.sampled_from([None, 1, 2]),
})
VIEW_WRAP = st.fixed_dictionaries({
    "copy": st.integers(0, 1),
    "sizes": st.lists(st.sampled_from(["none", "none", "drop", "zero", "true"]), min_size=1, max_size=6),
    "perm": st.lists(st.integers(0, 11), min_size=1, max_size=6),
    "jobs": st.sampled_from([None, 1, 2]),
})
VIEWS = st.sampled_from(["none", "dfs", "dfs", "wrap", "both", "both"]).flatmap(lambda k: st.none() if k == "none" else (
    st.fixed_dictionaries({"dfs": VIEW_DFS if k != "wrap" else st.none(),
                           "wrap": VIEW_WRAP if k != "dfs" else st.none()})))


@st.composite
def fs_cases(draw, thorough=False):
    tree = draw(gen.trees(max_files=16 if thorough else 8, max_depth=3, min_files=1, content=FS_CONTENT))
    big = draw(st.integers(0, 3 if thorough else 11)) == 0
    algo = draw(st.sampled_from(["md5", "md5", "md5", "md5", "md5-dos2unix", "sha256"]))
    # a State is only combined with the md5 family (see ASSUMPTIONS)
    state = draw(st.sampled_from(["none"] if algo == "sha256" else ["none", "state", "state", "state"]))
    if draw(st.integers(0, 2)) == 0:
        # awkward-but-legal names for some files / directories: characters JSON must escape, astral characters and,
        # without a State (see ASSUMPTIONS), names that are not valid UTF-8 (lone surrogates after os.fsdecode)
        tree = rename_nodes(tree, draw(st.lists(st.tuples(st.integers(0, 40), FS_AWK if state == "none" else FS_AWK_UTF8),
                                                min_size=1, max_size=3)))
    extra = None
    if big and draw(st.booleans()):
        # legacy shapes: 1-3 MiB text files whose per-read CRLF handling depends on the read size (CR LF across
        # k*2^20, a binary-looking block at a 2^20 offset); mostly hashed as md5-dos2unix, >= 2 in one directory
        big = False
        if draw(st.integers(0, 3)) > 0:
            algo = "md5-dos2unix"
        extra = {"dir": draw(st.integers(0, 5)),
                 "files": {nm: draw(LEGACY_BIG) for nm in ("legacy1", "Legacy2", "legacy3")[:draw(st.integers(2, 3))]}}
    if big:
        # two > 1 MiB files in one directory: the public route into the unordered pool
        tgt = tree
        if draw(st.booleans()):
            subs = [k for k, v in tree.items() if isinstance(v, dict)]
            if subs:
                tgt = tree[subs[0]]
        for nm in ("big1", "Big2", "big3")[:draw(st.integers(2, 3))]:
            tgt[nm] = draw(gen.large_content())
    # files directly in the root AND in >= 1 sub-directory are frequent (walk-order arm)
    if draw(st.booleans()):
        if not any(isinstance(v, dict) for v in tree.values()):
            tree[draw(st.sampled_from(["sub", "a", "zzz", "-"]))] = {"x": draw(FS_CONTENT), "deep": {"d": draw(FS_CONTENT)}}
        if all(isinstance(v, dict) for v in tree.values()):
            tree[draw(st.sampled_from(["rootfile", "b", "~"]))] = draw(FS_CONTENT)
    return {
        "kind": "fs",
        "algo": algo,
        "tree": tree,
        "extra": extra,
        "order1": draw(st.lists(st.integers(0, 40), max_size=8)),
        "order2": draw(st.lists(st.integers(0, 40), max_size=8)),
        "disk": draw(st.integers(0, 3)) == 0,
        "jobs": draw(st.sampled_from([None, 1, 2, 8])),
        "jobs2": draw(st.sampled_from([None, 1, 2, 8])),
        "state": state,
        # the State may already hold rows for the same unchanged files recorded under ANOTHER algorithm
        "prewarm": draw(st.sampled_from(PREWARM)),
        "touch": draw(st.lists(st.integers(0, 40), max_size=3)),
        "chmod": draw(st.lists(st.integers(0, 40), max_size=3)),
        "subdir": draw(st.integers(0, 5)),
        "threshold": draw(st.sampled_from([0, 0, 1, 3, 5, 20, 600, 2**40])),
        "slow": draw(st.lists(st.integers(0, 40), max_size=3)),
        "gorder": draw(st.lists(st.integers(0, 40), max_size=8)),
        # order in which an `ignore` object's walk() yields the (root, dirs, files) triples
        "walk": {"mode": draw(st.sampled_from(["topdown", "bottomup", "bottomup", "arbitrary", "arbitrary"])),
                 "perm": draw(st.lists(st.integers(0, 11), min_size=1, max_size=8))},
        # the same directory read through a non-local filesystem (DataFileSystem view / size-blind wrapper)
        "view": draw(VIEWS),
    }


# ------------------------------------------------------------------------------------------
# pure half
# ------------------------------------------------------------------------------------------
def permute(keys, ints):
    keys = list(keys)
    n = len(keys)
    for step, i in enumerate(range(n - 1, 0, -1)):
        j = ints[step % len(ints)] % (i + 1)
        keys[i], keys[j] = keys[j], keys[i]
    return keys


def mk_tree(entries, order, metas, algo, dup=False):
    from dvc_data.hashfile.hash_info import HashInfo
    from dvc_data.hashfile.meta import Meta
    from dvc_data.hashfile.tree import Tree

    rank = {k: i for i, k in enumerate(sorted(entries))}
    t = Tree()
    for n, k in enumerate(order):
        if dup and n % 3 == 0:
            t.add(k, Meta(size=99), HashInfo(algo, "0" * 32))  # overwritten by the add below
        t.add(k, Meta(**metas[rank[k] % len(metas)]), HashInfo(algo, entries[k]))
    return t


def mutate(entries, mut):
    e = dict(entries)
    keys = sorted(e)
    k = keys[mut["i"] % len(keys)]
    op = mut["op"]
    if op == "rename":
        nk = (*k[:-1], mut["name"])
        v = e.pop(k)
        e[nk] = v
    elif op == "rehash":
        e[k] = mut["oid"]
    elif op == "add":
        e[(*k[:-1], mut["name"])] = mut["oid"]
    elif op == "drop":
        if len(e) > 1:
            del e[k]
    elif op == "swap":
        k2 = keys[mut["j"] % len(keys)]
        e[k], e[k2] = e[k2], e[k]
    elif op == "push":
        v = e.pop(k)
        e[(mut["name"], *k)] = v
    # keep the input domain: no key may be a proper prefix of another
    ks = set(e)
    for key in ks:
        for d in range(1, len(key)):
            if key[:d] in ks:
                return dict(entries)
    return e


def listing_of(tree):
    return {"/".join(k): (hi.name, hi.value) for k, _, hi in tree}


def load_back(odb, key, viols, sig, what, hash_name=None, origin="written by as_bytes() and stored with odb.add"):
    """Tree.load of a listing the library itself serialised and stored (or of another valid spelling of such a
    listing): it must parse (serialise -> re-parse is the identity, so a listing written by as_bytes is never
    'corrupted')."""
    from dvc_data.hashfile.tree import Tree
    from dvc_objects.errors import ObjectFormatError

    try:
        return Tree.load(odb, key, hash_name=hash_name) if hash_name else Tree.load(odb, key)
    except ObjectFormatError as exc:
        viols.append(Viol(sig, f"{what}: the listing {key.value} {origin} cannot "
                               f"be re-parsed: {_ascii(repr(exc))} (cause: {_ascii(repr(exc.__cause__))[:160]})"))
        return None


def stored_form(spec, algo):
    form = (spec or {}).get("form", "canonical")
    if form == "with-meta" and hkey(algo) != "md5":
        return "permuted"  # a listing with metadata can only be re-read for the md5 family (see ASSUMPTIONS)
    return form


def foreign_listing(J, algo, spec, form):
    """The listing {relpath: oid} as ANOTHER writer may have left it in a store: the same JSON document (a list of
    {hash key, relpath} objects), entries in a drawn order and/or laid out differently. Written with json.dumps on
    dicts whose insertion order is the key order wanted (ASCII-only output, like the library's own writer)."""
    key = hkey(algo)
    rels = sorted(J)
    if "permuted" in form:
        rels = permute(rels, spec["perm"])
    kw = {}
    names = sorted([key, "relpath"])
    if "layout" in form:
        if spec["keys"] == "reversed":
            names = names[::-1]
        if spec["sep"] != "default":
            kw["separators"] = {"compact": (",", ":"), "spaced": (" , ", " : ")}[spec["sep"]]
        if spec["indent"] is not None:
            kw["indent"] = spec["indent"]
            if spec["sep"] == "default":
                kw["separators"] = (",", ": ")
    text = json.dumps([{n: (J[r] if n == key else r) for n in names} for r in rels], **kw)
    if "layout" in form and spec["newline"]:
        text += "\n"
    return text.encode("ascii")


def put_stored_form(odb, spec, form, E, algo, metas, viols, pre):
    """Put the listing of E into the (fresh, private) store `odb` in the drawn form. Returns (HashInfo key to load it
    with, hash_name argument for Tree.load, the stored bytes) or None after a violation."""
    from dvc_data.hashfile.db import add_update_tree
    from dvc_data.hashfile.hash_info import HashInfo

    J = joined(E)
    want_oid = ref_oid(J, algo)
    if form == "with-meta":
        # entirely inside the library: digest(with_meta=True) leaves tree.path at the listing WITH metadata, which
        # add_update_tree stores under the metadata-free id; read back with hash_name as index.load does
        tw = mk_tree(E, sorted(E), metas, algo)
        tw.digest(with_meta=True, name=algo)
        if tw.oid != want_oid:
            viols.append(Viol(f"{pre}meta-dependent", f"digest(with_meta=True) gave {tw.oid}, reference {want_oid}"))
            return None
        add_update_tree(odb, tw)
        data = odb.fs.cat_file(odb.oid_to_path(want_oid))
        parsed = ref.parse_listing(data)
        if parsed is None or {e["relpath"]: e.get(hkey(algo)) for e in parsed} != J or len(parsed) != len(J):
            viols.append(Viol(f"{pre}with-meta-listing-pairs", "the listing stored with metadata does not list the "
                                                               "tree's (relpath, digest) pairs"))
            return None
        return HashInfo(algo, want_oid), algo, data
    data = foreign_listing(J, algo, spec, form)
    if form == "canonical" and data != ref_bytes(J, algo):
        raise HarnessError("foreign_listing(canonical) is not the reference listing")
    # under the name a content-addressed writer gives these bytes
    oid = ref.ref_hash(data, algo) + ".dir"
    odb.fs.pipe_file(odb.oid_to_path(oid), data)
    return HashInfo(algo, oid), None, data


def check_stored_form(spec, n, E, algo, metas, viols, classes, half):
    """A tree re-parsed from ANY stored form of its listing is the same object as the tree built directly from the
    same (relpath, digest) pairs: same entries, as_bytes() == reference bytes, digest() == reference id, the object
    it stages holds the reference bytes, and one more store / load / digest cycle changes nothing."""
    from dvc_data.hashfile.hash_info import HashInfo

    J = joined(E)
    want_bytes, want_oid = ref_bytes(J, algo), ref_oid(J, algo)
    form = stored_form(spec, algo)
    pre = "" if half == "pure" else half + ":"
    odb = ops.make_odb("mem", f"/odb-stored-{n}", hash_name=algo)
    put = put_stored_form(odb, spec, form, E, algo, metas, viols, pre)
    if put is None:
        return None
    key, hash_name, data = put
    key_value = key.value
    classes.append(f"{half}:stored={form}" + ("(canonical-bytes)" if data == want_bytes and form != "canonical" else ""))
    origin = ("stored with metadata by digest(with_meta=True) + add_update_tree" if form == "with-meta"
              else f"stored as a {form} spelling of the same JSON document")
    loaded = load_back(odb, key, viols, f"{pre}load-rejects-stored-form:{form}", half, hash_name, origin)
    if loaded is None:
        return None
    want_listing = {r: (algo, v) for r, v in J.items()}
    if listing_of(loaded) != want_listing:
        viols.append(Viol(f"{pre}load-stored-form-entries:{form}", f"Tree.load of the listing {origin} has other "
                                                                   f"keys/hashes than the listing says"))
    elif loaded.as_bytes() != want_bytes:
        viols.append(Viol(f"{pre}load-stored-form-bytes:{form}",
                          f"the tree re-parsed from the listing {origin} serialises to {loaded.as_bytes()[:100]!r}, "
                          f"the tree built directly from the same pairs to {want_bytes[:100]!r}"))
    elif key.value != key_value:
        viols.append(Viol(f"{pre}load-key-changed", "the HashInfo key handed to Tree.load was modified"))
    else:
        loaded.digest(name=algo)
        hi = loaded.hash_info
        if loaded.oid != want_oid or hi.value != want_oid or hi.name != algo:
            viols.append(Viol(f"{pre}load-stored-form-oid:{form}",
                              f"the tree re-parsed from the listing {origin} digests to {hi}, the tree built directly "
                              f"from the same pairs to {algo}:{want_oid}"))
        elif loaded.fs.cat_file(loaded.path) != want_bytes or loaded.as_bytes() != want_bytes:
            viols.append(Viol(f"{pre}load-stored-form-staged-bytes:{form}", "the object staged by digest() of the "
                                                                            "re-parsed tree is not the reference listing"))
        else:
            # one more cycle: store what digest() staged, parse it again, digest again
            odb2 = ops.make_odb("mem", f"/odb-stored-{n}-again", hash_name=algo)
            odb2.add(loaded.path, loaded.fs, loaded.oid)
            key2 = HashInfo(algo, want_oid)
            again = load_back(odb2, key2, viols, f"{pre}load-rejects-own-listing", half + " second cycle")
            if again is not None:
                again_bytes = again.as_bytes()
                again.digest(name=algo)
                if (odb2.fs.cat_file(odb2.oid_to_path(want_oid)) != want_bytes or again_bytes != want_bytes
                        or listing_of(again) != want_listing or again.oid != want_oid):
                    viols.append(Viol(f"{pre}load-stored-form-cycle:{form}",
                                      f"store / load / digest of the tree re-parsed from the listing {origin} gives "
                                      f"another listing or id ({again.oid}, reference {want_oid})"))
    return loaded


def name_classes(rels, half):
    out = []
    if any(has_surrogate(r) for r in rels):
        out.append(f"{half}:name-not-utf8(lone-surrogate)")
    if any(has_escape(r) for r in rels):
        out.append(f"{half}:name-needs-json-escape")
    if any(has_astral(r) for r in rels):
        out.append(f"{half}:name-astral")
    return out


def run_pure(case, ctx):
    from dvc_data.hashfile.tree import Tree

    reset_globals()
    try:
        return _run_pure(case, Tree)
    finally:
        reset_globals()


def _run_pure(case, Tree):  # noqa: N803
    algo = case["algo"]
    key = hkey(algo)
    E = entries_of(case)
    J = joined(E)
    want_bytes = ref_bytes(J, algo)
    want_oid = ref_oid(J, algo)
    viols, classes = [], [f"pure:algo={algo}"]

    sorted_keys = sorted(E)
    order = permute(sorted_keys, case["perm"])
    t0 = mk_tree(E, sorted_keys, case["metas"], algo)
    t = mk_tree(E, order, case["metas"], algo, dup=case["dup"])
    b0, b = t0.as_bytes(), t.as_bytes()
    if b != b0:
        viols.append(Viol("order-dependent-bytes", f"as_bytes differs between insertion orders {sorted_keys[:3]}.. "
                                                   f"and {order[:3]}.."))
    if b != want_bytes:
        viols.append(Viol("bytes-vs-reference", f"as_bytes {b[:120]!r} != reference {want_bytes[:120]!r}"))
    t.digest(name=algo)
    t0.digest(name=algo)
    if t.oid != t0.oid:
        viols.append(Viol("order-dependent-oid", f"oid {t.oid} vs {t0.oid} for two insertion orders"))
    if t.oid != want_oid or t.hash_info.value != want_oid or t.hash_info.name != algo:
        viols.append(Viol("oid-vs-reference", f"digest {t.hash_info} != reference {algo}:{want_oid}"))

    # metadata independence
    tm = mk_tree(E, order, case["metas2"], algo)
    tm.digest(with_meta=case["with_meta_digest"], name=algo)
    if tm.as_bytes() != b or tm.oid != t.oid:
        viols.append(Viol("meta-dependent", f"changing only metadata changed the listing/oid ({tm.oid} vs {t.oid})"))

    # injectivity: parse back; one mutation away => different bytes
    parsed = ref.parse_listing(b)
    back = None
    if parsed is not None and all(set(e) == {key, "relpath"} for e in parsed):
        back = {e["relpath"]: e[key] for e in parsed}
    if back != J or (parsed is not None and len(parsed) != len(J)):
        viols.append(Viol("not-injective-parse", "parsing the listing bytes does not give back the entry set"))
    E2 = mutate(E, case["mut"])
    if E2 != E:
        classes.append("pure:mut=" + case["mut"]["op"])
        t2 = mk_tree(E2, permute(sorted(E2), case["perm"]), case["metas"], algo)
        t2.digest(name=algo)
        b2 = t2.as_bytes()
        if b2 == b or t2.oid == t.oid:
            viols.append(Viol("collision", f"two different entry sets ({case['mut']['op']}) share bytes/oid {t.oid}"))
        if b2 != ref_bytes(joined(E2), algo):
            viols.append(Viol("bytes-vs-reference", "mutated set: as_bytes != reference"))
    else:
        classes.append("pure:mut-noop")

    # parse(serialise) identity
    for wm in (False, True):
        if wm and key != "md5":
            continue
        lst = t.as_list(with_meta=wm)
        raw = json.loads(t.as_bytes(with_meta=wm))
        if raw != lst:
            viols.append(Viol("as_bytes-vs-as_list", f"json of as_bytes(with_meta={wm}) != as_list"))
        r = Tree.from_list(raw, hash_name=algo if (wm or algo == "md5-dos2unix") else None)
        sig = "from_list-roundtrip-meta" if wm else "from_list-roundtrip"
        if r.as_list(with_meta=wm) != lst or r.as_bytes(with_meta=wm) != t.as_bytes(with_meta=wm):
            viols.append(Viol(sig, f"from_list(as_list(with_meta={wm})) re-serialises differently"))
        elif listing_of(r) != listing_of(t):
            viols.append(Viol(sig, f"from_list(as_list(with_meta={wm})) has other keys/hashes"))
        elif wm and any(m.to_dict() != t.get(k)[0].to_dict() for k, m, _ in r
                        if not set(m.to_dict()) & {"md5"}):
            viols.append(Viol(sig, "metadata lost in the with_meta round trip"))

    # store + load
    odb = ops.make_odb("mem", "/odb", hash_name=algo)
    odb.add(t.path, t.fs, t.oid)
    stored = odb.fs.cat_file(odb.oid_to_path(t.oid))
    if stored != want_bytes:
        viols.append(Viol("stored-bytes", "the stored directory object is not the reference listing"))
    loaded = load_back(odb, t.hash_info, viols, "load-rejects-own-listing", "pure")
    if loaded is not None:
        if loaded.as_bytes() != b or listing_of(loaded) != listing_of(t) or loaded.oid != t.oid:
            viols.append(Viol("load-roundtrip", "Tree.load after add returns a different listing"))
        else:
            # the re-parsed listing is the same entry set, hence has the same identifier
            loaded.digest(name=algo)
            if loaded.oid != want_oid:
                viols.append(Viol("load-roundtrip-oid", f"re-digest of the re-parsed listing gives {loaded.oid}, "
                                                        f"reference {want_oid}"))

    # other stored forms of the same listing: the re-parsed tree is the directly built one
    for n, spec in enumerate(case.get("stored") or []):
        if viols:
            break
        check_stored_form(spec, n, E, algo, case["metas2"], viols, classes, "pure")

    # prefixes
    prefixes = sorted({k[:d] for k in E for d in range(0, len(k))})
    for p in prefixes:
        below = {k[len(p):]: v for k, v in E.items() if k[:len(p)] == p}
        obj = t.get_obj(odb, p)
        if obj is None or not isinstance(obj, Tree):
            viols.append(Viol("get_obj-dir", f"get_obj({p}) returned {obj!r} for a directory prefix"))
        else:
            if obj.as_bytes() != ref_bytes(joined(below), algo):
                viols.append(Viol("get_obj-dir-bytes", f"get_obj({p}) lists other entries than the sub-directory"))
            elif key == "md5" and obj.oid != ref_oid(joined(below), algo):
                viols.append(Viol("get_obj-dir-oid", f"get_obj({p}).oid {obj.oid} != oid of the re-rooted entries"))
        f = t.filter(p)
        got = {k: hi.value for k, _, hi in f}
        if got != {k: v for k, v in E.items() if k[:len(p)] == p}:
            viols.append(Viol("filter-keys", f"filter({p}) keeps {sorted(got)[:4]}"))
        if f.oid != t.oid or f.hash_info != t.hash_info:
            viols.append(Viol("filter-identity", "filter() did not keep the original tree's hash_info"))
    k0 = sorted_keys[case["mut"]["j"] % len(sorted_keys)]
    fobj = t.get_obj(odb, k0)
    if fobj is None or isinstance(fobj, Tree) or fobj.hash_info.value != E[k0]:
        viols.append(Viol("get_obj-file", f"get_obj({k0}) is not the file object {E[k0]}"))
    ab = tuple(case["absent"])
    if not any(k[:len(ab)] == ab for k in E):
        classes.append("pure:absent-prefix")
        if t.get_obj(odb, ab) is not None:
            viols.append(Viol("get_obj-absent", f"get_obj({ab}) is not None for an absent prefix"))
        if len(t.filter(ab)) != 0:
            viols.append(Viol("filter-absent", f"filter({ab}) is not empty for an absent prefix"))

    nested = any(len(k) > 1 for k in E)
    nonid = order != sorted_keys
    if nested:
        classes.append("pure:nested")
    if any(len(k) > 2 for k in E):
        classes.append("pure:depth>=3")
    if nonid:
        classes.append("pure:permuted")
    if len(set(E.values())) < len(E):
        classes.append("pure:dup-oid")
    if sorted(J) != ["/".join(k) for k in sorted_keys]:
        classes.append("pure:relpath-order!=tuple-order")
    if any(not r.isascii() for r in J):
        classes.append("pure:non-ascii")
    classes += name_classes(J, "pure")
    if len(prefixes) > 1:
        classes.append("pure:dir-prefixes")
    return Result(viols, len(E) >= 3 and nested and nonid, classes)


# ------------------------------------------------------------------------------------------
# pure half, histories on one Tree instance
# ------------------------------------------------------------------------------------------
def check_reads(t, odb, model, algo, reads, pidx, kidx, viols, where):
    """Compare the trie-backed read methods of the live tree with the model dict {key: oid}."""
    from dvc_data.hashfile.tree import Tree

    prefixes = sorted({k[:d] for k in model for d in range(1, len(k))})
    p = prefixes[pidx % len(prefixes)] if prefixes else ()
    below = {k: v for k, v in model.items() if k[:len(p)] == p}
    for m in reads:
        if m == "get_obj":
            obj = t.get_obj(odb, p)
            want = joined({k[len(p):]: v for k, v in below.items()})
            if not isinstance(obj, Tree) or obj.as_bytes() != ref_bytes(want, algo):
                viols.append(Viol("hist:get_obj", f"{where}: get_obj({p}) does not list the current entries below it"))
            elif hkey(algo) == "md5" and obj.oid != ref_oid(want, algo):
                viols.append(Viol("hist:get_obj-oid", f"{where}: get_obj({p}).oid != oid of the re-rooted entries"))
        elif m == "filter":
            got = {k: hi.value for k, _, hi in t.filter(p)}
            if got != below:
                viols.append(Viol("hist:filter", f"{where}: filter({p}) != current entries below it"))
        elif m == "iteritems":
            got = {k: hi.value for k, (_, hi) in (t.iteritems(p) if p else t.iteritems())}
            if got != below:
                viols.append(Viol("hist:iteritems", f"{where}: iteritems({p}) != current entries below it"))
        elif m == "as_trie":
            got = {k: hi.value for k, (_, hi) in t.as_trie().iteritems()}
            if got != model:
                viols.append(Viol("hist:as_trie", f"{where}: as_trie() != current entries"))
        elif m == "ls" and p:
            want = sorted({k[len(p)] for k in below if len(k) > len(p)})
            if sorted(t.ls(p)) != want:
                viols.append(Viol("hist:ls", f"{where}: ls({p}) = {sorted(t.ls(p))}, children are {want}"))
        elif m == "shortest_prefix":
            keys = sorted(model)
            k = keys[kidx % len(keys)]
            step = t.shortest_prefix(k)
            if not step or step.key != k or step.value[1].value != model[k]:
                viols.append(Viol("hist:shortest_prefix", f"{where}: shortest_prefix({k}) is not the current entry"))


def run_hist(case, ctx):
    from dvc_data.hashfile.hash_info import HashInfo
    from dvc_data.hashfile.meta import Meta

    reset_globals()
    try:
        algo = case["algo"]
        model = entries_of(case)
        t = mk_tree(model, sorted(model), [{}], algo)
        odb = ops.make_odb("mem", "/odb", hash_name=algo)
        viols, classes = [], [f"hist:algo={algo}"]
        check_reads(t, odb, model, algo, case["first_reads"], 0, 0, viols, "initially")
        read_before = bool(case["first_reads"])
        stale_window = False  # an overwrite happened after the trie had been materialised
        judged_after_overwrite = False
        for n, st_ in enumerate(case["steps"]):
            keys = sorted(model)
            k = keys[st_["i"] % len(keys)]
            if st_["op"] == "overwrite":
                if model[k] != st_["oid"] and read_before:
                    stale_window = True
                model[k] = st_["oid"]
                t.add(k, Meta(size=n), HashInfo(algo, st_["oid"]))
                classes.append("hist:overwrite")
            elif st_["op"] == "new":
                nk = (*k[:-1], st_["name"])
                if not any(nk[:len(o)] == o or o[:len(nk)] == nk for o in model if o != nk):
                    model[nk] = st_["oid"]
                    t.add(nk, Meta(size=n), HashInfo(algo, st_["oid"]))
                    classes.append("hist:add-new")
            where = f"after step {n} ({st_['op']})"
            if t.as_bytes() != ref_bytes(joined(model), algo):
                viols.append(Viol("hist:bytes", f"{where}: as_bytes != reference of the current entries"))
            if st_["digest"]:
                t.digest(name=algo)
                if t.oid != ref_oid(joined(model), algo):
                    viols.append(Viol("hist:oid", f"{where}: digest {t.oid} != reference"))
            check_reads(t, odb, model, algo, st_["reads"], st_["p"], st_["i"] + n, viols, where)
            if st_["reads"]:
                read_before = True
                if stale_window and set(st_["reads"]) - {"shortest_prefix"}:
                    judged_after_overwrite = True
            if viols:
                break
        nested = any(len(k) > 1 for k in model)
        if judged_after_overwrite:
            classes.append("hist:read-overwrite-read")
        return Result(viols, nested and judged_after_overwrite, sorted(set(classes)))
    finally:
        reset_globals()


def run_pub(case, ctx):
    """as_trie -> edit -> from_trie -> digest, with one working trie published more than once: every published
    tree must keep answering from the entry set it was published with."""
    from pygtrie import Trie

    from dvc_data.hashfile.hash_info import HashInfo
    from dvc_data.hashfile.meta import Meta
    from dvc_data.hashfile.tree import Tree

    reset_globals()
    try:
        algo = case["algo"]
        model = entries_of(case)
        odb = ops.make_odb("mem", "/odb", hash_name=algo)
        viols, classes = [], [f"pub:algo={algo}", "pub:via=" + case["via"]]
        if case["via"] == "as_trie":
            work = mk_tree(model, sorted(model), [{}], algo).as_trie()
        else:
            work = Trie({k: (Meta(), HashInfo(algo, v)) for k, v in model.items()})
        published = []  # (tree, snapshot of the entries it was published with)
        edits_since_publish = 0
        judged_stale_candidate = False

        def publish():
            nonlocal edits_since_publish
            t = Tree.from_trie(work)
            t.digest(name=algo)
            published.append((t, dict(model)))
            edits_since_publish = 0

        publish()
        for n, st_ in enumerate(case["steps"]):
            keys = sorted(model)
            k = keys[st_["i"] % len(keys)]
            op = st_["op"]
            if op == "replace":
                if model[k] != st_["oid"]:
                    edits_since_publish += 1
                model[k] = st_["oid"]
                work[k] = (Meta(size=n), HashInfo(algo, st_["oid"]))
            elif op == "add":
                nk = (*k[:-1], st_["name"])
                if nk not in model and not any(nk[:len(o)] == o or o[:len(nk)] == nk for o in model):
                    model[nk] = st_["oid"]
                    work[nk] = (Meta(size=n), HashInfo(algo, st_["oid"]))
                    edits_since_publish += 1
            elif op == "remove":
                if len(model) > 1:
                    del model[k]
                    del work[k]
                    edits_since_publish += 1
            elif op == "publish":
                publish()
                classes.append("pub:republished")
            elif op == "reopen":
                # round trip: take an earlier tree's as_trie() as the new working trie
                t, snap = published[st_["t"] % len(published)]
                work = t.as_trie()
                model = dict(snap)
                classes.append("pub:as_trie-roundtrip")
            # query one published tree (often an EARLIER one) against the entries it was published with
            idx = st_["t"] % len(published)
            t, snap = published[idx]
            where = f"after step {n} ({op}), tree #{idx} of {len(published)}"
            if t.as_bytes() != ref_bytes(joined(snap), algo) or t.oid != ref_oid(joined(snap), algo):
                viols.append(Viol("pub:bytes-or-oid", f"{where}: listing/id != reference of its own entries"))
            check_reads(t, odb, snap, algo, st_["reads"], st_["p"], st_["i"] + n, viols, where)
            if st_["reads"] and snap != model and (idx < len(published) - 1 or edits_since_publish):
                judged_stale_candidate = True
            if viols:
                break
        nested = any(len(k) > 1 for k in model) or any(len(k) > 1 for _, sn in published for k in sn)
        if judged_stale_candidate:
            classes.append("pub:earlier-tree-queried-after-edit")
        return Result(viols, nested and judged_stale_candidate, sorted(set(classes)))
    finally:
        reset_globals()


def run_live(case, ctx):
    """Histories over several live trees. Model per tree: its current entries, the id it must report (the id of
    its last digest; for filter()/update_meta() copies the source tree's id, as their docstrings say; for a
    loaded tree the id it was loaded under) and whether that id is the digest of its current listing. After
    every step EVERY live tree and every HashInfo key handed to Tree.load is re-checked."""
    from dvc_data.hashfile.hash_info import HashInfo
    from dvc_data.hashfile.meta import Meta
    from dvc_data.hashfile.tree import Tree, update_meta

    reset_globals()
    try:
        algo = case["algo"]
        E0 = entries_of(case)
        odb = ops.make_odb("mem", "/odb", hash_name=algo)
        viols, classes = [], [f"live:algo={algo}"]
        t0 = mk_tree(E0, sorted(E0), case.get("metas") or [{}], algo)
        keys = []  # (HashInfo object handed to Tree.load, the value the harness put into it)
        shared = False
        judged = False

        def render(r, kinds, where):
            """Read-only renderings of one live tree (as_list / as_bytes, with and without metadata), done before
            the harness itself serialises anything. The with-meta flavour must list the same pairs plus exactly
            the tree's own per-entry metadata; the bare flavour is judged by check_all / the next digest."""
            t = r["t"]
            for kind in kinds:
                if viols:
                    return
                if not kind.endswith("_meta"):
                    t.as_list() if kind == "as_list" else t.as_bytes()
                    classes.append(f"live:render={kind}")
                    continue
                got = t.as_list(with_meta=True) if kind == "as_list_meta" else json.loads(t.as_bytes(with_meta=True))
                want = {"/".join(k): {**m.to_dict(), hkey(algo): h.value, "relpath": "/".join(k)} for k, m, h in t}
                rich = any(m.to_dict() for _, m, _ in t)
                classes.append(f"live:render={kind}" + ("(meta-non-empty)" if rich else ""))
                if rich:
                    r["meta_rendered"] = True
                pairs = {e.get("relpath"): e.get(hkey(algo)) for e in got}
                if len(got) != len(r["E"]) or pairs != joined(r["E"]):
                    viols.append(Viol(f"live:with-meta-listing-other-pairs:{r['how']}",
                                      f"{where}: {kind} of a tree ({r['how']}) does not list its (relpath, digest) "
                                      f"pairs: {str(got)[:200]}"))
                elif {e["relpath"]: e for e in got} != want:
                    viols.append(Viol(f"live:with-meta-listing-metadata:{r['how']}",
                                      f"{where}: {kind} of a tree ({r['how']}) lists the right pairs but not the "
                                      f"entries' metadata: got {str(got)[:160]}, the entries hold "
                                      f"{str(sorted(want.values(), key=lambda e: e['relpath']))[:160]}"))

        r0 = {"t": t0, "E": dict(E0), "id": ref_oid(joined(E0), algo), "clean": True, "own": True, "how": "built"}
        render(r0, case.get("first") or [], "before the first digest")
        if r0.get("meta_rendered"):
            classes.append("live:digest-after-with-meta-render")
        t0.digest(name=algo)
        live = [r0]

        def check_all(where):
            for n, r in enumerate(live):
                t = r["t"]
                hi = t.hash_info
                if hi is None or hi.value != r["id"] or t.oid != r["id"] or hi.name != r.get("name", algo):
                    viols.append(Viol(f"live:id-changed:{r['how']}",
                                      f"{where}: tree #{n} ({r['how']}) reports hash_info={hi} oid={t.oid}, but its "
                                      f"id is {algo}:{r['id']}"))
                    return
                if t.as_bytes() != ref_bytes(joined(r["E"]), algo):
                    if {"/".join(k): hi_.value for k, _, hi_ in t} == joined(r["E"]):
                        viols.append(Viol(f"live:listing-not-canonical:{r['how']}",
                                          f"{where}: tree #{n} ({r['how']}) holds its own entries but as_bytes() is "
                                          f"not their canonical listing: {t.as_bytes()[:100]!r}"))
                    else:
                        viols.append(Viol(f"live:listing-changed:{r['how']}", f"{where}: tree #{n} lists other entries"))
                    return
                if r["clean"]:
                    fresh = mk_tree(r["E"], sorted(r["E"]), [{}], algo)
                    fresh.digest(name=algo)
                    if fresh.oid != t.oid or t.oid != ref_oid(joined(r["E"]), algo):
                        viols.append(Viol(f"live:id-vs-rebuild:{r['how']}",
                                          f"{where}: tree #{n} id {t.oid} != fresh rebuild {fresh.oid} / reference"))
                        return
            for n, (k, v, _, _) in enumerate(keys):
                if k.value != v or k.name != algo:
                    viols.append(Viol("live:load-key-changed", f"{where}: the HashInfo key #{n} handed to Tree.load "
                                                               f"now reads {k}, it was {algo}:{v}"))
                    return

        check_all("initially")
        for n, st_ in enumerate(case["steps"]):
            if viols:
                break
            op = st_["op"]
            ra = live[st_["a"] % len(live)]
            rb = live[st_["b"] % len(live)]
            ta, Ea = ra["t"], ra["E"]
            prefixes = sorted({k[:d] for k in Ea for d in range(1, len(k))}) or [()]
            p = prefixes[st_["p"] % len(prefixes)]
            room = len(live) < 8
            if op == "filter" and room:
                sub = {k: v for k, v in Ea.items() if k[:len(p)] == p}
                live.append({"t": ta.filter(p), "E": sub, "id": ra["id"], "clean": ra["clean"] and sub == Ea,
                             "own": False, "how": "filter", "name": ra.get("name", algo)})
                shared = True
            elif op == "update_meta" and room:
                live.append({"t": update_meta(ta, rb["t"]), "E": dict(Ea), "id": ra["id"], "clean": ra["clean"],
                             "own": False, "how": "update_meta", "name": ra.get("name", algo)})
                shared = True
            elif op == "get_obj" and room and p:
                sub = {k[len(p):]: v for k, v in Ea.items() if k[:len(p)] == p}
                g = ta.get_obj(odb, p)
                if isinstance(g, Tree) and hkey(algo) == "md5":
                    # get_obj() always digests with the default name
                    live.append({"t": g, "E": sub, "id": ref_oid(joined(sub), algo), "clean": True, "own": True,
                                 "how": "get_obj", "name": "md5"})
            elif op == "store_load" and room and ra["own"] and ra["clean"] and st_.get("stored"):
                # the listing sits in a (private) store in another form: another entry order / JSON layout under
                # the name of those bytes, or WITH metadata under the tree's id (written by the library itself)
                spec = st_["stored"]
                form = stored_form(spec, algo)
                odb_k = ops.make_odb("mem", f"/odb-stored-{n}", hash_name=algo)
                metas = [METAS[(st_["i"] + j) % len(METAS)] for j in range(3)]
                put = put_stored_form(odb_k, spec, form, Ea, algo, metas, viols, "live:")
                if put is None:
                    break
                key, hash_name, data = put
                keys.append((key, key.value, odb_k, hash_name))
                lt = load_back(odb_k, key, viols, f"live:load-rejects-stored-form:{form}", f"step {n}", hash_name,
                               f"stored in the form {form}")
                if lt is None:
                    break
                # it reports the key it was loaded under until it is digested; its listing is the canonical one
                live.append({"t": lt, "E": dict(Ea), "id": key.value, "clean": key.value == ra["id"], "own": False,
                             "how": "load"})
                shared = True
                if any(has_surrogate(x) for k_ in Ea for x in k_):
                    classes.append("live:loaded-name-not-utf8")
                classes.append(f"live:stored={form}" + ("(canonical-bytes)" if data == ref_bytes(joined(Ea), algo)
                                                        and form != "canonical" else ""))
            elif op == "store_load" and room and ra["own"] and ra["clean"]:
                odb.add(ta.path, ta.fs, ta.oid)
                key = HashInfo(algo, ra["id"])
                keys.append((key, ra["id"], odb, None))
                lt = load_back(odb, key, viols, "live:load-rejects-own-listing", f"step {n}")
                if lt is None:
                    break
                live.append({"t": lt, "E": dict(Ea), "id": ra["id"], "clean": True, "own": False, "how": "load"})
                shared = True
                if any(has_surrogate(x) for k_ in Ea for x in k_):
                    classes.append("live:loaded-name-not-utf8")
            elif op == "load_again" and room and keys:
                key, v, odb_k, hash_name = keys[st_["b"] % len(keys)]
                stored = json.loads(odb_k.fs.cat_file(odb_k.oid_to_path(v)))
                E = {tuple(e["relpath"].split("/")): e[hkey(algo)] for e in stored}
                lt = load_back(odb_k, key, viols, "live:load-rejects-own-listing", f"step {n}", hash_name)
                if lt is None:
                    break
                live.append({"t": lt, "E": E, "id": v, "clean": v == ref_oid(joined(E), algo), "own": False,
                             "how": "load"})
                shared = True
            elif op == "add":
                ks = sorted(Ea)
                k = ks[st_["i"] % len(ks)]
                if st_["name"] is not None:
                    nk = (*k[:-1], st_["name"])
                    if nk in Ea or not any(nk[:len(o)] == o or o[:len(nk)] == nk for o in Ea):
                        k = nk
                if Ea.get(k) != st_["oid"]:
                    ra["clean"] = False
                Ea[k] = st_["oid"]
                ta.add(k, Meta(size=n), HashInfo(algo, st_["oid"]))
                ra["meta_rendered"] = False
                classes.append("live:add")
            elif op == "digest":
                if ra.get("meta_rendered"):
                    # the listing was rendered WITH metadata since the last add: the id must not notice
                    classes.append("live:digest-after-with-meta-render")
                ta.digest(name=algo)
                if shared and (not ra["clean"] or ra["id"] != ref_oid(joined(Ea), algo)):
                    judged = True  # a re-digest that really changes this tree's id while copies are alive
                ra.update(id=ref_oid(joined(Ea), algo), clean=True, own=True, name=algo)
                classes.append("live:digest:" + ra["how"])
            if st_.get("render") and not viols:
                render(ra, st_["render"], f"step {n} ({op}, then {'+'.join(st_['render'])} on tree #{st_['a'] % len(live)})")
            check_all(f"after step {n} ({op}{'+' + '+'.join(st_['render']) if st_.get('render') else ''} "
                      f"on tree #{st_['a'] % len(live)})")
        if len(live) > 1:
            classes.append("live:trees>=2")
        if keys:
            classes.append("live:loaded")
        if judged:
            classes.append("live:redigest-with-live-copies")
        nested = any(len(k) > 1 for k in E0)
        return Result(viols, nested and judged and len(live) >= 2, sorted(set(classes)))
    finally:
        reset_globals()


# ------------------------------------------------------------------------------------------
# filesystem half
# ------------------------------------------------------------------------------------------
class HashSpy:
    """Wraps build.hash_file: counts calls per phase, which ran off the main thread, delays drawn paths."""

    def __init__(self):
        from dvc_data.hashfile import build as B

        self.B = B
        self.orig = B.hash_file
        self.calls = 0
        self.pool_calls = 0
        self.slow = set()
        self.exclude = None
        self.main = threading.get_ident()
        self.lock = threading.Lock()

    def __enter__(self):
        def wrapper(path, *a, **kw):
            off = threading.get_ident() != self.main
            if self.exclude and path.startswith(self.exclude):
                return self.orig(path, *a, **kw)  # the directory listing itself, not a workspace file
            with self.lock:
                self.calls += 1
                self.pool_calls += off
            if off and path in self.slow:
                time.sleep(0.002)
            return self.orig(path, *a, **kw)

        self.B.hash_file = wrapper
        return self

    def __exit__(self, *exc):
        self.B.hash_file = self.orig

    def phase(self):
        c, p = self.calls, self.pool_calls
        self.calls = self.pool_calls = 0
        return c, p


class OrderedWalker:
    """An `ignore` object that ignores nothing and only fixes the walk order (the hook build(ignore=...) takes
    its walk from). Like DvcIgnoreFilter.walk it yields every directory exactly once as (root, dirs, files)
    with the complete, correct dirs and files lists; only the order of the triples and of the names inside the
    lists is generated: top-down with permuted siblings, bottom-up (os.walk(topdown=False) style), or an
    arbitrary permutation of the triples."""

    def __init__(self, mode, ints):
        self.mode = mode
        self.ints = ints or [0]
        self.order = []

    def find(self, fs, path, **kwargs):
        yield from fs.find(path)

    def _triple(self, root, salt):
        dirs, files = [], []
        for name in sorted(os.listdir(root)):
            (dirs if os.path.isdir(os.path.join(root, name)) else files).append(name)
        rot = self.ints[salt % len(self.ints):] + self.ints[:salt % len(self.ints)]
        return root, permute(dirs, rot), permute(files, rot[::-1])

    def _rec(self, root, depth):
        t = self._triple(root, depth + len(root))
        if self.mode == "topdown":
            yield t
        for name in t[1]:
            yield from self._rec(os.path.join(root, name), depth + 1)
        if self.mode != "topdown":
            yield t

    def walk(self, fs, path, **kwargs):
        triples = list(self._rec(path, 0))
        if self.mode == "arbitrary":
            triples = permute(triples, self.ints)
        for root, dirs, files in triples:
            self.order.append(root)
            yield root, list(dirs), list(files)


_BLIND = []


def size_blind_fs(modes, perm):
    """A thin read-only fsspec filesystem (not a LocalFileSystem, so build() takes infos from its walk()/info()
    like it does for any remote) over local directories. `modes` maps the absolute path of a file to what info()
    and ls() say about its size: "none" = size None (unknown, e.g. HTTP without Content-Length), "drop" = no size
    key, "zero" = 0 although the file has bytes (procfs-like / generated content), "true" = st_size. Contents, names
    and types are the real ones; ls() lists the names in an order permuted by `perm`."""
    if not _BLIND:
        from fsspec import AbstractFileSystem

        class SizeBlindFS(AbstractFileSystem):
            protocol = "vdsizeblind"
            cachable = False

            def __init__(self, modes, perm, **kw):
                super().__init__(**kw)
                self.modes = modes
                self.perm = perm or [0]

            def _one(self, path):
                st_ = os.stat(path)
                if os.path.isdir(path):
                    return {"name": path, "type": "directory", "size": 0}
                out = {"name": path, "type": "file", "size": st_.st_size, "mode": st_.st_mode}
                m = self.modes.get(path, "true")
                if m == "none":
                    out["size"] = None
                elif m == "drop":
                    del out["size"]
                elif m == "zero":
                    out["size"] = 0
                return out

            def info(self, path, **kw):
                return self._one(self._strip_protocol(path))

            def ls(self, path, detail=True, **kw):
                path = self._strip_protocol(path)
                if os.path.isdir(path):
                    names = permute(sorted(os.listdir(path)), self.perm)
                    infos = [self._one(os.path.join(path, n)) for n in names]
                else:
                    infos = [self._one(path)]
                return infos if detail else [i["name"] for i in infos]

            def _open(self, path, mode="rb", **kw):
                return open(self._strip_protocol(path), mode)  # noqa: SIM115

        _BLIND.append(SizeBlindFS)
    return _BLIND[0](modes, perm)


def other_flavour(algo):
    return "md5-dos2unix" if algo == "md5" else "md5"


def data_view(spec, src_odb, root_hi, listing, sizes):
    """DataFileSystem over a DataIndex whose ("data",) directory lives in the cache `src_odb`. `listing` is
    [(key tuple, HashInfo)] of the stored tree, `sizes` {key tuple: true size}. Returns (view, infos-have-no-size?)"""
    from dvc_data.fs import DataFileSystem
    from dvc_data.hashfile.hash_info import HashInfo
    from dvc_data.hashfile.meta import Meta
    from dvc_data.index import DataIndex, DataIndexEntry, ObjectStorage

    mask = spec["mask"]
    keys = sorted(k for k, _ in listing)
    pick = {k: mask[i % len(mask)] for i, k in enumerate(keys)}
    if spec["entries"] == "flat":
        # explicit per-file entries (no directory entry): meta None / Meta() / Meta(size=true size)
        index = DataIndex()
        for k, hi in listing:
            meta = [None, Meta(size=sizes[k]), Meta()][pick[k]]
            index[("data", *k)] = DataIndexEntry(key=("data", *k), meta=meta, hash_info=HashInfo(hi.name, hi.value))
        sizeless = {k for k in keys if pick[k] != 1}
    else:
        index = DataIndex({("data",): DataIndexEntry(key=("data",), meta=Meta(isdir=True),
                                                     hash_info=HashInfo(root_hi.name, root_hi.value))})
        sizeless = set(keys)
    index.storage_map.add_cache(ObjectStorage((), src_odb))
    if spec["entries"] == "sized":
        list(index.iteritems())  # load the directory's entries from the stored listing, then give some their sizes
        for k in keys:
            if pick[k] != 0:
                index[("data", *k)].meta = Meta(size=sizes[k])
                sizeless.discard(k)
    return DataFileSystem(index), sizeless


def bump_mtime(path, delta_ns):
    st_ = os.stat(path)
    os.utime(path, ns=(st_.st_atime_ns, st_.st_mtime_ns + delta_ns))


def file_ref(data, algo):
    """Reference digest of one file, or None where the property does not pin it down: md5-dos2unix of a file
    larger than the 1 MiB read is judged by C14's rule (1 MiB reads; None when the answer would depend on
    per-read sniffing or a CRLF lies across a read boundary)."""
    if algo != "md5-dos2unix" or len(data) <= MIB:
        return ref.ref_hash(data, algo)
    from . import c14

    return c14.legacy_expected(data, c14.chunks_of(data, MIB))[0]


def run_fs(case, ctx):
    from dvc_objects.fs.local import LocalFileSystem

    from dvc_data.fsutils import _localfs_info
    from dvc_data.hashfile.build import _get_hashes, build
    from dvc_data.hashfile.transfer import transfer
    from dvc_data.hashfile.tree import Tree

    algo = case["algo"]
    viols, classes = [], [f"fs:algo={algo}", f"fs:jobs={case['jobs']}", f"fs:state={case['state']}"]
    extra = None
    state = None
    pool_max = 0
    warm_hit = False
    prewarmed = False
    walk_root_late = False
    blind_hashed = False
    fs = LocalFileSystem()
    with ctx.tmpdir() as d, HashSpy() as spy:
        try:
            w1 = os.path.join(d, "w1")
            flat = gen.materialise(case["tree"], w1, order=case["order1"] or None)
            if case["disk"]:
                extra = tempfile.mkdtemp(prefix="vd-C03-")
                w2 = os.path.join(extra, "w2")
                classes.append("fs:second-copy-on-disk")
            else:
                w2 = os.path.join(d, "w2")
            gen.materialise(case["tree"], w2, order=case["order2"] or None)
            if case.get("extra"):
                dirs = sorted({r.rpartition("/")[0] for r in flat})
                sub = dirs[case["extra"]["dir"] % len(dirs)]
                for nm, segs in case["extra"]["files"].items():
                    rel = f"{sub}/{nm}" if sub else nm
                    if any(r == rel or r.startswith(rel + "/") for r in flat):
                        continue
                    data = b"".join(gen.content_bytes(x) for x in segs)
                    flat[rel] = data
                    for w in (w1, w2):
                        gen.write_file(os.path.join(w, *rel.split("/")), data)
                classes.append("fs:legacy-shaped->1MiB-files")
            # per-file reference; None where the legacy digest of a > 1 MiB file is not pinned down by the
            # property (it then only has to be the same on every routing)
            manifest = {rel: file_ref(b, algo) for rel, b in flat.items()}
            pinned = all(v is not None for v in manifest.values())
            want = ref_oid(manifest, algo) if pinned else None
            want_bytes = ref_bytes(manifest, algo) if pinned else None
            if not pinned:
                classes.append("fs:reference-unpinned(metamorphic-only)")
            rels = sorted(flat)
            tree_oids = {}   # label -> oid of every whole-tree build
            seen = {}        # relpath -> {digest: first routing label}

            cfg = {"hash_name": algo}
            if case["state"] != "none":
                state = ops.make_state(d, os.path.join(d, "state"))
                cfg["state"] = state
            odb = ops.make_odb("local", os.path.join(d, "odb"), **cfg)
            spy.exclude = os.path.join(d, "odb") + os.sep

            def stage(path, label, jobs, expect=want, expect_bytes=want_bytes, vfs=None, whole=None, **kw):
                nonlocal pool_max
                _, _, obj = build(odb, path, vfs or fs, algo, checksum_jobs=jobs, **kw)
                calls, pooled = spy.phase()
                pool_max = max(pool_max, pooled)
                if not isinstance(obj, Tree):
                    viols.append(Viol(f"fs-not-a-tree:{label}", f"build({label}) returned {obj!r}"))
                    return None, calls
                if (path in (w1, w2)) if whole is None else whole:
                    tree_oids[label] = obj.hash_info.value
                    for k, _, hi in obj:
                        seen.setdefault("/".join(k), {}).setdefault(hi.value, f"build:{label}")
                if expect is None:
                    return obj, calls
                if obj.hash_info.value != expect:
                    viols.append(Viol(f"fs-oid:{label}", f"build({label}, jobs={jobs}) gave {obj.hash_info.value}, "
                                                         f"reference {expect}"))
                elif obj.as_bytes() != expect_bytes:
                    viols.append(Viol(f"fs-listing:{label}", f"build({label}) lists other bytes than the reference"))
                else:
                    with obj.fs.open(obj.path, "rb") as f:
                        if f.read() != expect_bytes:
                            viols.append(Viol(f"fs-staged-bytes:{label}", "staged directory object bytes != reference"))
                return obj, calls

            # the shared State may be warm from a run under another algorithm over the same unchanged files
            pre = case.get("prewarm")
            if pre and state is not None:
                other = "md5" if algo == "md5-dos2unix" else "md5-dos2unix"
                classes.append(f"fs:prewarm={pre}")
                prewarmed = True
                if any(b"\r\n" in b and ref.ref_istext(b) for b in flat.values()):
                    classes.append("fs:prewarm+crlf-text")
                for w in (w1, w2):
                    ps = [os.path.join(w, *r.split("/")) for r in rels]
                    pinfos = {p: _localfs_info(p) for p in ps}
                    if pre == "build":
                        odb2 = ops.make_odb("local", os.path.join(d, "odb-other"), state=state, hash_name=other)
                        build(odb2, w, fs, other, checksum_jobs=case["jobs2"])
                    elif pre == "get_hashes":
                        _get_hashes(ps, fs, other, pinfos, state=state, jobs=case["jobs2"])
                    elif pre == "sha256":
                        _get_hashes(ps, fs, "sha256", pinfos, state=state, jobs=case["jobs2"])
                    else:
                        # rows as DVC 2.x left them: no "version" field, legacy digest under the "md5" key
                        from dvc_data.hashfile.state import _checksum

                        for p, r in zip(ps, rels):
                            if file_ref(flat[r], "md5-dos2unix") is None:
                                continue  # no row for a file whose 2.x digest the harness cannot pin down
                            state.hashes[p] = json.dumps({
                                "checksum": _checksum(pinfos[p]), "size": pinfos[p]["size"],
                                "hash_info": {"md5": file_ref(flat[r], "md5-dos2unix") or "0" * 32}})
                spy.phase()

            # routing pair without any state: every file hashed sequentially (threshold above all sizes) and,
            # when >= 2 files exist, through the pool (threshold 0) - the digests must not depend on the route
            rp = [os.path.join(w2, *r.split("/")) for r in rels]
            rinfos = {p: _localfs_info(p) for p in rp}
            for route, thr in (("sequential", 2**40), ("pooled", 0)):
                got = _get_hashes(list(rp), fs, algo, rinfos, state=None, jobs=case["jobs"], large_file_threshold=thr)
                _, pooled = spy.phase()
                pool_max = max(pool_max, pooled)
                for p, r in zip(rp, rels):
                    if p in got:
                        seen.setdefault(r, {}).setdefault(got[p][1].value, f"_get_hashes:{route}")

            # _get_hashes on the second copy: drawn threshold, jobs, order, delays
            gpaths = permute([os.path.join(w2, *r.split("/")) for r in rels], case["gorder"] or [0])
            spy.slow = {gpaths[i % len(gpaths)] for i in case["slow"]}
            infos = {p: _localfs_info(p) for p in gpaths}
            for rnd in ("cold", "warm"):
                got = _get_hashes(list(gpaths), fs, algo, infos, state=state, jobs=case["jobs2"],
                                  large_file_threshold=case["threshold"])
                calls, pooled = spy.phase()
                pool_max = max(pool_max, pooled)
                if pooled >= 2:
                    classes.append("fs:get_hashes-pool>=2")
                if set(got) != set(gpaths):
                    viols.append(Viol("get_hashes-keys", f"_get_hashes returned {len(got)} of {len(gpaths)} paths"))
                for p in gpaths:
                    if p in got:
                        rel = os.path.relpath(p, w2).replace(os.sep, "/")
                        hi = got[p][1]
                        seen.setdefault(rel, {}).setdefault(hi.value, f"_get_hashes:{rnd}:thr={case['threshold']}")
                        if (manifest[rel] is not None and hi.value != manifest[rel]) or hi.name != algo:
                            viols.append(Viol(f"get_hashes-wrong-hash:{rnd}",
                                              f"_get_hashes maps {rel!r} to {hi}, reference {manifest[rel]} "
                                              f"(threshold={case['threshold']}, jobs={case['jobs2']})"))
                            break
                if state is None:
                    break
                if rnd == "warm" and calls == 0 and gpaths:
                    classes.append("fs:get_hashes-warm")
                    warm_hit = True
            spy.slow = set()

            # public route
            t1, calls = stage(w1, "cold", case["jobs"])
            if state is not None:
                _, calls = stage(w1, "warm", case["jobs2"])
                if calls == 0:
                    warm_hit = True
                    classes.append("fs:warm-build")
            stage(w2, "second-copy", case["jobs2"])

            # the drawn sub-directory and its reference (direct build vs get_obj vs views, below)
            subdirs = sorted({tuple(r.split("/")[:k]) for r in rels for k in range(1, r.count("/") + 1)})
            sp = subdirs[case["subdir"] % len(subdirs)] if subdirs else ()
            below = {"/".join(r.split("/")[len(sp):]): v for r, v in manifest.items()
                     if tuple(r.split("/")[:len(sp)]) == sp}
            sub_pinned = all(v is not None for v in below.values())
            sub_oid = ref_oid(below, algo) if sub_pinned else None
            sub_bytes = ref_bytes(below, algo) if sub_pinned else None
            view_subs = {}  # label -> Tree built for the drawn sub-directory through a view

            # the same directory read through filesystems that are not the local one: the identifier, the listing
            # and the sub-directory's identifier depend only on the (relative path, content hash) pairs, not on
            # what the source reports about its files (sizes unknown / absent / zero) nor on who lists them
            view = case.get("view") or {}
            vd = view.get("dfs")
            if vd:
                src_name = algo if (vd["src"] == "same" and algo != "sha256") else other_flavour(algo)
                src_odb = ops.make_odb("local", os.path.join(d, "view-src"), hash_name=src_name)
                st_odb, _, st_tree = build(src_odb, w2, fs, src_name)
                transfer(st_odb, src_odb, {st_tree.hash_info}, shallow=False, hardlink=False)
                spy.phase()
                listing = [(k, hi) for k, _, hi in st_tree] if isinstance(st_tree, Tree) else []
                held = {}
                for k, hi in listing:
                    try:
                        with open(src_odb.oid_to_path(hi.value), "rb") as f:
                            held["/".join(k)] = f.read()
                    except OSError:
                        pass
                if held != flat:
                    # e.g. a CRLF and an LF twin share one md5-dos2unix address: the legacy cache cannot hold the
                    # directory faithfully, the view would not show the same contents - not this property's matter
                    classes.append("fs:view-source-cache-not-faithful(skipped)")
                else:
                    vfs, sizeless = data_view(vd, src_odb, st_tree.hash_info, listing,
                                              {tuple(r.split("/")): len(b) for r, b in flat.items()})
                    label = "view-dfs-" + vd["entries"]
                    classes += ["fs:" + label, "fs:view-dfs-src=" + ("same" if src_name == algo else "other")]
                    if src_name != algo and any(flat["/".join(k)] for k in sizeless):
                        blind_hashed = True

                    def view_sub():
                        if subdirs:
                            view_subs[label], _ = stage("data/" + "/".join(sp), label + "-subdir", vd["jobs"],
                                                        sub_oid, sub_bytes, vfs=vfs, whole=False)

                    if vd["sub_first"]:
                        view_sub()
                        classes.append("fs:view-dfs-subdir-before-root")
                    stage("data", label, vd["jobs"], vfs=vfs, whole=True)
                    if not vd["sub_first"]:
                        view_sub()
            vw = view.get("wrap")
            if vw:
                w = (w1, w2)[vw["copy"]]
                modes = {os.path.join(w, *r.split("/")): vw["sizes"][i % len(vw["sizes"])] for i, r in enumerate(rels)}
                bfs = size_blind_fs(modes, vw["perm"])
                classes.append("fs:view-wrap")
                for m in sorted({modes[os.path.join(w, *r.split("/"))] for r in rels if flat[r]} - {"true"}):
                    classes.append("fs:view-wrap-size=" + m)
                    blind_hashed = True
                stage(w, "view-wrap", vw["jobs"], vfs=bfs, whole=True)
                if subdirs:
                    view_subs["view-wrap"], _ = stage(os.path.join(w, *sp), "view-wrap-subdir", vw["jobs"],
                                                      sub_oid, sub_bytes, vfs=bfs, whole=False)
            if blind_hashed:
                classes.append("fs:view-hashed-nonempty-file-without-size")

            # same tree through an `ignore` object whose walk() yields the directories in a generated order
            wk = case.get("walk")
            if wk:
                walker = OrderedWalker(wk["mode"], wk["perm"])
                stage(w1, "walk-" + wk["mode"], case["jobs2"], ignore=walker)
                classes.append("fs:walk=" + wk["mode"])
                has_root_files = any("/" not in r for r in rels)
                if has_root_files and any("/" in r for r in rels):
                    classes.append("fs:root-files+subdir")
                    if walker.order and walker.order[0] != w1:
                        classes.append("fs:walk-root-not-first")
                        walk_root_late = True

            files1 = [os.path.join(w1, *r.split("/")) for r in rels]
            touched = False
            for n, i in enumerate(case["touch"]):
                bump_mtime(files1[i % len(files1)], (n + 1) * 5_000_000 * (1 if i % 2 else -1))
                touched = True
            for i in case["chmod"]:
                p = files1[i % len(files1)]
                os.chmod(p, os.stat(p).st_mode | 0o111)
                touched = True
            if touched:
                classes.append("fs:touch/chmod")
                _, calls = stage(w1, "after-touch", case["jobs"])
                if state is not None and 0 < calls < len(files1):
                    classes.append("fs:partly-warm")

            # sub-directory: direct build vs get_obj vs reference
            if subdirs and t1 is not None:
                classes.append("fs:subdir")
                s_obj, _ = stage(os.path.join(w1, *sp), "subdir", case["jobs"], sub_oid, sub_bytes)
                # the same sub-directory under another spelling of its path (inner '/./', doubled separator,
                # '/.' suffix, trailing separator; chosen by the case's subdir number): the walk hands back
                # normalised roots, the identifier must not depend on the spelling
                how = ("dot-inside", "double-sep", "dot-suffix", "trailing-sep")[case["subdir"] % 4]
                parent, leaf = os.path.join(w1, *sp[:-1]), sp[-1]
                spelled = {"dot-inside": parent + os.sep + "." + os.sep + leaf,
                           "double-sep": parent + os.sep + os.sep + leaf,
                           "dot-suffix": os.path.join(parent, leaf) + os.sep + ".",
                           "trailing-sep": os.path.join(parent, leaf) + os.sep}[how]
                classes.append("fs:subdir-path-spelled:" + how)
                stage(spelled, "subdir-spelled-" + how, case["jobs"], sub_oid, sub_bytes, whole=False)
                for vlabel, v_obj in sorted(view_subs.items()):
                    if s_obj is not None and v_obj is not None and v_obj.hash_info.value != s_obj.hash_info.value:
                        viols.append(Viol(f"fs-subdir-oid-source-dependent:{vlabel}",
                                          f"sub-directory {sp} built through {vlabel} has id {v_obj.hash_info.value}, "
                                          f"built from the local directory {s_obj.hash_info.value}"))
                g = t1.get_obj(odb, sp)
                if g is None or not isinstance(g, Tree) or (sub_pinned and g.as_bytes() != sub_bytes):
                    viols.append(Viol("fs-get_obj-subdir", f"get_obj({sp}) does not list the sub-directory"))
                elif hkey(algo) == "md5" and ((sub_pinned and g.oid != sub_oid)
                                              or (s_obj is not None and g.oid != s_obj.oid)):
                    viols.append(Viol("fs-get_obj-subdir-oid", f"get_obj({sp}).oid {g.oid} != direct build of the "
                                                               f"sub-directory"))

            # the staged listing, stored and re-parsed, is the same listing with the same id
            if t1 is not None and not viols:
                # stored under the id build() reported (for a non-md5 name t1.oid is still the md5-based one)
                from dvc_data.hashfile.hash_info import HashInfo

                hkey_ = HashInfo(t1.hash_info.name, t1.hash_info.value)
                odb.add(t1.path, t1.fs, hkey_.value)
                back = load_back(odb, hkey_, viols, "fs-load-rejects-own-listing", "build(cold)")
                if back is not None:
                    if back.as_bytes() != t1.as_bytes() or listing_of(back) != listing_of(t1):
                        viols.append(Viol("fs-load-roundtrip", "Tree.load of the staged listing after odb.add returns "
                                                               "a different listing"))
                    elif want_bytes is not None and back.as_bytes() != want_bytes:
                        viols.append(Viol("fs-load-roundtrip", "the re-parsed staged listing is not the reference"))
                spy.phase()

            # metamorphic: one tree, one id - whatever the routing (pool / sequential / state hit / walk order)
            if len(set(tree_oids.values())) > 1:
                viols.append(Viol("fs-oid-routing-dependent", f"the same tree got different ids: {tree_oids}"))
            for rel in rels:
                if len(seen.get(rel, {})) > 1:
                    viols.append(Viol("fs-digest-routing-dependent",
                                      f"{algo} digest of {rel!r} ({len(flat[rel])} B) depends on the routing: "
                                      f"{seen[rel]}"))
                    break
        finally:
            if state is not None:
                state.close()
            if extra:
                shutil.rmtree(extra, ignore_errors=True)

    classes += ["fs:" + c for c in gen.tree_traits(case["tree"]) if c in ("nested", "depth>=3", "dup-content",
                                                                         "non-ascii-name", "odd-name")]
    classes += name_classes(flat, "fs")
    if any(len(b) > MIB for b in flat.values()):
        classes.append("fs:has->1MiB-files")
    if pool_max >= 2:
        classes.append("fs:pool>=2")
    if warm_hit:
        classes.append("fs:warm-hit")
    return Result(viols, len(flat) >= 2 and (pool_max >= 2 or warm_hit or prewarmed or walk_root_late or blind_hashed),
                  classes,
                  {"fs_cases": 1, "pool_hashed_files": pool_max})


# ------------------------------------------------------------------------------------------
def run_case(case, ctx):
    """Dispatch; names in a case may hold lone surrogates, which cannot be printed: every message that leaves this
    module is made ASCII (backslash escapes) first."""
    try:
        res = _run_case(case, ctx)
    except (Failure, HarnessError, KeyboardInterrupt):
        raise
    except Exception as exc:  # noqa: BLE001
        fr = product_frame(exc)
        if fr is None:
            raise HarnessError("harness exception: "
                               + _ascii("".join(traceback.format_exception(exc)))[-3000:]) from exc
        res = Result([Viol(f"exc:{type(exc).__name__}:{fr[0]}:{fr[1]}",
                           f"unexpected {type(exc).__name__}: {exc} (in {fr[0]}:{fr[1]})")])
    for v in res.violations:
        v.msg = _ascii(v.msg)
    return res


def _run_case(case, ctx):
    if case["kind"] == "pure":
        return run_pure(case, ctx)
    if case["kind"] == "hist":
        return run_hist(case, ctx)
    if case["kind"] == "pub":
        return run_pub(case, ctx)
    if case["kind"] == "live":
        return run_live(case, ctx)
    return run_fs(case, ctx)


def run(ctx):
    # the filesystem half goes first: it is the smaller one and must not be starved by the budget
    if ctx.run_given(fs_cases(thorough=ctx.tier == "thorough"), run_case,
                     ctx.n(quick=100, thorough=1500)):
        if ctx.run_given(pure_cases(), run_case, ctx.n(quick=420, thorough=15000)):
            if ctx.run_given(hist_cases(), run_case, ctx.n(quick=180, thorough=6000)):
                if ctx.run_given(pub_cases(), run_case, ctx.n(quick=100, thorough=4000)):
                    ctx.run_given(live_cases(), run_case, ctx.n(quick=120, thorough=4000))


def replay(case, ctx):
    ctx.exec_case(case, run_case)
