"""C04 - transfer keeps the destination closed: a directory object implies its files."""

from .. import ref, xfer
from ..ctx import Result, Viol

LEVEL = "fault_enumeration"
WORKERS = {"quick": 8, "thorough": 16}
BUDGET_S = {"quick": 60, "thorough": 700}
RULE = (
    "Hypothesis draws 1-4 trees over a small shared content pool (trees share files, files repeat "
    "inside a tree), loose files, closed initial destination contents, a closed request (every "
    "directory with all its files, or directories with shallow=False), source kind (LocalHashFileDB, "
    "HashFileDB, staging area), destination class, destination index on/off, objects missing from "
    "the source, and a fault plan: a subset of object ids whose final placement raises EIO, or an "
    "abort (BaseException) before the k-th upload. Oracle: closure (present .dir => all listed ids "
    "present, parsed from raw bytes) after every completed upload, after the call and after a "
    "fault-free retry; failed file => directory in result.failed and absent; retry completes. "
    "Non-trivial = the fault/abort hit a file listed by a requested directory; distinct = SHA-1 of case JSON."
)
ASSUMPTIONS = [
    "uploads into a local store complete at os.replace/os.rename/os.link/os.symlink onto the object path "
    "(that is where faults and aborts are injected)",
    "requests are closed (directories listed with their files, or expanded), as the property states",
    "in-process abort (BaseException) models a process kill for the purposes of store contents",
    "after an external wipe of the destination a surviving index is re-validated only by requests that name a "
    "directory (C12); file-only requests are not judged for completeness in that situation",
]


def run_case(case, ctx):
    if case.get("enumerate"):
        return run_enumerated(case, ctx)
    return run_one(case, ctx)


def run_enumerated(case, ctx):
    """Exhaust the plan space of one small scenario: every single and pair upload failure (over the
    ids that have to move) and every abort point."""
    import itertools

    base = dict(case, enumerate=False, fail=[], abort_at=None)
    with ctx.tmpdir() as d:
        o = xfer.execute(base, ctx, d, monitor_closure=False)
    nmove = len(sorted(o.requested_expanded - set(o.dst_before)))
    nup = len(o.inj.attempts)
    plans = [{"fail": [i]} for i in range(nmove)]
    plans += [{"fail": [i, j]} for i, j in itertools.combinations(range(min(nmove, 6)), 2)]
    plans += [{"abort_at": k} for k in range(1, nup + 1)]
    total = Result([], False, ["enumerated-scenario"], {"enumerated_plans": 0, "enumerated_scenarios": 1})
    for plan in plans:
        sub = dict(base, **plan)
        r = run_one(sub, ctx)
        total.counters["enumerated_plans"] += 1
        for k, v in r.counters.items():
            total.counters[k] = total.counters.get(k, 0) + v
        if r.nontrivial:
            ctx.digests.add(__import__("vd.ctx", fromlist=["digest"]).digest(sub))
            total.nontrivial = True
        if r.violations:
            unknown = ctx.split_known(r.violations)
            if unknown:
                from ..ctx import Failure

                ctx.failure = {"case": sub, "violations": [v.to_json() for v in unknown]}
                raise Failure("; ".join(f"[{v.sig}] {v.msg}" for v in unknown))
    return total


def run_one(case, ctx):
    with ctx.tmpdir() as d:
        o = xfer.execute(case, ctx, d)
        viols = []
        for oid, br in o.closure_breaks[:1]:
            viols.append(Viol("closure-during", f"after upload of {oid}: directory {br[0][0]} present "
                                                f"without {br[0][1]}"))
        for label, cont in (("after", o.dst_after), ("retry", o.dst_final)):
            br = ref.closure_problems(cont)
            if br:
                viols.append(Viol(f"closure-{label}", f"{label} transfer: directory {br[0][0]} present "
                                                      f"without listed {br[0][1]}"))
        # failed file => directory withheld and reported failed
        if o.result is not None:
            failed = {h.value for h in o.result.failed}
            for doid, kids in o.dir_children.items():
                if doid not in o.requested or doid in o.dst_before:
                    continue
                lost = [k for k in kids if k not in o.dst_after]
                if lost and any((r, k) in o.inj.faulted for r in o.inj.roots for k in lost):
                    if doid in o.dst_after:
                        viols.append(Viol("dir-not-withheld", f"directory {doid} uploaded although "
                                                              f"{lost} failed"))
                    elif doid not in failed and doid not in o.src_removed:
                        viols.append(Viol("dir-not-reported-failed",
                                          f"directory {doid} withheld after a failed file but not in result.failed"))
        # retry completes the destination
        if o.via_push and len(o.push_counts) == 2 and not o.trusting_stale_index:
            src_has = set(o.bytes) - o.src_removed - o.vanished - (o.corrupted if case["verify"] else set())
            excused = {doid for doid, kids in o.dir_children.items() if kids - src_has - set(o.dst_final)}
            excused |= o.corrupted if case["verify"] else set()  # rejected by verification on every attempt
            if o.push_counts[1][1] and not (excused & o.requested):
                viols.append(Viol("retry-failed", f"fault-free retry push reported {o.push_counts[1][1]} failures"))
            for oid in sorted(o.requested_expanded):
                if oid in o.dst_final or oid not in src_has:
                    continue
                if oid in o.dir_children and (o.dir_children[oid] - src_has - set(o.dst_final)):
                    continue
                viols.append(Viol("retry-incomplete", f"{oid} still absent after a fault-free retry push"))
                break
            # a failed listed file => the push must report a failure
            lost = [k for _, k in o.inj.faulted if k not in o.dst_after]
            if lost and o.push_counts[0][1] == 0:
                viols.append(Viol("push-failure-unreported", f"uploads of {lost} failed but push() reported 0 failed"))
        if o.retry is not None and not o.trusting_stale_index:
            src_has = set(o.bytes) - o.src_removed - o.vanished - (o.corrupted if case["verify"] else set())
            # a directory with a file missing on both sides is legitimately withheld (and reported failed)
            excused = {doid for doid, kids in o.dir_children.items() if kids - src_has - set(o.dst_final)}
            excused |= o.corrupted if case["verify"] else set()  # rejected by verification on every attempt
            # (a reference source still lists a file that is gone: its upload truthfully fails again)
            bad = sorted({h.value for h in o.retry.failed} - excused - o.vanished)
            if bad:
                viols.append(Viol("retry-failed", f"fault-free retry reported failures {bad}"))
            for oid in sorted(o.requested_expanded):
                if oid in o.dst_final or oid not in src_has:
                    continue
                if oid in o.dir_children and (o.dir_children[oid] - src_has - set(o.dst_final)):
                    continue  # a listed file is missing on both sides: directory must stay withheld
                viols.append(Viol("retry-incomplete", f"{oid} still absent after a fault-free retry"))
                break
        # index must not vouch for objects that are not there
        for label, idx, cont, exc in (("after", o.index_after, o.dst_after, o.raised),
                                      ("retry", o.index_final, o.dst_final, o.retry_raised)):
            if exc is not None:
                continue  # the call did not get as far as consulting the index (abort / unloadable directory)
            if idx and not o.trusting_stale_index:
                ghost = sorted(set(idx) - set(cont))
                if ghost:
                    viols.append(Viol(f"index-ghost-{label}", f"destination index holds {ghost} absent from the store"))
        hit = {k for _, k in o.inj.faulted}
        if o.inj.aborted:
            hit.add(o.inj.attempts[-1][1])
        listed = set()
        for doid in o.requested:
            listed |= o.dir_children.get(doid, set())
        nontrivial = bool(hit & listed)
        cl = xfer.classes_of(case, o)
        if nontrivial:
            cl.append("fault-on-listed-file")
        return Result(viols, nontrivial, cl, {"faults_injected": len(o.inj.faulted),
                                             "abort_points": int(o.inj.aborted),
                                             "uploads_observed": len(o.inj.completed) + len(o.inj2.completed)})


def run(ctx):
    ok = ctx.run_given(xfer.cases(closed_only=True, allow_verify=True), run_case, ctx.n(quick=150, thorough=2500))
    if ok and not ctx.over_budget():
        # enumerated arm: complete plan space (single + pair failures, every abort point) per scenario
        from hypothesis import strategies as st

        # (never with the > 1000-file directory: its plan space is not enumerable)
        enum = xfer.cases(closed_only=True, allow_verify=True).map(
            lambda c: dict(c, enumerate=True, jobs=1, bulk=0))
        ctx.run_given(enum, run_case, ctx.n(quick=8, thorough=150))


def replay(case, ctx):
    ctx.exec_case(case, run_case)
