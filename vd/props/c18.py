"""C18 - push and fetch through storage mappings move exactly the reachable objects."""

import logging
import os

from hypothesis import strategies as st

from .. import gen, ops, ref
from ..ctx import Result, Viol
from .c18_faults import KINDS, TypedInjector
from .c18_model import Model, is_prefix, resolve

LEVEL = "fault_enumeration"
WORKERS = {"quick": 8, "thorough": 16}
BUDGET_S = {"quick": 50, "thorough": 700}
RULE = (
    "Two generated families. (pure) Hypothesis draws a storage map over nested keys from a two-letter "
    "alphabet, each prefix setting any subset of the roles data/cache/remote to an ObjectStorage or a "
    "FileStorage (built by item assignment in drawn order, or by add_data/add_cache/add_remote parents-first), "
    "and query keys; StorageMapping[key], .get, get_<role>_odb and get_<role>(entry) must equal an independent "
    "per-role longest-prefix resolver and hand-built object / file paths. (flow) Hypothesis draws a workspace "
    "(files, nested directories, grouping directories, duplicated contents and cloned directories), the tracked "
    "keys (depth 1-2, directories tracked as unloaded .dir entries), 1-5+ storage prefixes (root, tracked keys, "
    "their parents, untracked keys) that set cache and remote independently (role inherited from a shorter "
    "prefix, redundant re-statement, two prefixes sharing a remote, two remotes sharing a cache, a longer prefix "
    "overriding the remote, one remote paired with two caches, prefixes strictly inside a tracked directory "
    "that redirect the remote of a sub-directory or file, outer prefixes carrying only the cache), 1-3 caches and 1-3 remotes of both local store classes, remote index on/off, "
    "legacy prefixes (entries named md5-dos2unix mapped, for every role, to odbs created with "
    "hash_name=md5-dos2unix) next to md5 prefixes with md5 odbs, tmp_dir on the caches on/off (drawn independently), read_only=True on the remote / cache storage of a prefix "
    "(independent per prefix; a read-only remote already holds everything below its prefix), a plain tracked file under another remote of the same "
    "cache whose content equals a file inside a tracked directory, closed pre-existing remote contents, explicit "
    "collection index on/off, and a fault plan: object ids whose "
    "final placement into (a subset of) the remotes raises, per id, one of OSError(EIO), "
    "FileNotFoundError(ENOENT), PermissionError(EACCES), OSError(ENOSPC), TimeoutError in push round 1, optionally ids whose placement "
    "into the caches fails in a first fetch round. Flow: index.build -> md5 -> save, collect(push=True) + push "
    "twice (faulty, clean), caches emptied, collect + fetch (optionally faulty, then clean), compare(None, idx) + "
    "apply from the caches. For about half of the scenarios the push half is additionally repeated on fresh "
    "remotes once per object that has to move (up to 10), with exactly that object failing: exhaustive over "
    "single upload failures per scenario, sampled over larger subsets. Oracle (hashlib, own .dir serialiser, os.walk listings, the independent resolver): "
    "save puts every object into exactly the cache its key resolves to; per round pushed + failed = number of "
    "requested objects (per prefix: objects of the entries under it) present in the cache that prefix resolves to "
    "and absent from its remote beforehand, pushed = those that are "
    "present afterwards, failed = those still absent; nothing else appears in any remote; after the clean "
    "round failed = 0 and every remote holds, with reference bytes, every object of the entries that resolve to "
    "it and nothing outside the entries lying under a prefix that resolves to it (equality when no longer "
    "prefix overrides a remote); the same for fetch into the emptied caches; the checkout equals the "
    "generated files. Non-trivial (flow) = two remotes each designated a non-empty set plus a tracked "
    "directory, or a round-1 fault that hit; (pure) = two nested prefixes setting one role to different "
    "stores and a query below both. Distinct = SHA-1 of the case JSON."
)
ASSUMPTIONS = [
    "uploads into a local store complete at os.replace/os.rename/os.link/os.symlink onto the object path "
    "(that is where faults are injected)",
    "input domain of the flow: every tracked entry resolves to a cache; storage prefixes may lie strictly inside "
    "a tracked (unloaded) directory, at a sub-directory or file of it, registered before or after the outer "
    "prefixes, but the cache must not change inside a tracked directory (a directory object and the files it "
    "lists are saved, transferred and checked for closure within one store); the tracked index has no data role",
    "per-object designation: a plain file and a directory object belong to the stores their entry key resolves "
    "to, a file listed by a directory to the stores its own full key resolves to. The remote of the directory "
    "key necessarily also receives the files below an inner prefix (a directory object is only uploaded next "
    "to all files it lists) - covered by the same bounds as a remote override between entries. When an entry "
    "key resolves to no remote at all (only a prefix inside the directory has one) the directory object is "
    "designated nowhere and cannot come back: such cases are judged on the push half only",
    "KNOWN FINDING collect-one-remote-two-caches: when the prefixes resolving to one remote store resolve to two "
    "or more caches, collect() groups them per remote store and carries along the first prefix's cache only. Such "
    "maps are generated (class shape:one-remote-two-caches); when the defect shows (the remote lacks, after the "
    "clean push, designated objects that one of its caches does not hold; or fetch puts objects of such a remote "
    "into the wrong one of its caches) exactly one violation with that signature is emitted, the per-store clauses of the remotes / caches involved "
    "are not judged, and fetch + checkout go on with the entries that no such remote requests; all other stores "
    "are judged as usual. While tracked entries are requested through such a remote the model cannot say which "
    "of its caches feeds the transfer: the pushed/fetched/failed totals are not judged for those cases and the "
    "'nothing else appears' clause uses the union of its caches as upper bound",
    "when a longer prefix overrides the remote of a shorter one, collection also sends the overridden entries "
    "to the outer remote if its cache happens to hold them; the statement only demands delivery to the "
    "designated remote, so such extras (still objects of the index, under that remote's prefix) are tolerated "
    "and equality is demanded only for maps without remote overrides (class 'exact')",
    "hash flavours: every entry is mapped to stores of its own hash algorithm (what DVC does: legacy "
    "md5-dos2unix outputs go to legacy odbs, md5 outputs to md5 odbs, per cache and per remote). In a quarter of "
    "the flows each family of stores that serves the same entries draws hash_name md5 or md5-dos2unix; the "
    "entries mapped to it (plain files, whole unloaded directories) are named accordingly, so an index may mix "
    "md5 and legacy prefixes with their own stores. Workspace contents are then CRLF-neutral (both algorithms "
    "give one value). An entry named differently from the odb it is mapped to is outside the domain: an odb "
    "re-hashes its objects with its own algorithm",
    "read_only storages: the property text is silent about them. A remote registered read_only=True is "
    "populated by the harness beforehand with every object below its prefix (a shared / imported dataset), so a "
    "push has nothing to move there and nothing is demanded of it beyond truthful counts; fetch from it must "
    "bring back the reachable set like from any other remote (reading is allowed)",
    "add_data/add_cache/add_remote copy the roles resolved at the new prefix into its entry; they are used "
    "parents-first, where that equals plain per-role resolution",
    "the checkout target already contains the (untracked) parent directory of a tracked key of depth 2, as any "
    "real workspace does; apply() does not create it for a tracked file",
]

SIG = "md5"
LEGACY = "md5-dos2unix"
ENUM_CAP = 10
KNOWN_SHAPE = "collect-one-remote-two-caches"

# injected upload failures and doubly-missing objects are logged (with tracebacks) by the code under test;
# the verdict never depends on log output
logging.getLogger("dvc_data").setLevel(logging.CRITICAL)


# ============================================================================================
# pure sub-check: StorageMapping versus the independent resolver
# ============================================================================================
ALPH = ["a", "a", "b"]
PROLES = ("data", "cache", "remote")


@st.composite
def pure_cases(draw):
    key = st.lists(st.sampled_from(ALPH), max_size=3)
    nstores = draw(st.integers(2, 4))
    stores = [draw(st.sampled_from(["obj", "obj", "file"])) for _ in range(nstores)]
    keys = draw(st.lists(key, min_size=1, max_size=5, unique_by=tuple))
    sid = st.one_of(st.none(), st.integers(0, nstores - 1), st.integers(0, nstores - 1))
    pmap = [{"key": k, "data": draw(sid), "cache": draw(sid), "remote": draw(sid),
             "ro": draw(st.lists(st.sampled_from(PROLES), max_size=2, unique=True))} for k in keys]
    queries = draw(st.lists(st.lists(st.sampled_from(ALPH), max_size=4), min_size=1, max_size=6))
    return {
        "kind": "pure",
        "stores": stores,
        "map": pmap,
        "mode": draw(st.sampled_from(["setitem", "setitem", "add"])),
        "queries": queries,
        "oid": draw(st.sampled_from(["d3b07384d113edec49eaa6238ad5ff00", "00" + "ab" * 15,
                                     "1f69c66028c35037e8bf67e5bc4ceb6a.dir"])),
    }


def run_pure(case, ctx):  # noqa: C901, PLR0912, PLR0915
    from dvc_objects.fs.local import LocalFileSystem

    from dvc_data.hashfile.db import HashFileDB
    from dvc_data.hashfile.db.local import LocalHashFileDB
    from dvc_data.hashfile.hash_info import HashInfo
    from dvc_data.hashfile.meta import Meta
    from dvc_data.index import (DataIndexEntry, FileStorage, ObjectStorage, StorageInfo,
                                StorageKeyError, StorageMapping)

    fs = LocalFileSystem()
    viols = []
    roots = [f"/nonexistent/c18/s{i}" for i in range(len(case["stores"]))]
    odbs = [(LocalHashFileDB if i % 2 else HashFileDB)(fs, roots[i]) if t == "obj" else None
            for i, t in enumerate(case["stores"])]
    pmap = case["map"]
    if case["mode"] == "add":
        pmap = sorted(pmap, key=lambda p: len(p["key"]))  # parents first (stable)
    made = {}  # (prefix, role) -> storage object

    def mk(prefix, s, ro):
        if case["stores"][s] == "obj":
            return ObjectStorage(prefix, odbs[s], read_only=ro)
        return FileStorage(prefix, fs, roots[s], read_only=ro)

    smap = StorageMapping()
    for p in pmap:
        k = tuple(p["key"])
        for role in PROLES:
            if p[role] is not None:
                made[(k, role)] = mk(k, p[role], role in p.get("ro", ()))
        if case["mode"] == "setitem":
            smap[k] = StorageInfo(**{role: made.get((k, role)) for role in PROLES})
        else:
            for role in PROLES:
                if (k, role) in made:
                    getattr(smap, "add_" + role)(made[(k, role)])
    # in "add" mode a prefix that sets no role is simply absent from the map
    ref_map = [p for p in pmap if case["mode"] == "setitem" or any(p[r] is not None for r in PROLES)]

    nested_conflict = False
    for q in case["queries"]:
        q = tuple(q)
        matched, want = resolve(ref_map, q, PROLES)
        # the resolver returns store ids; the storage object is the one made for the deciding prefix
        want_obj = {}
        for role in PROLES:
            best = None
            for p in ref_map:
                k = tuple(p["key"])
                if is_prefix(k, q) and p[role] is not None and (best is None or len(k) > len(best)):
                    best = k
            want_obj[role] = made[(best, role)] if best is not None else None
            assert (want[role] is None) == (best is None)
            setters = {p[role] for p in ref_map if is_prefix(p["key"], q) and p[role] is not None}
            if len(setters) >= 2:
                nested_conflict = True
        try:
            got = smap[q]
        except StorageKeyError:
            got = None
        if not matched:
            if got is not None:
                viols.append(Viol("pure-unmatched-key-resolved", f"{q}: no prefix matches but got {got}"))
            if smap.get(q) is not None:
                viols.append(Viol("pure-get-unmatched", f"{q}: .get() returned a value without a matching prefix"))
            continue
        if got is None:
            viols.append(Viol("pure-matched-key-error", f"{q}: a prefix matches but StorageKeyError was raised"))
            continue
        for role in PROLES:
            if getattr(got, role) is not want_obj[role]:
                viols.append(Viol(f"pure-resolution-{role}",
                                  f"{q}: {role} resolved to {getattr(got, role)!r}, the longest prefix setting "
                                  f"{role} gives {want_obj[role]!r} (map {ref_map})"))
        entry = DataIndexEntry(key=q, meta=Meta(), hash_info=HashInfo(SIG, case["oid"]))
        for role in PROLES:
            w = want_obj[role]
            # get_<role>_odb
            try:
                odb = getattr(smap, f"get_{role}_odb")(entry)
            except StorageKeyError:
                odb = None
            wodb = w.odb if isinstance(w, ObjectStorage) else None
            if odb is not wodb:
                viols.append(Viol(f"pure-odb-{role}", f"{q}: get_{role}_odb gave {odb!r}, expected {wodb!r}"))
            # get_<role>(entry) -> (fs, path)
            try:
                loc = getattr(smap, f"get_{role}")(entry)
            except StorageKeyError:
                loc = None
            if w is None:
                wloc = None
            elif isinstance(w, ObjectStorage):
                wloc = f"{w.odb.path}/{case['oid'][:2]}/{case['oid'][2:]}"
            else:
                wloc = "/".join([w.path, *q[len(w.key):]])
            if (loc[1] if loc else None) != wloc:
                viols.append(Viol(f"pure-path-{role}", f"{q}: get_{role} gave {loc and loc[1]!r}, expected {wloc!r}"))
    cl = ["pure", f"pure-mode={case['mode']}"]
    if nested_conflict:
        cl.append("pure-nested-role-conflict")
    return Result(viols, nested_conflict, cl, {"pure_queries": len(case["queries"])})


# ============================================================================================
# flow
# ============================================================================================
_NAMES = gen.names()
_CONTENT = st.one_of(gen.small_contents(), gen.small_contents(), gen.contents())
_KIND = st.sampled_from(["file", "dir", "dir", "group"])
_HNAME = st.sampled_from(["md5", "md5-dos2unix"])
_RO_REMOTE = st.sampled_from([False] * 7 + [True])
_RO_CACHE = st.sampled_from([False] * 11 + [True])


def _tree(draw, max_files, depth):
    """Small nested directory {name: content | subtree}, never empty (own builder: cheap draws)."""
    n = draw(st.integers(1, max_files))
    out = {}
    for nm in draw(st.lists(_NAMES, min_size=n, max_size=n, unique=True)):
        if depth > 1 and draw(st.integers(0, 3)) == 0:
            out[nm] = _tree(draw, 2, depth - 1)
        else:
            out[nm] = draw(_CONTENT)
    return out


def _top_items(draw):
    ntop = draw(st.integers(2, 5))
    names = draw(st.lists(_NAMES, min_size=ntop, max_size=ntop, unique=True))
    ws, cands = {}, []
    for nm in names:
        kind = draw(_KIND)
        if kind == "file":
            ws[nm] = draw(_CONTENT)
            cands.append([nm])
        elif kind == "dir":
            ws[nm] = _tree(draw, 3, 3)
            cands.append([nm])
        else:
            members = draw(st.lists(_NAMES, min_size=1, max_size=3, unique=True))
            grp = {}
            for mb in members:
                grp[mb] = draw(_CONTENT) if draw(st.booleans()) else _tree(draw, 3, 2)
                cands.append([nm, mb])
            ws[nm] = grp
    return ws, cands


def _get(ws, key):
    v = ws
    for part in key:
        v = v[part]
    return v


@st.composite
def flow_cases(draw):  # noqa: C901, PLR0912, PLR0915
    import copy

    ws, cands = _top_items(draw)
    # clone one candidate under a new top-level name: identical directory objects / contents in two places
    if draw(st.integers(0, 3)) == 0:
        src = cands[draw(st.integers(0, len(cands) - 1))]
        nm = draw(_NAMES)
        if nm not in ws:
            ws[nm] = copy.deepcopy(_get(ws, src))
            cands.append([nm])
    # legacy hash flavour (md5-dos2unix entry names / odb hash_name): contents are made CRLF-neutral so that both
    # flavours name the same object
    use_legacy = draw(st.integers(0, 3)) == 0

    def neutral(node):
        if isinstance(node, dict):
            return {k: neutral(v) for k, v in node.items()}
        b = gen.content_bytes(node)
        return node if ref.ref_hash(b, LEGACY) == ref.ref_hash(b) else "p:lf"

    if use_legacy:
        ws = neutral(ws)
    flags = [draw(st.integers(0, 3)) > 0 for _ in cands]
    if not any(flags):
        flags[draw(st.integers(0, len(cands) - 1))] = True
    tracked = [c for c, f in zip(cands, flags) if f]
    # a group with a tracked member may instead be tracked as a whole (then its members are not candidates)
    # -- covered by kind == "dir"; keep members here.

    # ---- storage prefixes ---------------------------------------------------------------------
    tk, other = [], []
    for k in tracked:
        for cand in (k, k[:1]):
            if cand not in tk:
                tk.append(cand)
    for c in cands:
        if c[:1] not in tk and c[:1] not in other:
            other.append(c[:1])
    n1 = draw(st.integers(1, min(3, len(tk))))
    pkeys = [tk[i] for i in draw(st.lists(st.integers(0, len(tk) - 1), min_size=n1, max_size=n1, unique=True))]
    if other and draw(st.integers(0, 3)) == 0:
        pkeys.append(other[draw(st.integers(0, len(other) - 1))])  # a prefix that governs no tracked entry
    if draw(st.booleans()):
        pkeys.append([])
    # storage prefixes strictly inside a tracked directory (a sub-directory or a file of it): they may only
    # redirect the remote - the cache has to stay the one of the directory
    inner = []
    tdirs = [k for k in tracked if isinstance(_get(ws, k), dict)]
    if tdirs and draw(st.integers(0, 2)) == 0:
        for _ in range(draw(st.sampled_from([1, 1, 2]))):
            k = tdirs[draw(st.integers(0, len(tdirs) - 1))]
            key, node = list(k), _get(ws, k)
            while True:
                names = sorted(node)
                nm = names[draw(st.integers(0, len(names) - 1))]
                key, node = [*key, nm], node[nm]
                if not isinstance(node, dict) or draw(st.booleans()):
                    break
            if key not in inner:
                inner.append(key)
    # no prefix strictly inside a tracked entry (cannot happen: candidates are tracked keys or shorter)
    nc = draw(st.sampled_from([1, 2, 2, 3]))
    nr = draw(st.sampled_from([1, 2, 2, 2, 3, 3]))
    cache_of_remote = [draw(st.sampled_from([r % nc, r % nc, *range(nc)])) for r in range(nr)]
    prefixes = []
    for k in sorted(pkeys, key=len):
        inh = resolve(prefixes, k)[1]
        mode = draw(st.sampled_from(["both", "both", "both", "remote", "remote", "cache", "none"]))
        unused = [i for i in range(nr) if all(p["remote"] != i for p in prefixes)]
        r = draw(st.sampled_from(unused + unused + list(range(nr))))
        p = {"key": k, "cache": None, "remote": None}
        if mode == "remote" and inh["cache"] is not None and inh["cache"] == cache_of_remote[r]:
            p["remote"] = r
        elif mode in ("both", "remote"):
            p["remote"], p["cache"] = r, cache_of_remote[r]
            if nc > 1 and draw(st.integers(0, 4)) == 0:
                p["cache"] = draw(st.integers(0, nc - 1))  # may pair this remote with a second cache
        elif mode == "cache":
            if inh["remote"] is None or (nc > 1 and draw(st.integers(0, 2)) == 0):
                p["cache"] = draw(st.integers(0, nc - 1))  # under an inherited remote: a second cache for it
            else:
                p["cache"] = cache_of_remote[inh["remote"]]  # redundant re-statement of the inherited cache
        prefixes.append(p)
    # "the outer prefixes carry only the cache": a directory with a storage prefix inside it may go without a
    # remote of its own (then only the part below that prefix has one)
    bare = []
    for k in tracked:
        if any(is_prefix(k, i) for i in inner) and draw(st.integers(0, 2)) == 0:
            bare.append(k)
            for p in prefixes:
                if is_prefix(p["key"], k) and p["cache"] is not None:
                    p["remote"] = None
    # complete: every tracked entry must resolve to a cache, and (unless bare) to a remote
    for k in tracked:
        res = resolve(prefixes, k)[1]
        if res["cache"] is not None and (res["remote"] is not None or k in bare):
            continue
        if k in bare:
            c = draw(st.integers(0, nc - 1))
            own = [p for p in prefixes if p["key"] == k]
            if own:
                own[0]["cache"], own[0]["remote"] = c, None
            else:
                prefixes.append({"key": k, "cache": c, "remote": None})
            continue
        r = draw(st.integers(0, nr - 1)) if res["remote"] is None else res["remote"]
        own = [p for p in prefixes if p["key"] == k]
        if own:
            own[0]["remote"], own[0]["cache"] = r, cache_of_remote[r]
        else:
            prefixes.append({"key": k, "cache": cache_of_remote[r], "remote": r})
    for key in sorted(inner, key=len):
        inh = resolve(prefixes, key)[1]
        fits = [i for i in range(nr) if cache_of_remote[i] == inh["cache"]]
        r = draw(st.sampled_from(fits + fits + list(range(nr))))
        # optionally re-state the (unchanged) cache next to the remote
        prefixes.append({"key": key, "cache": inh["cache"] if draw(st.integers(0, 3)) == 0 else None, "remote": r})
    # a plain tracked file under another remote (same cache) whose content equals a file inside a tracked directory
    tdirs_r = [k for k in tdirs if resolve(prefixes, k)[1]["remote"] is not None]
    if tdirs_r and draw(st.integers(0, 3)) == 0:
        dk = tdirs_r[draw(st.integers(0, len(tdirs_r) - 1))]
        node = _get(ws, dk)
        while isinstance(node, dict):
            names = sorted(node)
            node = node[names[draw(st.integers(0, len(names) - 1))]]
        nm = draw(_NAMES)
        if nm not in ws:
            dres = resolve(prefixes, dk)[1]
            if nr == 1:
                nr = 2
                cache_of_remote.append(dres["cache"])
            others = [i for i in range(nr) if i != dres["remote"]]
            paired = {}
            for p in prefixes:
                pr = resolve(prefixes, p["key"])[1]
                if pr["remote"] is not None:
                    paired.setdefault(pr["remote"], set()).add(pr["cache"])
            good = [i for i in others if paired.get(i, set()) <= {dres["cache"]}]
            r2 = draw(st.sampled_from(good + good + others))
            ws[nm] = node
            tracked.append([nm])
            inh = resolve(prefixes, [nm])[1]
            prefixes.append({"key": [nm], "cache": None if inh["cache"] == dres["cache"] else dres["cache"],
                             "remote": r2})
    for p in prefixes:
        # read_only is an option of every registered storage, independent per prefix and role
        if p["remote"] is not None and draw(_RO_REMOTE):
            p["remote_ro"] = True
        if p["cache"] is not None and draw(_RO_CACHE):
            p["cache_ro"] = True
    order = draw(st.permutations(list(range(len(prefixes)))))
    prefixes = [prefixes[i] for i in order]

    # hash flavours: stores that serve the same entries (or are paired by a prefix) share one algorithm; each such
    # family of stores is md5 or, in legacy mode, possibly md5-dos2unix
    parent = {}

    def find(x):
        parent.setdefault(x, x)
        while parent[x] != x:
            parent[x] = parent[parent[x]]
            x = parent[x]
        return x

    def union(a, b):
        parent[find(a)] = find(b)

    for p in prefixes:
        pr = resolve(prefixes, p["key"])[1]
        if pr["cache"] is None:
            continue
        if pr["remote"] is not None:
            union(("c", pr["cache"]), ("r", pr["remote"]))
        for k in tracked:
            if is_prefix(p["key"], k) or is_prefix(k, p["key"]):
                union(("c", pr["cache"]), ("c", resolve(prefixes, k)[1]["cache"]))
    flavour = {}
    for node in sorted({find(("c", i)) for i in range(nc)} | {find(("r", j)) for j in range(nr)}):
        flavour[node] = draw(_HNAME) if use_legacy else SIG
    cache_hash = [flavour[find(("c", i))] for i in range(nc)]
    remote_hash = [flavour[find(("r", j))] for j in range(nr)]
    plan = draw(st.sampled_from(["fail", "fail", "fail", "none"]))
    case = {
        "kind": "flow",
        "ws": ws,
        "tracked": tracked,
        "prefixes": prefixes,
        "wiring": draw(st.sampled_from(["setitem", "setitem", "add"])),
        "cache_hash": cache_hash,
        "remote_hash": remote_hash,
        "cache_kinds": [draw(st.sampled_from(ops.STORE_KINDS)) for _ in range(nc)],
        "remote_kinds": [draw(st.sampled_from(ops.STORE_KINDS)) for _ in range(nr)],
        "remote_index": draw(st.booleans()),
        "cache_tmp": draw(st.booleans()),
        "pre": [[draw(st.integers(0, 7)), draw(st.sampled_from(["full", "files", "one"]))]
                for _ in range(draw(st.sampled_from([0, 0, 1, 2])))],
        "fail": sorted(draw(st.sets(st.integers(0, 23), min_size=1, max_size=3))) if plan == "fail" else [],
        "fail_kinds": draw(st.lists(st.sampled_from(KINDS), min_size=1, max_size=3)),
        "ffail_kinds": draw(st.lists(st.sampled_from(KINDS), min_size=1, max_size=2)),
        "fail_roots": draw(st.one_of(st.none(), st.lists(st.integers(0, nr - 1), min_size=1, max_size=nr,
                                                         unique=True))),
        "ffail": sorted(draw(st.sets(st.integers(0, 23), min_size=1, max_size=2)))
        if draw(st.integers(0, 3)) == 0 else [],
        "jobs": draw(st.sampled_from([None, 1, 1, 4])),
        "recollect": draw(st.booleans()),
        "fresh_fetch": draw(st.booleans()),
        "fresh_checkout": draw(st.booleans()),
        "cache_index": draw(st.booleans()),
        "with_size": draw(st.booleans()),
        "enum": draw(st.integers(0, 2)) == 0,
    }
    if Model(case).domain_problem() is not None:
        # safety net of the constructive generator: one root prefix carrying both roles
        case["prefixes"] = [{"key": [], "cache": cache_of_remote[0], "remote": 0}]
    return case


def _snap(roots, where, viols):
    """Direct listing of every store: {i: {oid: bytes}}; malformed objects are violations."""
    out = {}
    for i, root in enumerate(roots):
        problems, contents = ref.audit_local_store(root)
        for kind, oid, why in problems[:1]:
            viols.append(Viol(f"store-{kind}", f"{where}, store {os.path.basename(root)}: {why}"))
        out[i] = contents
    return out


def _empty_store(root):
    objs, temps, stray = ref.walk_store(root)
    for p in [*objs.values(), *temps, *stray]:
        os.chmod(p, 0o644)
        os.unlink(p)


def _put_raw(root, oid, data):
    p = os.path.join(root, oid[:2], oid[2:])
    if not os.path.exists(p):
        gen.write_file(p, data)


def _walk_files(root):
    out = {}
    for dp, _dn, fn in os.walk(root):
        for f in fn:
            full = os.path.join(dp, f)
            out[os.path.relpath(full, root).replace(os.sep, "/")] = ref.read(full)
    return out


def _flavour_problem(case, m):
    """Every entry is mapped to stores of its own hash algorithm (what DVC does: legacy md5-dos2unix outputs go to
    legacy odbs, md5 outputs to md5 odbs, per cache and per remote).  None if the case keeps that."""
    chn = case.get("cache_hash") or [SIG] * len(case["cache_kinds"])
    rhn = case.get("remote_hash") or [SIG] * len(case["remote_kinds"])
    if LEGACY not in chn and LEGACY not in rhn:
        return None
    if not all(ref.ref_hash(b, LEGACY) == ref.ref_hash(b) for b in m.flat.values()):
        return "legacy stores with contents whose md5-dos2unix differs from their md5"
    for p in case["prefixes"]:
        r = resolve(case["prefixes"], p["key"])[1]
        if r["cache"] is not None and r["remote"] is not None and chn[r["cache"]] != rhn[r["remote"]]:
            return "a prefix pairs a cache and a remote of different hash algorithms"
        if r["cache"] is None:
            continue
        for k in m.tracked:
            if (is_prefix(p["key"], k) or is_prefix(k, p["key"])) and chn[r["cache"]] != chn[m.res[k]["cache"]]:
                return "an entry lies under prefixes of different hash algorithms"
    return None


def run_flow(case, ctx):  # noqa: C901, PLR0912, PLR0915
    from dvc_objects.fs.local import LocalFileSystem

    from dvc_data.hashfile.hash_info import HashInfo
    from dvc_data.hashfile.meta import Meta
    from dvc_data.index import DataIndex, DataIndexEntry, ObjectStorage, StorageInfo
    from dvc_data.index.build import build
    from dvc_data.index.checkout import apply, compare
    from dvc_data.index.collect import collect
    from dvc_data.index.fetch import fetch
    from dvc_data.index.push import push
    from dvc_data.index.save import md5, save

    m = Model(case)
    why = m.domain_problem()
    if why is None:
        why = _flavour_problem(case, m)
    if why is not None:
        return Result([], False, ["out-of-domain"], {})
    viols = []
    fs = LocalFileSystem()
    nc, nr = len(case["cache_kinds"]), len(case["remote_kinds"])
    with ctx.tmpdir() as d:
        wsdir = os.path.join(d, "ws")
        gen.materialise(case["ws"], wsdir)
        croots = [os.path.join(d, f"c{i}") for i in range(nc)]
        cconf = {"tmp_dir": os.path.join(d, "ctmp")} if case.get("cache_tmp") else {}
        chn = case.get("cache_hash") or ["md5"] * nc
        rhn = case.get("remote_hash") or ["md5"] * nr
        # every entry is named after the hash algorithm of the stores it is mapped to
        legacy = {i for i, k in enumerate(m.tracked) if chn[m.res[k]["cache"]] == LEGACY}
        caches = [ops.make_odb(k, croots[i], hash_name=chn[i], **cconf) for i, k in enumerate(case["cache_kinds"])]
        # remotes of the save phase are never touched (save only uses the cache role)
        remotes0 = [ops.make_odb(k, os.path.join(d, f"r{i}"), hash_name=rhn[i])
                    for i, k in enumerate(case["remote_kinds"])]

        def wire(idx, caches, remotes):
            smap = idx.storage_map
            if case["wiring"] == "add":
                for p in sorted(case["prefixes"], key=lambda p: len(p["key"])):
                    k = tuple(p["key"])
                    if p["cache"] is not None:
                        smap.add_cache(ObjectStorage(k, caches[p["cache"]], read_only=bool(p.get("cache_ro"))))
                    if p["remote"] is not None:
                        smap.add_remote(ObjectStorage(k, remotes[p["remote"]], read_only=bool(p.get("remote_ro"))))
            else:
                for p in case["prefixes"]:
                    k = tuple(p["key"])
                    old = smap._map.get(k)
                    smap[k] = StorageInfo(
                        data=old.data if old is not None else None,
                        cache=ObjectStorage(k, caches[p["cache"]], read_only=bool(p.get("cache_ro")))
                        if p["cache"] is not None else None,
                        remote=ObjectStorage(k, remotes[p["remote"]], read_only=bool(p.get("remote_ro")))
                        if p["remote"] is not None else None,
                    )

        # ---- build -> md5 -> save into the designated caches ---------------------------------
        bidx = build(wsdir, fs)
        wire(bidx, caches, remotes0)
        for key in list(bidx.keys()):
            if resolve(case["prefixes"], key)[1]["cache"] is None or (key in m.dirs and m.straddling(key)):
                del bidx[key]
        hidx = md5(bidx)
        save(hidx)
        for key, entry in hidx.iteritems():
            rel = "/".join(key)
            if rel in m.flat:
                want = ref.ref_hash(m.flat[rel])
            else:
                from .c18_model import manifest_under

                want = ref.ref_tree_oid(manifest_under(m.flat, key))
            got = entry.hash_info.value if entry.hash_info else None
            if got != want:
                viols.append(Viol("save-hash", f"{key}: saved index carries {got}, reference {want}"))
        csnap = _snap(croots, "after save", viols)
        want_c = m.expected_cache_after_save()
        for c in range(nc):
            w = set(want_c.get(c, {}))
            if w - set(csnap[c]):
                viols.append(Viol("save-missing-in-designated-cache",
                                  f"cache {c} lacks {sorted(w - set(csnap[c]))} of keys resolving to it"))
            if set(csnap[c]) - w:
                viols.append(Viol("save-extra-in-cache",
                                  f"cache {c} holds {sorted(set(csnap[c]) - w)} that no key resolving to it produces"))
        if viols:
            return Result(viols, False, ["save-violation"], {})

        # ---- the tracked index ---------------------------------------------------------------
        def make_tidx(caches, remotes, keys):
            idx = DataIndex()
            for k in keys:
                e = m.entries[k]
                if e["isdir"]:
                    meta = Meta(isdir=True)
                elif case["with_size"]:
                    meta = Meta(size=len(m.bytes[e["oid"]]))
                else:
                    meta = Meta()
                # legacy entries carry the name md5-dos2unix; the value is the same (contents are CRLF-free then),
                # and stores are addressed by value
                name = LEGACY if m.tracked.index(k) in legacy else SIG
                idx[k] = DataIndexEntry(key=k, meta=meta, hash_info=HashInfo(name, e["oid"]))
            wire(idx, caches, remotes)
            return idx

        des_r = m.designated("remote")
        des_c = m.designated("cache")
        req_r = m.requested_remote()
        cacheof = m.cacheof()  # remotes paired with exactly one cache
        pres = m.prefix_res()
        caches_r = m.caches_of_remote()
        shape_any = m.shaped_remotes()  # remotes paired with >= 2 caches: the known collect() defect may show
        involved = m.involved_keys()
        shaped = {r for r in shape_any if req_r.get(r)}  # ... and some tracked entry is requested through them
        shaped_c = set().union(*[caches_r[r] for r in shaped]) if shaped else set()
        exact = all(req_r.get(r, set()) == des_r.get(r, set()) for r in range(nr))
        known_v = []  # the one known finding, kept apart from `viols` so that judging goes on behind it

        def known_shape(msg):
            if not known_v:
                known_v.append(Viol(KNOWN_SHAPE, msg))

        def sets_for(keys):
            """Reference sets for the tracked keys `keys`: designated per remote / cache, and per storage prefix
            (cache, remote, objects of the entries - or parts of a directory - under it): what lies under a
            prefix moves between the cache and the remote that prefix resolves to."""
            return (m.designated("remote", keys), m.designated("cache", keys),
                    [(c, r, m.objs_under(pk, keys)) for pk, c, r in pres])

        _, _, pp_all = sets_for(m.tracked)

        coll_index = DataIndex() if case["cache_index"] else None

        def do_collect(idx, phase, **kw):
            if coll_index is not None:
                return collect([idx], "remote", cache_index=coll_index, cache_key=(phase,), **kw)
            return collect([idx], "remote", **kw)

        def judge_push(label, new, snap0, snap1, pushed, failed, skip_r, counts):
            total = sum(len(v) for v in new.values())
            arrived = sum(len(v & set(snap1[r])) for r, v in new.items())
            still = sum(len(v - set(snap1[r])) for r, v in new.items())
            if not counts:
                pass
            elif pushed + failed != total:
                viols.append(Viol(f"push-count-sum:{label}",
                                  f"push {label}: pushed {pushed} + failed {failed} != {total} objects that had to move"))
            elif pushed != arrived or failed != still:
                viols.append(Viol(f"push-count-split:{label}",
                                  f"push {label}: reported pushed={pushed} failed={failed}, but {arrived} of the "
                                  f"{total} objects that had to move are present afterwards and {still} are absent"))
            for r in range(nr):
                if r in skip_r:
                    continue
                extra = set(snap1[r]) - set(snap0[r]) - new.get(r, set())
                if extra:
                    viols.append(Viol("push-unexpected-object",
                                      f"push {label}: remote {r} received {sorted(extra)}, not objects of entries "
                                      f"under a prefix that resolves to it"))
                gone = set(snap0[r]) - set(snap1[r])
                if gone:
                    viols.append(Viol("push-removed-object", f"push {label}: remote {r} lost {sorted(gone)}"))

        def push_phase(tag, plan, fail_roots, phase):
            """Fresh remotes `r<i><tag>` (with the closed pre-existing contents), push with the fault plan, clean
            retry, all oracle clauses of the push half.  plan: indices into the sorted ids that have to move
            (int list) or an explicit id set."""
            o = {}
            roots = [os.path.join(d, f"r{i}{tag}") for i in range(nr)]
            conf = {"tmp_dir": os.path.join(d, "tmp" + tag)} if case["remote_index"] else {}
            rem = [ops.make_odb(k, roots[i], hash_name=rhn[i], **conf) for i, k in enumerate(case["remote_kinds"])]
            for ti, how in case["pre"]:
                k = m.tracked[ti % len(m.tracked)]
                e = m.entries[k]
                if m.res[k]["remote"] is None:
                    continue
                root = roots[m.res[k]["remote"]]
                files = sorted(e["listed"]) if e["isdir"] else [e["oid"]]
                if how == "one":
                    files = files[:1]
                for oid in files:
                    _put_raw(root, oid, m.bytes[oid])
                if how == "full":
                    _put_raw(root, e["oid"], m.bytes[e["oid"]])
            # a remote registered read-only is somebody else's store (shared / imported data): it already holds
            # everything below the prefix that registers it; nothing is demanded of a push towards it
            for p in case["prefixes"]:
                if p["remote"] is not None and p.get("remote_ro"):
                    for oid in sorted(m.objs_under(p["key"])):
                        _put_raw(roots[p["remote"]], oid, m.bytes[oid])
            tidx = make_tidx(caches, rem, m.tracked)
            before = _snap(roots, f"before push{tag}", viols)

            def new_for_push(snap):
                # per prefix: objects of the entries under it, held by the cache it resolves to, absent from its
                # remote.  For a remote paired with several caches the model cannot say which of them feeds the
                # transfer: any of them may (upper bound; the counts are then not judged).
                out = {}
                for c, r, objs in pp_all:
                    held = set().union(*[set(csnap[x]) for x in caches_r[r]]) if r in shaped else set(csnap[c])
                    out.setdefault(r, set()).update((objs & held) - set(snap[r]))
                return out

            new1 = new_for_push(before)
            moving = sorted(set().union(*new1.values())) if new1 else []
            kinds = case.get("fail_kinds") or ["EIO"]
            if isinstance(plan, dict):
                fail = plan
            else:
                chosen = sorted({moving[i % len(moving)] for i in plan}) if moving else []
                fail = {oid: kinds[j % len(kinds)] for j, oid in enumerate(chosen)}
            froots = roots if fail_roots is None else [roots[i % nr] for i in fail_roots]
            data = do_collect(tidx, phase, push=True)
            inj = TypedInjector(froots, fail)
            with inj:
                pushed1, failed1 = push(data, jobs=case["jobs"])
            after1 = _snap(roots, f"after push round 1{tag}", viols)
            if case["recollect"]:
                tidx = make_tidx(caches, rem, m.tracked)
                data = do_collect(tidx, phase, push=True)
            new2 = new_for_push(after1)
            pushed2, failed2 = push(data, jobs=case["jobs"])
            after2 = _snap(roots, f"after push round 2{tag}", viols)
            lack = {r: des_r.get(r, set()) - set(after2[r]) for r in range(nr)}
            # the known defect: collect() groups the prefixes of one remote store and carries along the cache of
            # the first of them only, so the objects held by the other cache(s) are never sent
            manifest = {r for r in shaped
                        if lack[r] and any(not (lack[r] & set(csnap[c])) for c in caches_r[r])}
            if manifest:
                r = min(manifest)
                losers = sorted({c for oid, c, rr, _k in m.designation() if rr == r and oid in lack[r]})
                known_shape(f"remote {r} is paired with caches {sorted(caches_r[r])} by the prefixes that resolve "
                            f"to it; collection carries one cache per remote store, so after a clean push the remote "
                            f"still lacks {sorted(lack[r])} - the objects of the entries whose cache is {losers} "
                            f"(prefixes {case['prefixes']})")
            skip_r = shaped if manifest else set()
            judge_push("round1", new1, before, after1, pushed1, failed1, skip_r, not shaped)
            judge_push("round2", new2, after1, after2, pushed2, failed2, skip_r, not shaped)
            if failed2 and not manifest:
                viols.append(Viol("push-retry-failed", f"fault-free retry reported {failed2} failed objects"))
            for r in range(nr):
                if r in skip_r:
                    continue
                if lack[r]:
                    viols.append(Viol("push-incomplete",
                                      f"after the clean retry remote {r} lacks {sorted(lack[r])} of the entries the "
                                      f"mapping designates to it (prefixes {case['prefixes']})"))
                for oid in sorted(set(after2[r]) & set(m.bytes)):
                    if after2[r][oid] != m.bytes[oid]:
                        viols.append(Viol("push-wrong-bytes",
                                          f"remote {r}: object {oid} differs from the reference bytes"))
                        break
            o.update(roots=roots, remotes=rem, conf=conf, tidx=tidx, before=before, moving=moving, inj=inj,
                     froots=froots, after2=after2, new2=new2, pushed=pushed1 + pushed2, manifest=bool(manifest))
            return o

        # ---- push: round 1 with the drawn fault subset, round 2 clean -----------------------------
        P = push_phase("", case["fail"], case["fail_roots"], "push")
        if viols:
            return Result(viols + known_v, False, ["push-violation"], {"known_shape_hits": len(known_v)})
        # ---- enumeration: every single object that has to move fails once (fresh remotes each time) ---
        enumerated = efaults = 0
        if case.get("enum"):
            for n, oid in enumerate(P["moving"][:ENUM_CAP]):
                ekinds = case.get("fail_kinds") or ["EIO"]
                efaults += len(push_phase(f"e{n}", {oid: ekinds[n % len(ekinds)]}, None,
                                          f"push-e{n}")["inj"].faulted)
                enumerated += 1
                if viols:
                    return Result(viols + known_v, False, ["push-violation", "enumerated-single-fault"], {"known_shape_hits": len(known_v)})
        rroots, remotes, rconf, tidx = P["roots"], P["remotes"], P["conf"], P["tidx"]
        before, inj, froots, after2, new2 = P["before"], P["inj"], P["froots"], P["after2"], P["new2"]

        def mk_stores():
            return ([ops.make_odb(k, croots[i], hash_name=chn[i], **cconf)
                     for i, k in enumerate(case["cache_kinds"])],
                    [ops.make_odb(k, rroots[i], hash_name=rhn[i], **rconf)
                     for i, k in enumerate(case["remote_kinds"])])

        # Behind a manifest known finding the search goes on with the entries that no shaped remote requests
        # (the others cannot be fetched: their objects never reached the remote).
        active = [k for k in m.tracked if not (P["manifest"] and k in involved)]
        # an entry whose own key resolves to no remote (only a prefix inside it does) cannot come back from the
        # remotes: its directory object is designated nowhere - such cases are judged on the push half only
        full_cycle = all(m.res[k]["remote"] is not None for k in m.tracked)
        if not full_cycle:
            active = []
        fetched1 = fetched2 = 0
        finj = None
        fetch_manifest = False
        if active:
            # ---- empty the caches, fetch (optionally a faulty round first), clean fetch -----------
            for root in croots:
                _empty_store(root)
            if case["fresh_fetch"]:
                caches, remotes = mk_stores()
            reuse = not (case["fresh_fetch"] or case["recollect"]) and len(active) == len(m.tracked)
            fidx = tidx if reuse else make_tidx(caches, remotes, active)
            a_des_r, a_des_c, a_pp = sets_for(active)
            # objects each prefix can bring into its cache: requested under it and present in its remote
            a_req = {}
            for _c, r, objs in a_pp:
                a_req.setdefault(r, set()).update(objs)
            shaped_live = {r for r in shaped if a_req.get(r)}
            src_c = {}
            for c, r, objs in a_pp:
                # a remote paired with several caches: its objects may land in any of them (upper bound)
                for x in (caches_r[r] if r in shaped_live else [c]):
                    src_c.setdefault(x, set()).update(objs & set(after2[r]))
            avail = {r: a_req.get(r, set()) & set(after2[r]) for r in cacheof}

            def fetch_symptom(snap1, final):
                """Known defect on the fetch side: everything requested through a remote that is paired with
                several caches lands in one of them; the entries of the other cache(s) stay without objects."""
                if not shaped_live or not final:
                    return None
                for c in sorted(shaped_c):
                    lack = a_des_c.get(c, set()) - set(snap1[c])
                    from_shaped = set()
                    for r in shaped_live:
                        if c in caches_r[r]:
                            from_shaped |= a_req[r]
                    if lack and lack <= from_shaped:
                        return (f"remote(s) {sorted(shaped_live)} are paired with caches {sorted(shaped_c)}; collection "
                                f"carries one cache per remote store, so after a clean fetch cache {c} still lacks "
                                f"{sorted(lack)} - they landed in another cache of that remote "
                                f"(prefixes {case['prefixes']})")
                return None

            def judge_fetch(label, snap0, snap1, fetched, failed, clean):
                nonlocal fetch_manifest
                sym = fetch_symptom(snap1, clean)
                if sym:
                    fetch_manifest = True
                    known_shape(sym)
                skip_c = shaped_c if fetch_manifest else set()
                arrived_total, still_total, need_total = 0, 0, 0
                for c in range(nc):
                    src = src_c.get(c, set())
                    arrived = set(snap1[c]) - set(snap0[c])
                    arrived_total += len(arrived)
                    need_total += len(src - set(snap0[c]))
                    if c in skip_c:
                        continue
                    if arrived - src:
                        viols.append(Viol("fetch-unexpected-object",
                                          f"fetch {label}: cache {c} received {sorted(arrived - src)}, not objects of "
                                          f"entries under a prefix that resolves to it and to a remote holding them"))
                    if set(snap0[c]) - set(snap1[c]):
                        viols.append(Viol("fetch-removed-object", f"fetch {label}: cache {c} lost objects"))
                for r, c in cacheof.items():
                    still_total += len(avail[r] - set(snap1[c]))
                if shaped_live:
                    return  # a group with two caches: the totals cannot be attributed (clean-round sets are judged)
                if clean and fetched + failed != need_total:
                    viols.append(Viol(f"fetch-count-sum:{label}",
                                      f"fetch {label}: fetched {fetched} + failed {failed} != {need_total} objects "
                                      f"that had to move"))
                elif fetched != arrived_total or failed != still_total:
                    viols.append(Viol(f"fetch-count-split:{label}",
                                      f"fetch {label}: reported fetched={fetched} failed={failed}, but "
                                      f"{arrived_total} objects arrived and {still_total} requested-and-available "
                                      f"objects are absent"))

            fdata = do_collect(fidx, "fetch")
            c0 = _snap(croots, "caches emptied", viols)
            if case["ffail"]:
                want_all = sorted(set().union(*src_c.values())) if src_c else []
                fk = case.get("ffail_kinds") or ["EIO"]
                fchosen = sorted({want_all[i % len(want_all)] for i in case["ffail"]}) if want_all else []
                finj = TypedInjector(croots, {oid: fk[j % len(fk)] for j, oid in enumerate(fchosen)})
                with finj:
                    fetched1, ffailed1 = fetch(fdata, jobs=case["jobs"])
                c1 = _snap(croots, "after fetch round 1", viols)
                judge_fetch("round1", c0, c1, fetched1, ffailed1, clean=False)
                if case["recollect"]:
                    fidx = make_tidx(caches, remotes, active)
                    fdata = do_collect(fidx, "fetch")
            else:
                c1 = c0
            fetched2, ffailed2 = fetch(fdata, jobs=case["jobs"])
            c2 = _snap(croots, "after clean fetch", viols)
            judge_fetch("clean", c1, c2, fetched2, ffailed2, clean=True)
            if ffailed2 and not fetch_manifest:
                viols.append(Viol("fetch-retry-failed", f"fault-free fetch reported {ffailed2} failed objects"))
            for c in range(nc):
                if fetch_manifest and c in shaped_c:
                    continue
                lack = a_des_c.get(c, set()) - set(c2[c])
                if lack:
                    viols.append(Viol("fetch-incomplete",
                                      f"after the clean fetch cache {c} lacks {sorted(lack)} of the entries the "
                                      f"mapping designates to it (prefixes {case['prefixes']})"))
                for oid in sorted(set(c2[c]) & set(m.bytes)):
                    if c2[c][oid] != m.bytes[oid]:
                        viols.append(Viol("fetch-wrong-bytes",
                                          f"cache {c}: object {oid} differs from the reference bytes"))
                        break
            if viols:
                return Result(viols + known_v, False, ["fetch-violation"], {"known_shape_hits": len(known_v)})

            # ---- checkout from the fetched caches -------------------------------------------------
            co_keys = [k for k in active if not (fetch_manifest and k in involved)]
            if co_keys:
                same = len(co_keys) == len(active)
                cidx = fidx if (same and not case["fresh_checkout"]) else make_tidx(caches, remotes, co_keys)
                out = os.path.join(d, "out")
                os.makedirs(out)
                for k in co_keys:
                    # a tracked key below an untracked grouping directory: the parent exists in any real workspace
                    os.makedirs(os.path.join(out, *k[:-1]), exist_ok=True)
                diff = compare(None, cidx)
                apply(diff, out, fs, storage="cache")
                got = _walk_files(out)
                want = {}
                for k in co_keys:
                    want.update(m.entries[k]["files"])
                if got != want:
                    miss = sorted(set(want) - set(got))
                    extra = sorted(set(got) - set(want))
                    bad = sorted(k for k in set(got) & set(want) if got[k] != want[k])
                    viols.append(Viol("checkout-mismatch",
                                      f"checkout from the fetched caches: missing {miss}, unexpected {extra}, "
                                      f"wrong bytes {bad}"))

        # ---- classification ---------------------------------------------------------------------
        cl = ["flow", f"prefixes={min(len(case['prefixes']), 4)}", f"wiring={case['wiring']}",
              "exact" if exact else "nested-remote-override"]
        if shape_any:
            cl.append("shape:one-remote-two-caches")
            cl.append("shape-defect-manifest" if known_v else "shape-defect-latent")
        live_r = [r for r in range(nr) if des_r.get(r)]
        live_c = [c for c in range(nc) if des_c.get(c)]
        if len(live_r) >= 2:
            cl.append("remotes>=2")
        if len(live_c) >= 2:
            cl.append("caches>=2")
        if len(live_r) > len(live_c):
            cl.append("remotes-share-a-cache")
        keys = [tuple(p["key"]) for p in case["prefixes"]]
        if any(a != b and is_prefix(a, b) for a in keys for b in keys):
            cl.append("nested-prefixes")
        by_remote = {}
        for p in case["prefixes"]:
            rr = resolve(case["prefixes"], p["key"])[1]["remote"]
            if rr is not None and any(is_prefix(p["key"], k) for k in m.tracked):
                by_remote.setdefault(rr, []).append(p)
        if any(len(v) >= 2 for v in by_remote.values()):
            cl.append("prefixes-share-a-remote")
        fallback = False
        for k in m.tracked:
            src = {}
            for role in ("cache", "remote"):
                src[role] = max((tuple(p["key"]) for p in case["prefixes"]
                                 if is_prefix(p["key"], k) and p[role] is not None), key=len, default=None)
            if src["cache"] != src["remote"]:
                fallback = True
        inner = [tuple(p["key"]) for p in case["prefixes"]
                 if any(len(p["key"]) > len(k) and is_prefix(k, p["key"]) for k in m.tracked)]
        if inner:
            cl.append("prefix-inside-tracked-dir")
            order = [tuple(p["key"]) for p in case["prefixes"]]
            if case["wiring"] == "add":
                order = sorted(order, key=len)  # registration order of the parents-first wiring
            if any(
                    not any(is_prefix(o, i) and len(o) < len(i)
                            and resolve(case["prefixes"], o)[1]["remote"] is not None
                            for o in order[: order.index(i)]) for i in inner):
                cl.append("inner-prefix-collected-before-any-outer")
        if not full_cycle:
            cl.append("entry-key-without-remote(push-only)")
        if fallback:
            cl.append("roles-from-different-prefixes")
        has_dir = any(e["isdir"] for e in m.entries.values())
        if has_dir:
            cl.append("tracked-dir")
        if any(len(k) == 2 for k in m.tracked):
            cl.append("tracked-nested-key")
        if any(not e["isdir"] for e in m.entries.values()):
            cl.append("tracked-file")
        if any(des_r.get(a, set()) & des_r.get(b, set()) for a in live_r for b in live_r if a < b):
            cl.append("object-designated-to-two-remotes")
        if sum(len(e["reach"]) for e in m.entries.values()) > len(set().union(*[e["reach"] for e in m.entries.values()])):
            cl.append("object-shared-by-entries")
        if any(before[r] for r in before):
            cl.append("remote-prepopulated")
        if case["remote_index"]:
            cl.append("remote-index")
        if legacy:
            cl.append("legacy-named-entry")
            if any(m.entries[m.tracked[i]]["isdir"] for i in legacy):
                cl.append("legacy-named-directory")
        if LEGACY in chn or LEGACY in rhn:
            cl.append("odb-hash-name=md5-dos2unix")
        if legacy and len(legacy) < len(m.tracked):
            cl.append("index-mixes-md5-and-legacy-prefixes")
        if case.get("cache_tmp"):
            cl.append("cache-tmp-dir")
        ro_r = {p["remote"] for p in case["prefixes"] if p["remote"] is not None and p.get("remote_ro")
                and m.objs_under(p["key"])}
        if ro_r:
            cl.append("read-only-remote")
            if any(p["remote"] is not None and not p.get("remote_ro") and m.objs_under(p["key"])
                   for p in case["prefixes"]):
                cl.append("read-only-and-writable-remotes")
        if any(p.get("cache_ro") for p in case["prefixes"]):
            cl.append("read-only-cache-storage")
        # a plain file under one remote whose content equals a file listed by a directory under another remote,
        # both fed from one cache
        for k, e in m.entries.items():
            if e["isdir"] or m.res[k]["remote"] is None:
                continue
            if any(e2["isdir"] and e["oid"] in e2["listed"] and m.res[k2]["cache"] == m.res[k]["cache"]
                   and m.res[k2]["remote"] not in (None, m.res[k]["remote"]) for k2, e2 in m.entries.items()):
                cl.append("plain-file-twin-of-dir-file-on-other-remote")
                break
        if case["cache_index"]:
            cl.append("collection-index")
        for kk in sorted(set(case["cache_kinds"])):
            cl.append(f"cache={kk}")
        for kk in sorted(set(case["remote_kinds"])):
            cl.append(f"remote={kk}")
        hit = {oid for _, oid in inj.faulted}
        if hit:
            cl.append("fault-hit")
            for kk in sorted({inj.kinds.get(o, "EIO") for o in hit}):
                cl.append(f"push-fault={kk}")
            listed = set().union(*[e["listed"] for e in m.entries.values()])
            if hit & listed:
                cl.append("fault-hit-listed-file")
            if any(o.endswith(".dir") for o in hit):
                cl.append("fault-hit-dir-object")
            if case["fail_roots"] is not None and len(set(froots)) < nr:
                cl.append("fault-on-some-remotes")
        if finj is not None and finj.faulted:
            cl.append("fetch-fault-hit")
            for kk in sorted({finj.kinds.get(o, "EIO") for _, o in finj.faulted}):
                cl.append(f"fetch-fault={kk}")
        if enumerated:
            cl.append("single-faults-enumerated")
        if sum(len(v) for v in new2.values()) == 0:
            cl.append("round2-nothing-to-move")
        nontrivial = bool(hit) or (len(live_r) >= 2 and has_dir)
        return Result(viols + known_v, nontrivial, cl, {
            "known_shape_hits": len(known_v),
            "faults_injected": len(inj.faulted) + (len(finj.faulted) if finj else 0) + efaults,
            "objects_pushed": P["pushed"],
            "single_faults_enumerated": enumerated,
            "objects_fetched": fetched2 + fetched1,
            "flows": 1,
        })


def run_case(case, ctx):
    if case.get("kind") == "pure":
        return run_pure(case, ctx)
    return run_flow(case, ctx)


def run(ctx):
    ok = ctx.run_given(pure_cases(), run_case, ctx.n(quick=300, thorough=4000))
    if ok:
        ctx.run_given(flow_cases(), run_case, ctx.n(quick=100, thorough=700))


def replay(case, ctx):
    ctx.exec_case(case, run_case)
