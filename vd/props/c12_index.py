"""C12, index half: a history machine over 1-3 remote stores, one full cache and one persistent
ObjectDBIndex PER REMOTE (each obtained through get_index(remote), as index.push / index.fetch do; all
remotes are configured with the SAME tmp_dir, the normal situation for several remotes of one repository, so
the index names derived from the store locations are what keeps them apart). Every step addresses one drawn
remote; every clause is evaluated per (remote, its own index) - after every step for ALL remotes, so that
nothing delivered to / indexed for remote A may show up in remote B's index or answers.

The cache holds 2-4 non-empty trees, loose files and - in two worlds of five - one EMPTY directory (no files: the
"[]" listing object EMPTY_DIR). It is a directory object like any other for every rule and clause; since it lists
nothing, only its own presence in the remote can vouch for it (an index entry for it must be re-validated and
dropped like the entry of any other directory object).

Model (all from direct os.walk listings, never through the code under test):
  ever     = ids ever observed in the remote (after set-up and after every step; objects only ever
             disappear through the machine's own delete_remote rule, so a listing after every step sees
             every delivery),
  children = {directory id: ids it lists}, from the harness' own manifests.

Failed transfers come in three kinds: upload failures / aborts injected at the final placement call
(vd/faults.Injector), pushes that lack a source object, and calls interrupted at the n-th WRITE TRANSACTION of
the remote index: ObjectDBIndex.update() is the only writer that uses transactions (`self.index.transact()`,
one for the directory entry, one for the nested files), so the narrowest hook is the `transact` attribute of the
diskcache Index instance held by the index handle in use. While armed, the n-th call either raises IndexKill
(a BaseException: the process died before that transaction began; everything committed earlier stays) or
diskcache's Timeout (which update() documents to surface as ObjectDBError).
"""

import hashlib
import os

from hypothesis import strategies as st
from hypothesis.stateful import initialize, rule

from .. import gen, ops, ref
from ..ctx import Result
from ..faults import Abort, Injector
from ..machine import TraceMachine, traced
from .c12 import build_world, closed_ids, expand, external_delete, hinfos

FAKE_FILE = hashlib.md5(b"vd-c12-absent-file").hexdigest()  # noqa: S324
FAKE_DIR = hashlib.md5(b"vd-c12-absent-dir").hexdigest() + ".dir"  # noqa: S324
# the directory object of a directory WITHOUT files: the listing "[]" (a real object: `dvc add` of an empty
# directory produces it, and it is pushed / queried / indexed like every other directory object)
EMPTY_DIR = ref.ref_tree_oid({})


def _place_empty(trees, pos):
    """trees, with one EMPTY directory ({}) inserted at the position (None: no empty directory)."""
    trees = list(trees)
    if pos is not None:
        trees.insert(pos % (len(trees) + 1), {})
    return trees


def _world():
    import warnings

    content = gen.small_contents()
    with warnings.catch_warnings():
        warnings.simplefilter("ignore")
        tree = gen.trees(max_files=4, max_depth=2, content=content)
    return st.fixed_dictionaries({
        # 2-4 non-empty trees; in about two worlds of five additionally one EMPTY directory (a staged directory
        # without files -> the "[]" listing object, which lists nothing) that pushes / fetches / status queries /
        # external deletions address like any other directory
        "trees": st.lists(tree, min_size=2, max_size=4),
        "loose": st.lists(content, max_size=2),
        "remotes": st.sampled_from([["generic"], ["local"], ["generic", "generic"], ["generic", "local"],
                                    ["local", "generic"], ["local", "local"], ["generic", "local", "generic"]]),
        "empty_dir": st.sampled_from([None, None, None, 0, 2]),
    })


class IndexKill(BaseException):
    """The process died at the beginning of a write transaction of the remote index."""


class TxHook:
    """Arms the n-th write transaction of one index handle (see module docstring)."""

    def __init__(self, index, spec):
        self.idx = index.index  # the diskcache Index behind the ObjectDBIndex handle
        self.at = spec["at"] if spec else None
        self.how = spec["how"] if spec else None
        self.n = 0
        self.fired = False

    def __enter__(self):
        if self.at is None:
            return self
        orig = self.idx.transact

        def transact():
            self.n += 1
            if self.n == self.at:
                self.fired = True
                if self.how == "timeout":
                    from dvc_data.hashfile.cache import Timeout

                    raise Timeout("injected: index write transaction timed out")
                raise IndexKill(f"killed entering index write transaction #{self.n}")
            return orig()

        self.idx.transact = transact
        return self

    def __exit__(self, *exc):
        self.idx.__dict__.pop("transact", None)
        return False


# None (usually) or: abort the call at its n-th index write transaction; afterwards keep or reopen the handle
_IDX_ABORT = st.one_of(
    st.none(), st.none(),
    st.fixed_dictionaries({"at": st.sampled_from([1, 2, 2, 2, 3, 4, 4]),
                           "how": st.sampled_from(["kill", "kill", "timeout"]),
                           "reopen": st.booleans()}),
)


def _op(name, **kw):
    return st.fixed_dictionaries({"op": st.just(name), **kw})


_PUSH = _op(
    "push",
    request=st.lists(st.integers(0, 7), min_size=1, max_size=3),
    form=st.sampled_from(["closed", "closed", "expand"]),
    fail=st.one_of(st.just([]), st.just([]), st.just([]), st.lists(st.integers(0, 15), min_size=1, max_size=2)),
    abort_at=st.sampled_from([None, None, None, None, None, None, None, None, 1, 2, 3, 5]),
    jobs=st.sampled_from([1, 1, 4]),
    trees_from=st.sampled_from(["cache", "cache", "remote"]),
    index_abort=_IDX_ABORT,
    # an injected upload failure leaves the first half of the bytes, unprotected, under the final name
    partial=st.sampled_from([False, False, True]),
)
_FETCH = _op("fetch", request=st.lists(st.integers(0, 7), min_size=1, max_size=2), jobs=st.sampled_from([1, 4]),
             index_abort=_IDX_ABORT)
_STATUS = _op("status", query=st.lists(st.integers(0, 40), min_size=1, max_size=6),
              qdirs=st.lists(st.integers(0, 7), max_size=2), shallow=st.booleans(),
              trees_from=st.sampled_from(["cache", "cache", "remote"]),
              jobs=st.sampled_from([None, 1, 4]), index_abort=_IDX_ABORT)
_DELETE = _op("delete_remote", picks=st.lists(st.integers(0, 40), min_size=1, max_size=3),
              what=st.sampled_from(["indexed-dirs", "dirs", "files", "any", "tree", "tree"]))
_REOPEN = _op("reopen")
_DELCACHE = _op("delete_cache", picks=st.lists(st.integers(0, 40), min_size=1, max_size=2))
_OPS = {"push": _PUSH, "fetch": _FETCH, "status": _STATUS, "delete_remote": _DELETE, "reopen": _REOPEN,
        "delete_cache": _DELCACHE}
# st.one_of() de-duplicates its branches, so weights are drawn explicitly. Losing cache objects is rare
# (about one history in five): it makes every later push of that file fail.
_WEIGHTS = (["push"] * 13 + ["fetch"] * 6 + ["status"] * 10 + ["delete_remote"] * 10 + ["reopen"] * 3
            + ["delete_cache"])


@st.composite
def _step(draw):
    op = dict(draw(_OPS[draw(st.sampled_from(_WEIGHTS))]))
    # -1 = the remote addressed by the previous step (multi-step stories about one remote stay likely);
    # otherwise taken modulo the number of remotes
    op["remote"] = draw(st.sampled_from([-1, -1, -1, -1, 0, 1, 1, 2]))
    return op


class Rem:
    """One remote store with its own index handle and its own delivery history."""

    def __init__(self, kind, root):
        self.kind = kind
        self.root = root
        self.odb = None
        self.index = None
        self.ever = set()


_STEP = _step()


def _vals(s):
    return {h.value for h in s}


class IndexMachine(TraceMachine):
    def case(self):
        return {"half": "index", "steps": list(self.trace)}

    # ---- set-up / teardown ---------------------------------------------------------------------
    def on_setup(self):
        self.w = None
        self.rems = []
        self.cur = 0                    # the remote the current step / invariant evaluation addresses
        self.touched = set()
        self.labels = set()
        self.disturbed = False          # a failed/aborted transfer or an effective external deletion happened
        self.nontrivial = False         # ... and a status evaluation with the index followed
        self.n_status = 0
        self.n_faults = 0
        self.n_aborts = 0
        self.n_fetch = 0
        self.n_idx_aborts = 0
        self.op = "initial"

    # the rule bodies below are written against "the" remote: these resolve to the addressed one
    remote = property(lambda self: self.rems[self.cur].odb)
    remote_root = property(lambda self: self.rems[self.cur].root)
    kind = property(lambda self: self.rems[self.cur].kind)
    ever = property(lambda self: self.rems[self.cur].ever)

    @property
    def index(self):
        return self.rems[self.cur].index if self.rems else None

    @index.setter
    def index(self, value):
        self.rems[self.cur].index = value

    def _open(self):
        """(Re)create the store object of the addressed remote and fetch its index the way callers do."""
        from dvc_data.hashfile.db import get_index

        rem = self.rems[self.cur]
        rem.odb = ops.make_odb(rem.kind, rem.root, tmp_dir=self.tmp_dir)
        self.cache = ops.make_odb("local", self.w.cache_root)
        rem.index = get_index(rem.odb)
        assert type(rem.index).__name__ == "ObjectDBIndex"

    @initialize(world=_world())
    @traced
    def init(self, world):
        self.w = build_world(self.dir, _place_empty(world["trees"], world.get("empty_dir")), world["loose"])
        kinds = world.get("remotes") or [world["remote_kind"]]  # "remote_kind": replay files of the 1-remote era
        self.tmp_dir = os.path.join(self.dir, "tmp")  # shared by all remotes
        os.makedirs(self.tmp_dir)
        self.rems = [Rem(k, os.path.join(self.dir, "remote" if i == 0 else f"remote{i}"))
                     for i, k in enumerate(kinds)]
        for i in range(len(self.rems)):
            self.cur = i
            self._open()
        self.cur = 0
        assert len({r.index.index_dir for r in self.rems}) == len(self.rems)
        self.universe = sorted(set(self.w.all_ids) | {FAKE_FILE, FAKE_DIR})
        self.labels.update("remote=" + k for k in kinds)
        self.labels.add(f"remotes={len(kinds)}")
        shared = False
        dirs = sorted(self.w.dir_children)
        for i, a in enumerate(dirs):
            for b in dirs[i + 1:]:
                if self.w.dir_children[a] & self.w.dir_children[b]:
                    shared = True
        if shared:
            self.labels.add("dirs-share-a-file")
        if EMPTY_DIR in self.w.dir_children:
            assert self.w.dir_children[EMPTY_DIR] == set() and self.w.bytes[EMPTY_DIR] == b"[]"
            self.labels.add("world-has-empty-dir")

    def on_cleanup(self):
        for rem in self.rems:
            if rem.index is not None:
                rem.index.close()
                rem.index = None

    def on_summary(self):
        return Result([], self.nontrivial, sorted(self.labels),
                      {"index_histories": 1, "index_steps": len(self.trace),
                       "status_evaluations_with_index": self.n_status,
                       "faults_injected": self.n_faults, "abort_points": self.n_aborts,
                       "index_transaction_aborts": self.n_idx_aborts})

    # ---- observation helpers -------------------------------------------------------------------
    def names(self):
        """Every object NAME in the addressed remote (os.walk)."""
        return ref.store_ids(self.remote_root)

    def intact(self):
        """Ids whose file in the addressed remote holds exactly the reference bytes."""
        out = set()
        for oid, path in ref.walk_store(self.remote_root)[0].items():
            if self.w.bytes.get(oid) == ref.read(path):
                out.add(oid)
        return out

    def listing(self):
        """What counts as 'in the store' for the addressed remote. A LocalHashFileDB only counts intact objects
        (a half-written, unprotected leftover under an object's name is discarded by its existence queries);
        the generic class trusts names by design, so a leftover there IS the object as far as status without an
        index can tell - for that class only the index gains of the failing push itself are judged by
        content (see do_push)."""
        return self.intact() if self.kind == "local" else self.names()

    def listed_by(self, dirs):
        out = set()
        for d in dirs:
            out |= self.w.dir_children.get(d, set())
        return out

    def _stale_before(self):
        """Directories the index holds that are absent from the remote right now."""
        return {i for i in set(self.index) if i.endswith(".dir")} - self.listing()

    def _check_cleared(self, stale, queried_dirs, op):
        """'a stale index is cleared': the call validated the index (it queried >= 1 directory) while
        the index held a directory that is gone => no absent directory survives in the index, nor
        files vouched for by anything but directories the index (re-)holds."""
        if not stale or not queried_dirs:
            return
        self.labels.add("stale-index-seen:" + op)
        if EMPTY_DIR in stale:
            self.labels.add("stale-indexed-empty-dir-seen:" + op)
        now = self.listing()
        idx = set(self.index)
        idx_dirs = {i for i in idx if i.endswith(".dir")}
        gone = sorted(idx_dirs - now)
        if gone:
            self.violate(f"stale-index-kept:{op}",
                         f"{op} queried directories {sorted(queried_dirs)} while the index held absent "
                         f"{sorted(stale)}; afterwards the index still holds absent directories {gone}")
        orphans = sorted(idx - idx_dirs - self.listed_by(idx_dirs))
        if orphans:
            self.violate(f"stale-index-files-kept:{op}",
                         f"{op} found indexed directories {sorted(stale)} gone, yet the index still holds "
                         f"files {orphans} that no directory it holds lists")

    def _check_validated(self, queried_dirs, op):
        """A call that queried >= 1 directory re-validated the index against the store ('a stale index is
        cleared'): afterwards the index holds no identifier that is neither in the store nor listed by a
        directory object that is there. (Holds for interrupted calls too: validation precedes every index
        write and every upload of the call.)"""
        if not queried_dirs:
            return
        now = self.listing()
        idx = set(self.index)
        unvouched = sorted(idx - now - self.listed_by(now))
        if unvouched:
            self.violate(f"stale-index-not-cleared:{op}",
                         f"{op} queried directories {sorted(queried_dirs)}, yet afterwards the index holds "
                         f"{unvouched}: neither in the remote nor listed by a directory object that is there")

    def _after_index_abort(self, hook, spec, op):
        """Bookkeeping after a call that ran under an index-transaction plan."""
        if not hook.fired:
            return
        self.disturbed = True
        self.n_idx_aborts += 1
        self.labels.add(f"{op}-index-{spec['how']}")
        self.labels.add(f"index-abort-at={spec['at']}")
        idx = set(self.index)
        if idx and not any(i.endswith(".dir") for i in idx):
            self.labels.add("index-files-without-dir-entry")
        if any(i.endswith(".dir") and not (self.w.dir_children[i] & idx) for i in idx):
            self.labels.add("index-dir-entry-without-files")
        if spec.get("reopen"):
            self.index.close()
            self.index = None
            self._open()
            self.labels.add("reopen-after-index-abort")

    def _excuse_corrupt_dir(self):
        """Called while handling an ObjectFormatError: a call may refuse to work with a remote that holds a
        half-written directory object under its final name (the leftover of a failed non-atomic upload; the
        generic store class trusts names, so the call finds it and fails to parse it). Refusing is not inventing:
        no clause of the property is about it. Any other ObjectFormatError is re-raised."""
        corrupt = {i for i in self.names() - self.intact() if i.endswith(".dir")}
        if not corrupt:
            raise  # noqa: PLE0704
        self.labels.add("call-refused:corrupt-dir-object-in-remote")

    def _check_reported(self, exists, at_listing, op):
        """ids a status answer reports as existing in the remote, against the listing at that moment."""
        dirs_absent = sorted(i for i in exists if i.endswith(".dir") and i not in at_listing)
        if dirs_absent:
            self.violate(f"dir-reported-but-absent:{op}",
                         f"{op}: directories {dirs_absent} reported as existing but not in the remote")
        vouched = self.ever | self.listed_by(at_listing)
        invented = sorted(i for i in exists if not i.endswith(".dir") and i not in at_listing and i not in vouched)
        if invented:
            self.violate(f"file-reported-never-delivered:{op}",
                         f"{op}: files {invented} reported as existing, absent from the remote, never "
                         f"delivered and not listed by any directory object present")
        if any(i not in at_listing for i in exists):
            self.labels.add("index-vouches-for-absent-file")

    def _status_evaluated(self):
        self.n_status += 1
        if self.disturbed:
            self.nontrivial = True

    def _request(self, request, form):
        tops = [self.w.tops[i % len(self.w.tops)] for i in request]
        ids = set()
        for t in tops:
            ids |= closed_ids(t) if form == "closed" else {t["oid"]}
        return tops, ids

    # ---- rules ---------------------------------------------------------------------------------
    # One Hypothesis rule that dispatches on a drawn operation record: Hypothesis' stateful engine
    # switches whole rules off per run (swarm testing), which would leave most histories without a push.
    @rule(op=_STEP)
    @traced
    def step(self, op):
        args = {k: v for k, v in op.items() if k not in ("op", "remote")}
        self.op = op["op"]
        if self.rems:
            r = op.get("remote", 0)
            self.cur = self.cur if r < 0 else r % len(self.rems)
            self.touched.add(self.cur)
            if len(self.touched) >= 2:
                self.labels.add("steps-on->=2-remotes")
        getattr(self, "do_" + op["op"])(**args)

    def do_push(self, request, form, fail, abort_at, jobs, trees_from, index_abort=None, partial=False):
        from dvc_objects.errors import ObjectDBError, ObjectFormatError

        from dvc_data.hashfile.transfer import transfer

        if self.w is None:
            return
        _tops, ids = self._request(request, form)
        shallow = form == "closed"
        if abort_at is not None and not fail:
            jobs = 1  # which upload is the k-th must not depend on thread scheduling
        req_exp = expand(self.w, ids)
        before = self.listing()
        names_before = self.names()
        idx_before = set(self.index)
        stale = self._stale_before()
        moving = sorted(req_exp - before) or self.w.all_ids
        plan = {moving[i % len(moving)] for i in fail}
        seen = {}

        def validate(st_):
            seen["status"] = st_
            seen["listing"] = self.listing()

        kw = {"shallow": shallow, "jobs": jobs, "dest_index": self.index, "validate_status": validate}
        if trees_from == "remote" and shallow:
            kw["cache_odb"] = self.remote  # what index.push passes
        self._status_evaluated()
        res, aborted = None, False
        inj = Injector([self.remote_root], fail=plan, abort_at=abort_at if not fail else None,
                       partial=bool(partial))
        hook = TxHook(self.index, index_abort)
        with inj, hook:
            try:
                res = transfer(self.cache, self.remote, set(hinfos(ids)), **kw)
            except Abort:
                aborted = True
            except IndexKill:
                aborted = True
            except ObjectFormatError:
                self._excuse_corrupt_dir()
            except ObjectDBError:
                if not (hook.fired and hook.how == "timeout"):
                    raise
                aborted = True
        self.n_faults += len(inj.faulted)
        self.n_aborts += int(aborted and not hook.fired)
        qdirs = {i for i in ids if i.endswith(".dir")}
        if "status" in seen:
            cs = seen["status"]
            self._check_reported(_vals(cs.ok) | _vals(cs.deleted), seen["listing"], "push")
        self._check_cleared(stale, qdirs, "push")
        self._check_validated(qdirs, "push")
        # whatever this push added to the index must have ARRIVED: ids the index gained that were not even a
        # name in the remote before the push (nor listed by a directory that was) must now be there intact -
        # for either store class (a half-written leftover of a failed upload is not a delivery)
        gained = set(self.index) - idx_before
        unarrived = sorted(gained - names_before - self.listed_by(names_before) - self.intact())
        if unarrived:
            self.violate("index-vouches-for-undelivered:push",
                         f"the push added {unarrived} to the index: not in the remote before and not intact "
                         f"there now (failed uploads: {sorted(k for _, k in inj.faulted)}, partial={bool(partial)})")
        if inj.faulted and partial:
            self.labels.add("push-failed-partial-leftover")
            if any(k.endswith(".dir") for _, k in inj.faulted):
                self.labels.add("partial-leftover-of-dir-object")
        self._after_index_abort(hook, index_abort, "push")
        failed = bool(inj.faulted) or aborted or bool(res is not None and res.failed)
        if res is not None and res.failed and not inj.faulted:
            self.labels.add("push-failed-source-missing")
        if failed:
            self.disturbed = True
            self.labels.add("push-aborted" if aborted else "push-failed")
            hit = {k for _, k in inj.faulted} | ({inj.attempts[-1][1]} if inj.aborted else set())
            if hit & self.listed_by({i for i in ids if i.endswith(".dir")}):
                self.labels.add("fault-on-listed-file")
        elif res is not None and res.transferred:
            self.labels.add("push-delivered")
        else:
            self.labels.add("push-noop")
        self.labels.add("push-" + form)
        if EMPTY_DIR in ids:
            self.labels.add("push-requests-empty-dir")

    def do_fetch(self, request, jobs, index_abort=None):
        from dvc_objects.errors import ObjectDBError, ObjectFormatError

        from dvc_data.hashfile.transfer import transfer

        if self.w is None:
            return
        _tops, ids = self._request(request, "closed")
        self.n_fetch += 1
        dest = ops.make_odb("local", os.path.join(self.dir, f"fetch{self.n_fetch}"))
        stale = self._stale_before()
        seen = {}

        def validate(st_):
            seen["status"] = st_
            seen["listing"] = self.listing()

        self._status_evaluated()
        res = None
        hook = TxHook(self.index, index_abort)
        with hook:
            try:
                res = transfer(self.remote, dest, set(hinfos(ids)), jobs=jobs, src_index=self.index,
                               cache_odb=self.cache, shallow=True, validate_status=validate)
            except IndexKill:
                pass
            except ObjectFormatError:
                self._excuse_corrupt_dir()
            except ObjectDBError:
                if not (hook.fired and hook.how == "timeout"):
                    raise
        qdirs = {i for i in ids if i.endswith(".dir")}
        if "status" in seen:
            cs = seen["status"]
            # the destination is empty, so the source was consulted: src_exists = ok | new
            self._check_reported(_vals(cs.ok) | _vals(cs.new), seen["listing"], "fetch")
        self._check_cleared(stale, qdirs, "fetch")
        self._check_validated(qdirs, "fetch")
        self._after_index_abort(hook, index_abort, "fetch")
        if res is None:
            self.labels.add("fetch-interrupted")
        elif res.failed:
            self.disturbed = True
            self.labels.add("fetch-failed")
        elif res.transferred:
            self.labels.add("fetch-delivered")
        else:
            self.labels.add("fetch-nothing-there")

    def do_status(self, query, qdirs, shallow, jobs, trees_from="cache", index_abort=None):
        from dvc_objects.errors import ObjectDBError, ObjectFormatError

        from dvc_data.hashfile.status import status

        if self.w is None:
            return
        udirs = [i for i in self.universe if i.endswith(".dir")]
        q = sorted({self.universe[i % len(self.universe)] for i in query} | {udirs[i % len(udirs)] for i in qdirs})
        if not shallow:
            q = [i for i in q if i != FAKE_DIR] or [FAKE_FILE]
        Q = set(q) if shallow else expand(self.w, q)
        stale = self._stale_before()
        self._status_evaluated()
        # shallow queries may read trees from the remote itself (cache_odb=None); expanded ones need every
        # queried directory loadable, which only the cache guarantees
        cache_odb = None if (trees_from == "remote" and shallow) else self.cache
        res = None
        hook = TxHook(self.index, index_abort)
        with hook:
            try:
                res = status(self.remote, hinfos(q), index=self.index, cache_odb=cache_odb, shallow=shallow,
                             jobs=jobs)
            except IndexKill:
                pass
            except ObjectFormatError:
                self._excuse_corrupt_dir()
            except ObjectDBError:
                if not (hook.fired and hook.how == "timeout"):
                    raise
        now = self.listing()
        if res is not None:
            ex, mi = _vals(res.exists), _vals(res.missing)
            if ex & mi or (ex | mi) != Q:
                self.violate("status-not-a-partition",
                             f"status(index) of {q} (shallow={shallow}): exists {sorted(ex)} / missing "
                             f"{sorted(mi)} do not partition the queried ids {sorted(Q)}")
            self._check_reported(ex, now, "status")
        else:
            self.labels.add("status-interrupted")
        # the index is validated (and cleared) before its first write, so these hold for interrupted calls too
        self._check_cleared(stale, {i for i in q if i.endswith(".dir")}, "status")
        self._check_validated({i for i in q if i.endswith(".dir")}, "status")
        self._after_index_abort(hook, index_abort, "status")
        self.labels.add("status-" + ("shallow" if shallow else "expanded"))
        if any(i.endswith(".dir") for i in q):
            self.labels.add("status-queries-dir")
            if EMPTY_DIR in q:
                self.labels.add("status-queries-empty-dir")
        else:
            self.labels.add("status-files-only")

    def do_delete_remote(self, picks, what):
        if self.w is None:
            return
        have = sorted(self.names())
        if what == "tree":
            # a whole directory disappears (its object and every file it lists), preferably one the index
            # knows something about
            idx = set(self.index)
            dirs = [i for i in have if i.endswith(".dir")]
            known = [i for i in dirs if i in idx or self.w.dir_children[i] & idx]
            dirs = known or dirs
            if not dirs:
                return
            d = dirs[picks[0] % len(dirs)]
            for oid in [d, *sorted(self.w.dir_children[d])]:
                if external_delete(self.remote_root, oid):
                    self.disturbed = True
                    self.labels.add("deleted-tree")
            return
        if what == "indexed-dirs":
            have = [i for i in have if i.endswith(".dir") and i in self.index] or have
        if what == "dirs":
            have = [i for i in have if i.endswith(".dir")]
        elif what == "files":
            have = [i for i in have if not i.endswith(".dir")]
        if not have:
            return
        idx = set(self.index)
        for i in picks:
            oid = have[i % len(have)]
            if external_delete(self.remote_root, oid):
                self.disturbed = True
                self.labels.add("deleted-" + ("dir" if oid.endswith(".dir") else "file"))
                if oid in idx:
                    self.labels.add("deleted-indexed-" + ("dir" if oid.endswith(".dir") else "file"))
                    if oid == EMPTY_DIR:
                        self.labels.add("deleted-indexed-empty-dir")

    def do_delete_cache(self, picks):
        """File objects vanish from the cache: later closed pushes naming them fail for lack of a source
        (directory objects stay, so that trees remain loadable - the precondition of every request)."""
        if self.w is None:
            return
        have = sorted(i for i in ref.store_ids(self.w.cache_root) if not i.endswith(".dir"))
        for i in picks:
            if have and external_delete(self.w.cache_root, have[i % len(have)]):
                self.labels.add("cache-lost-file")

    def do_reopen(self):
        if self.w is None:
            return
        before = (sorted(self.index), sorted(self.index.dir_hashes()))
        self.index.close()
        self.index = None
        self._open()
        after = (sorted(self.index), sorted(self.index.dir_hashes()))
        if after != before:
            self.violate("index-not-persistent",
                         f"index contents changed across close/reopen: {before} -> {after}")
        self.labels.add("reopen" + ("-nonempty" if before[0] else "-empty"))

    # ---- invariants after every step -------------------------------------------------------------
    def check_state(self):
        if self.w is None or not self.rems or any(r.index is None for r in self.rems):
            return
        target = self.cur
        try:
            for r in range(len(self.rems)):
                self.cur = r
                self._check_remote(self.op if r == target else self.op + "@other-remote")
        finally:
            self.cur = target

    def _check_remote(self, op):
        now = self.listing()
        self.ever.update(now)
        idx = set(self.index)
        if self.cur and idx:
            self.labels.add("second-remote-indexed")
        vouched = self.ever | self.listed_by(now)
        invented = sorted(idx - vouched)
        if invented:
            self.violate(f"index-invents:{op}",
                         f"after {op} the index holds {invented}: never delivered to the remote and not listed "
                         f"by any directory object present there")
        flagged = set(self.index.dir_hashes())
        want = {i for i in idx if i.endswith(".dir")}
        if flagged != want:
            self.violate(f"index-dir-flag:{op}",
                         f"after {op} dir_hashes() = {sorted(flagged)} but the '.dir' ids held are {sorted(want)}")
        if idx:
            self.labels.add("index-nonempty")
        if idx - now:
            self.labels.add("index-holds-absent-id")
        if EMPTY_DIR in idx:
            self.labels.add("empty-dir-indexed")
            if EMPTY_DIR not in now:
                self.labels.add("empty-dir-indexed-but-absent")
