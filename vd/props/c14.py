"""C14 - hashing is correct, chunking-independent, and a faithful pass-through."""

import contextlib
import hashlib
import io
import os
import threading

from hypothesis import strategies as st

from .. import gen, ref
from ..ctx import Result, Viol

LEVEL = "exploration"
WORKERS = {"quick": 8, "thorough": 16}
BUDGET_S = {"quick": 45, "thorough": 650}
RULE = (
    "Hypothesis draws a content (segments: pool blocks, random bytes, token text with LF/CRLF/bare CR/"
    "NUL/high bytes, fillers that put the content length or a NUL/CR/LF at 510-513, 1023-1025 and "
    "2^20-1..2^20+1, windows with 148-158 non-text bytes around the 30% sniffing threshold; for md5-dos2unix "
    "through file_md5/hash_file also 64 KiB..1.2 MiB files with CR LF planted across k*2^n (n=9..20), a binary "
    "head before CRLF text, or a text head before a NUL/high-byte region holding a CRLF), an "
    "algorithm spelling (md5 sha1 sha224 sha256 sha512 sha3_256 blake2b blake2s blake3 md5-dos2unix; "
    "lower/upper/mixed case), an entry point (HashStreamFile / Dos2UnixHashStreamFile constructors, "
    "get_hash_stream, fobj_md5 with a drawn chunk size, file_md5 and hash_file on a real file and on a "
    "memory filesystem) and a read-size sequence (>=1, -1 or no argument for the plain stream; >=512 for "
    "the legacy stream; optionally an underlying file object that returns short reads; the stream arm also "
    "draws the wrapped source - BytesIO, real file, read end of an os.pipe, a read()-only object without "
    "tell/seek - and where it stands when wrapped: offset 0/1/16/512/>half reached by a plain read, a seek, or "
    "a first hashing stream on the same object; everything below is then judged on the suffix that went "
    "through the wrapper, and reading total_read must not raise). Oracle: hashlib "
    "on the whole content (blake3: one-shot single-threaded blake3 of the whole content), concatenated "
    "read() results == content == what the underlying file object returned, total_read == cumulative "
    "length after every read (plain stream); at drawn peek positions (before the first read, between reads, "
    "after EOF, twice in a row) hash_value == reference digest of the prefix consumed so far, tell() == the file "
    "object's position, hash_name stable; legacy stream: md5(content.replace(CRLF, LF)) when an "
    "independent re-implementation of the sniffing rule says text, md5(content) otherwise, judged when "
    "the content fits in the first read (and, for several reads, only when the answer does not depend on "
    "per-read sniffing: no CRLF at all, every read binary, or pure text with no CRLF across a read "
    "boundary); CRLF and LF variants of one text that fit one read get the same digest; file_md5(), "
    "file_md5(callback), hash_file(info=None) and hash_file(info=fs.info) of one file agree, and hash_file "
    "with a caller-supplied info whose size is 0 / smaller / larger / missing still gives the digest of the "
    "bytes in the file; the info dict (or the filesystem's info()) may also report digests under field names "
    "md5/etag/checksum/sha256/... (raw md5 of the content, a wrong value, the reference): one under the same "
    "name as the requested algorithm carries the true digest (trusted as documented), one under any other name "
    "must not be substituted. "
    "Non-trivial = >=2 bytes and (>=2 non-empty reads, or legacy with a CRLF, or a file-based entry "
    "point, or a non-lower-case algorithm spelling); distinct = SHA-1 of the case JSON."
)
ASSUMPTIONS = [
    "hashlib is the trusted reference; blake3 has no second implementation offline, so it is checked "
    "metamorphically: every chunking through the library (multi-threaded hasher) must equal one-shot "
    "blake3.blake3(content) with default threading",
    "the legacy stream is only read with sizes >= 512 (its own assertion) and over file objects that "
    "return full reads; its digest for contents spanning several reads is judged only when it cannot "
    "depend on per-read sniffing (the statement claims CRLF/LF equivalence only for one read)",
    "upper/mixed-case spellings of md5-dos2unix are passed to the Dos2UnixHashStreamFile constructor only: "
    "get_hash_stream/fobj_md5/file_md5/hash_file select the legacy stream by the exact lower-case name",
    "total_read is checked for the plain stream only (the legacy stream counts normalised bytes)",
    "atheris booster: optional, thorough tier; recorded as 'booster unavailable' when not importable",
]

MIB = 2**20
TEXT_CHARS = set(range(32, 127)) | {10, 13, 9, 12, 8}
_TEXT_BYTES = bytes(sorted(TEXT_CHARS))
NAMED = ["md5", "sha1", "sha224", "sha256", "sha512", "sha3_256", "blake2b", "blake2s", "blake3"]


def _hashlib_names():
    """Every name hashlib offers here that has a parameterless hexdigest() (shake_* need a length)."""
    out = []
    for n in sorted(hashlib.algorithms_available):
        try:
            hashlib.new(n).hexdigest()
        except (TypeError, ValueError):
            continue
        out.append(n.lower())
    return sorted(set(out))


# hashlib.new()-only algorithms (no named constructor): sha512_224, sha512_256, sm3, ripemd160, md5-sha1 ...
FALLBACK = [n for n in _hashlib_names() if not hasattr(hashlib, n)]
BASES = sorted(set(NAMED) | set(_hashlib_names())) + ["md5-dos2unix"]
LEGACY = "md5-dos2unix"


# ------------------------------------------------------------------------------------------
# reference
# ------------------------------------------------------------------------------------------
def ref_digest(data, base):
    if base == "blake3":
        from blake3 import blake3

        return blake3(data).hexdigest()
    if base == LEGACY:
        return ref.ref_hash(data, LEGACY)
    return hashlib.new(base, data).hexdigest()


def build(segs):
    return b"".join(gen.content_bytes(s) for s in segs)


# ------------------------------------------------------------------------------------------
# generator
# ------------------------------------------------------------------------------------------
TOKENS = [b"a", b"line", b" ", b"\n", b"\r\n", b"\r", b"\t", b"\x00", b"\xc3\xa9", b"\xff", b"\x0c",
          b"\x08", b"\x7f", b"\x1b", b"\n\r", b"\r\r\n", b"word "]
TEXT_TOKENS = [b"a", b"line", b" ", b"\n", b"\r\n", b"\r", b"\t", b"\x0c", b"word ", b"\r\r\n", b"\n\r"]
BLOCKS = [b"q", b"\xc8", b"ab\r\n", b"qqqqqqqqq\n", b"qqqqqqq\r\n\t", b"\xc8\xc9qqqqqqqq", b"\xc8\xc9\xcaqqqqqqq",
          b"\xc8\xc9\xca\xcbqqqqqq", b"\xc8\xc9\xcaqqqqq\r\n", b"\r", b"\n", b"\r\n", b"\x00",
          # 7-bit control bytes (non-text, but ASCII and NUL-free): 30 %, 40 %, 50 %
          b"\x01\x02\x03qqqqq\r\n", b"\x01\x1b\x7f\x02qqqq\r\n", b"\x1b\x01\r\n", b"\x7f"]
EDGE_LEN = [1, 2, 9, 10, 20, 100, 510, 511, 512, 513, 514, 1022, 1023, 1024, 1025, 1536, 4096, 65536]
BIG_LEN = [MIB - 2, MIB - 1, MIB, MIB + 1, MIB + 2, MIB + 511, MIB + 512, 2 * MIB, 2 * MIB + 1]


def _h(b):
    return "h:" + b.hex()


def _filler(total, block):
    n, rest = divmod(total, len(block))
    out = []
    if n:
        out.append(f"r:{n}:{block.hex()}")
    if rest:
        out.append(_h(b"q" * rest))
    return out


@st.composite
def content_segs(draw, big_ok=True, text_only=False):
    toks = TEXT_TOKENS if text_only else TOKENS
    blocks = [b for b in BLOCKS if all(c in TEXT_CHARS for c in b)] if text_only else BLOCKS
    shape = draw(st.sampled_from(["pool", "rnd", "text", "edge", "edge", "edge", "window", "big", "exact30"]))
    segs = []
    if shape == "pool" and not text_only:
        segs.append("p:" + draw(st.sampled_from(sorted(gen.POOL))))
    elif shape == "rnd" and not text_only:
        segs.append(_h(draw(st.binary(max_size=96))))
    elif shape in ("text", "pool", "rnd"):
        segs.append(_h(b"".join(draw(st.lists(st.sampled_from(toks), max_size=24)))))
    elif shape == "edge":
        segs += _filler(draw(st.sampled_from(EDGE_LEN)), draw(st.sampled_from(blocks)))
    elif shape == "window" and not text_only:
        k = draw(st.integers(148, 158))
        w = draw(st.sampled_from([511, 512, 513, 520]))
        nt = draw(st.sampled_from(["c8", "c8", "01", "1b", "7f"]))  # high byte or 7-bit control byte
        if draw(st.booleans()):
            segs += [f"r:{k}:{nt}", f"r:{w - k}:61"]
        else:
            segs += [f"r:{w - k}:61", f"r:{k}:{nt}"]
    elif shape == "exact30" and not text_only:
        # exactly 30 % non-text bytes in a window shorter than 512 (the rule says "more than 30 %" is binary)
        blk = draw(st.sampled_from([b"\xc8\xc9\xcaqqqqq\r\n", b"q\r\n\xc8q\xc9qq\xcaq", b"\xc8\xc9\xca\r\nqqqqq",
                                    b"\x01\x02\x1bqqqqq\r\n"]))
        segs.append(f"r:{draw(st.integers(1, 51))}:{blk.hex()}")
        return segs
    elif shape == "big" and big_ok:
        segs += _filler(draw(st.sampled_from(BIG_LEN)), draw(st.sampled_from(blocks)))
    else:
        segs += _filler(draw(st.sampled_from(EDGE_LEN)), draw(st.sampled_from(blocks)))
    for _ in range(draw(st.integers(0, 3))):
        segs.append(_h(b"".join(draw(st.lists(st.sampled_from(toks), min_size=1, max_size=6)))))
    return segs


POW_K = [1, 2, 3, 4, 8, 16, 32, 64, 128, 256, 512, 1024, 2048]
MID_BLOCKS = [b"q", b"qqqqqqqqq\n", b"word ", b"ab\r\n", b"line of text\r\n", b"0123456789abcde\n"]
MID_SIZES = [65537, 70000, 2**17 + 5, 200000, 2**18, 2**19 + 3, 786432, 1000000, MIB - 1, MIB, MIB + 70000,
             1200000]


@st.composite
def mid_segs(draw):
    """Contents between 64 KiB and ~1.2 MiB, cheap by construction (a small block repeated), with CR LF pairs
    planted so that the CR is the last byte before k*2^n (n in 9..20: every power-of-two read size a reader
    might pick), or with a binary 512-byte head before CRLF text, or a text head before a NUL/high-byte region
    (starting on a 2^n boundary) that holds a CRLF."""
    shape = draw(st.sampled_from(["straddle", "straddle", "bin-head", "text-then-bin"]))
    total = draw(st.one_of(st.sampled_from(MID_SIZES), st.integers(65537, MIB)))
    block = draw(st.sampled_from(MID_BLOCKS))
    unit = 2 ** draw(st.integers(9, 20))
    kmax = max(1, (total - 2) // unit)
    ks = draw(st.lists(st.one_of(st.integers(1, kmax), st.sampled_from(POW_K)), min_size=1, max_size=3))
    segs = []
    cur = 0
    if shape == "bin-head":
        head = draw(st.sampled_from([b"\x00", b"BM\x00\x00", b"\xc8" * 200]))
        segs.append(_h(head))
        cur = len(head)
        if b"\r\n" not in block:
            block = b"line of text\r\n"
    for p in sorted({k * unit for k in ks}):
        if p - 1 < cur or p + 1 >= total:
            continue
        segs += _filler(p - 1 - cur, block)
        if shape == "text-then-bin":
            # CR | region of NULs or high bytes starting on the boundary, with a CRLF inside
            fill = draw(st.sampled_from(["00", "c8"]))
            n = draw(st.sampled_from([600, 4096, 70000]))
            segs += ["h:71", f"r:{n}:{fill}", "h:0d0a", f"r:{n}:{fill}"]
            cur = p + 2 * n + 2
        else:
            segs.append("h:0d0a")
            cur = p + 1
    if cur < total:
        segs += _filler(total - cur, block)
    return segs


def spell(base, mask):
    if mask == 0:
        return base
    if mask == 1:
        return base.upper()
    if mask == 2:
        return base.title()
    return "".join(c.upper() if (mask >> (i % 5 + 2)) & 1 else c for i, c in enumerate(base))


PLAIN_READS = st.one_of(
    st.sampled_from([1, 2, 3, 7, 64, 511, 512, 513, 1024, 4096, 65536, MIB - 1, MIB, MIB + 1, -1, None]),
    st.integers(1, 2000),
)
LEGACY_READS = st.one_of(
    st.sampled_from([512, 513, 514, 1023, 1024, 1025, 4096, 65536, MIB - 1, MIB, MIB + 1, 4 * MIB]),
    st.integers(512, 3000),
)


# read indices before which hash_value / total_read / tell / hash_name are looked at (0 = before any read);
# a non-empty list also peeks after EOF
PEEKS = st.lists(st.integers(0, 5), max_size=4)
# (field name, value kind) pairs added to the info dict hash_file works from. Kinds: the raw md5 of the content,
# a wrong value, the reference digest of the content under the case's algorithm.
REPORTED = st.lists(
    st.tuples(st.sampled_from(["md5", "md5", "etag", "checksum", "sha256", "md5-dos2unix", "blake3", "sha1"]),
              st.sampled_from(["raw-md5", "raw-md5", "wrong", "ref"])).map(list),
    min_size=1, max_size=3)
PRE = ["h:78", "p:hello", "p:crlf", "p:A", "h:00ff", "p:b513", "p:C"]


@st.composite
def cases(draw):
    entry = draw(st.sampled_from(["stream", "stream", "stream", "fobj", "fobj", "file", "hash_file", "pair"]))
    base = draw(st.sampled_from(BASES + [LEGACY] * 5 + ["md5"] * 2 + FALLBACK))
    if entry == "pair":
        base = LEGACY
    legacy = base == LEGACY
    mask = draw(st.sampled_from([0, 0, 0, 1, 2, 5, 10, 21, 44, 127]))
    case = {"entry": entry}
    if entry == "stream":
        via = draw(st.sampled_from(["ctor", "factory"]))
        if legacy and via == "factory":
            mask = 0
        case["via"] = via
        case["reads"] = draw(st.lists(LEGACY_READS if legacy else PLAIN_READS, min_size=1, max_size=6))
        case["short"] = [] if legacy else draw(st.sampled_from([[], [], [], [1], [3, 700], [512], [100000]]))
        case["peeks"] = draw(PEEKS)
        # what the stream wraps, and where that source stands when it is wrapped
        kind = draw(st.sampled_from(["bytesio", "bytesio", "file", "pipe", "readonly"]))
        case["source"] = {
            "kind": kind,
            "offset": draw(st.sampled_from([0, 0, 1, 16, 512, "half"])),
            # bytes before the offset were consumed by: a plain read, a seek, or a first hashing stream
            "how": draw(st.sampled_from(["read", "seek", "stream"] if kind in ("bytesio", "file")
                                        else ["read", "stream"])),
        }
    elif entry == "fobj":
        if legacy:
            mask = 0
        case["chunk"] = draw(st.one_of(st.none(), LEGACY_READS if legacy else PLAIN_READS.filter(
            lambda n: n is not None and n > 0)))
        case["short"] = [] if legacy else draw(st.sampled_from([[], [], [1], [3, 700], [512], [100000]]))
    elif entry == "file":
        if legacy:
            mask = 0
        case["fs"] = draw(st.sampled_from(["local", "mem"]))
        case["callback"] = draw(st.booleans())
        case["size_arg"] = draw(st.sampled_from(["none", "true"]))
    elif entry == "hash_file":
        mask = 0
        case["fs"] = draw(st.sampled_from(["local", "mem"]))
        # caller-supplied info: none, honest fs.info(), or a stale/lying one (size 0 / smaller / larger / missing)
        case["info"] = draw(st.sampled_from([False, True, True, "zero", "zero", "smaller", "larger", "missing"]))
        # digests the info / the filesystem already reports under algorithm-like field names
        case["reported"] = draw(st.one_of(st.just([]), REPORTED, REPORTED))
        case["reported_via"] = draw(st.sampled_from(["info", "info", "fs"]))
    elif entry == "pair":
        mask = 0
        case["sub"] = draw(st.sampled_from(["stream", "fobj", "file"]))
        case["slack"] = draw(st.sampled_from([0, 0, 1, 100, MIB]))
        case["crlf_at"] = draw(st.lists(st.integers(0, 400), min_size=1, max_size=8))
        case["peeks"] = draw(PEEKS)
        case["content"] = draw(content_segs(big_ok=False, text_only=draw(st.sampled_from([True, True, False]))))
    if "content" not in case and legacy and entry in ("file", "hash_file") and draw(st.integers(0, 2)) > 0:
        case["content"] = draw(mid_segs())
    if "content" not in case:
        case["content"] = draw(content_segs(text_only=legacy and draw(st.booleans())))
    case["algo"] = spell(base, mask)
    # hashed first, with the same algorithm name through the same entry point ("twice in a row"); never empty
    case["pre"] = draw(st.sampled_from(PRE))
    return case


# ------------------------------------------------------------------------------------------
# execution
# ------------------------------------------------------------------------------------------
class Spy:
    """Underlying binary file object: logs what it hands out; optionally returns short reads."""

    def __init__(self, data, short=(), can_tell=True):
        # `data`: bytes (wrapped in a BytesIO) or an already opened/positioned raw source object
        self.b = io.BytesIO(data) if isinstance(data, bytes) else data
        self.can_tell = can_tell
        self.short = list(short)
        self.i = 0
        self.log = []

    def read(self, n=-1):
        if self.short and n is not None and n > 0 and self.i < MAX_READS:
            n = min(n, self.short[self.i % len(self.short)])
            self.i += 1
        chunk = self.b.read(n)
        self.log.append(chunk)
        return chunk

    def tell(self):
        return self.b.tell()  # pipe: OSError, read-only object: AttributeError - like the raw source itself


class ReadOnly:
    """A minimal binary source: read() and nothing else (no tell, no seek)."""

    def __init__(self, data):
        self._b = io.BytesIO(data)

    def read(self, n=-1):
        return self._b.read(n)


@contextlib.contextmanager
def open_source(kind, content, ctx):
    """Yield a readable binary source positioned at 0: BytesIO, a real file, the read end of an os.pipe fed by
    a writer thread (joined before the case ends), or a read()-only object."""
    if kind == "file":
        with ctx.tmpdir() as d:
            p = os.path.join(d, "src.bin")
            with open(p, "wb") as f:
                f.write(content)
            with open(p, "rb") as f:
                yield f
    elif kind == "pipe":
        rfd, wfd = os.pipe()

        def writer():
            try:
                with os.fdopen(wfd, "wb") as w:
                    w.write(content)
            except OSError:
                pass  # reader went away early (a violation ended the case)

        t = threading.Thread(target=writer, daemon=True)
        t.start()
        r = os.fdopen(rfd, "rb")
        try:
            yield r
        finally:
            r.close()
            t.join()
    elif kind == "readonly":
        yield ReadOnly(content)
    else:
        yield io.BytesIO(content)


def counted(stream, viols, tag):
    """stream.total_read, or None (+ violation) if merely reading the counter raises."""
    try:
        return stream.total_read
    except Exception as exc:  # noqa: BLE001
        viols.append(Viol(f"total_read-raises:{tag}", f"reading total_read raised {type(exc).__name__}: {exc}"))
        return None


MAX_READS = 1500


def legacy_expected(content, chunks):
    """Expected legacy digest given the non-empty chunks the stream saw, or None if the property is
    silent (the answer would depend on per-read sniffing)."""
    chunks = [c for c in chunks if c]
    if len(chunks) <= 1:
        return ref.ref_hash(content, LEGACY), "one-read-" + ("text" if ref.ref_istext(content) else "binary")
    if b"\r\n" not in content:
        return hashlib.md5(content).hexdigest(), "multi-no-crlf"  # noqa: S324
    if all(not ref.ref_istext(c) for c in chunks):
        return hashlib.md5(content).hexdigest(), "multi-all-binary"  # noqa: S324
    if not content.translate(None, _TEXT_BYTES):
        straddle = any(a.endswith(b"\r") and b.startswith(b"\n") for a, b in zip(chunks, chunks[1:]))
        if not straddle:
            return hashlib.md5(content.replace(b"\r\n", b"\n")).hexdigest(), "multi-pure-text"  # noqa: S324
        return None, "multi-crlf-straddles-reads"
    return None, "multi-unjudged"


def peek(stream, spy, out, cum, legacy, base, viols, tag, names):
    """Look at hash_value (twice), total_read, tell, hash_name between reads: the digest so far must be the
    reference digest of the prefix consumed so far (legacy stream: where legacy_expected can judge it)."""
    consumed = b"".join(out)
    hv1, hv2 = stream.hash_value, stream.hash_value
    if hv1 != hv2:
        viols.append(Viol(f"digest-unstable:{tag}", f"hash_value read twice in a row: {hv1} then {hv2}"))
    want = legacy_expected(consumed, out)[0] if legacy else ref_digest(consumed, base)
    if want is not None and hv1 != want:
        viols.append(Viol(f"digest:peek:{tag}", f"hash_value after {len(consumed)} bytes ({len(out)} reads) is {hv1}, "
                                                f"reference digest of that prefix {want}"))
    if not legacy:
        tr = counted(stream, viols, tag)
        if tr is not None and tr != cum:
            viols.append(Viol(f"total_read:{tag}", f"total_read={tr} after {cum} bytes were read through the stream"))
    if spy.can_tell and stream.tell() != spy.tell():
        viols.append(Viol(f"tell:{tag}", f"tell()={stream.tell()} but the file object is at {spy.tell()}"))
    names.add(stream.hash_name)
    if len(names) > 1:
        viols.append(Viol(f"hash_name-changed:{tag}", f"hash_name took the values {sorted(names)}"))


def drive_stream(stream, spy, reads, legacy, viols, tag, peeks=(), base=None):
    """Read the stream to EOF with the given size sequence, peeking at the digest before the read indices in
    `peeks` (0 = before the first read) and after EOF. Returns the list of returned chunks."""
    out = []
    cum = 0
    k = 0
    names = set()
    peeks = set(peeks)
    while True:
        n = reads[k % len(reads)]
        if k >= MAX_READS:
            n = max(n or 0, 4 * MIB)
        if k in peeks:
            peek(stream, spy, out, cum, legacy, base, viols, tag, names)
            if viols:
                return out
        k += 1
        before = len(spy.log)
        chunk = stream.read() if n is None else stream.read(n)
        handed = b"".join(spy.log[before:])
        if chunk != handed or type(chunk) is not bytes:
            viols.append(Viol(f"passthrough:{tag}", f"read({n}) returned {chunk[:40]!r}... ({len(chunk)} B) but "
                                                    f"the file object handed out {handed[:40]!r}... ({len(handed)} B)"))
            return out
        if n is not None and n > 0 and len(chunk) > n:
            viols.append(Viol(f"overlong-read:{tag}", f"read({n}) returned {len(chunk)} bytes"))
            return out
        cum += len(chunk)
        if not legacy:
            tr = counted(stream, viols, tag)
            if tr is None:
                return out
            if tr != cum:
                viols.append(Viol(f"total_read:{tag}", f"total_read={tr} after {cum} bytes were read through the "
                                                       f"stream"))
                return out
        out.append(chunk)
        if not chunk:
            if peeks:
                peek(stream, spy, out, cum, legacy, base, viols, tag, names)
            return out


def check_digest(got, content, base, chunks, viols, classes, tag):
    if base == LEGACY:
        want, label = legacy_expected(content, chunks)
        classes.append("legacy:" + label)
        if want is None:
            return
        if got != want:
            viols.append(Viol(f"digest:{tag}:legacy:{label.split('-')[0]}",
                              f"md5-dos2unix digest {got} != reference {want} ({label}, {len(content)} B, "
                              f"reads {[len(c) for c in chunks][:6]})"))
        return
    want = ref_digest(content, base)
    if got != want:
        viols.append(Viol(f"digest:{tag}", f"{base} digest {got} != reference {want} for {len(content)} bytes "
                                           f"(reads {[len(c) for c in chunks][:6]})"))


def make_stream(case, spy, base):
    from dvc_data.hashfile.hash import Dos2UnixHashStreamFile, HashStreamFile, get_hash_stream

    if case.get("via") == "factory":
        return get_hash_stream(spy, case["algo"])
    cls = Dos2UnixHashStreamFile if base == LEGACY else HashStreamFile
    return cls(spy, hash_name=case["algo"])


def chunks_of(content, size):
    return [content[i:i + size] for i in range(0, len(content), size)]


def put_file(case, ctx_dir, content):
    """-> (fs, path)"""
    if case["fs"] == "local":
        from dvc_objects.fs.local import LocalFileSystem

        p = os.path.join(ctx_dir, "data.bin")
        with open(p, "wb") as f:
            f.write(content)
        return LocalFileSystem(), p
    from dvc_objects.fs.memory import MemoryFileSystem

    fs = MemoryFileSystem(global_store=False)
    fs.fs.pipe_file("/d/data.bin", content)
    return fs, "/d/data.bin"


def crlf_variant(content, positions):
    """Turn the LFs (not already preceded by CR) selected by `positions` into CRLF."""
    lfs = [i for i, b in enumerate(content) if b == 10 and (i == 0 or content[i - 1] != 13)]
    if not lfs:
        return content
    pick = {lfs[p % len(lfs)] for p in positions}
    out = bytearray()
    for i, b in enumerate(content):
        if i in pick:
            out += b"\r\n"
        else:
            out.append(b)
    return bytes(out)


def digest_via(sub, content, slack, d, viols, tag, peeks=()):
    """Legacy digest of `content` through an entry point, with the content fitting in one read."""
    from dvc_data.hashfile.hash import file_md5, fobj_md5, get_hash_stream

    if sub == "stream":
        spy = Spy(content)
        stream = get_hash_stream(spy, LEGACY)
        got = drive_stream(stream, spy, [max(512, len(content) + slack)], True, viols, tag, peeks, LEGACY)
        if b"".join(got) != content:
            viols.append(Viol(f"bytes-altered:{tag}", "legacy stream did not hand on the content unchanged"))
        return stream.hash_value
    if sub == "fobj":
        return fobj_md5(io.BytesIO(content), chunk_size=max(512, len(content) + slack), name=LEGACY)
    from dvc_objects.fs.local import LocalFileSystem

    p = os.path.join(d, f"pair-{tag}.bin")
    with open(p, "wb") as f:
        f.write(content)
    return file_md5(p, LocalFileSystem(), name=LEGACY)


def supplied_info(fs, path, form, real):
    """The `info` a caller hands to hash_file: None, the honest fs.info(), or one whose size is stale/wrong
    (a listing taken before the file was written, a pseudo-file reporting 0, an index Meta recorded earlier).
    The reported size only sizes the progress bar; the digest is that of the bytes in the file."""
    if not form:
        return None
    info = dict(fs.info(path))
    if form == "zero":
        info["size"] = 0
    elif form == "smaller":
        info["size"] = real // 2
    elif form == "larger":
        info["size"] = 2 * real + 4097
    elif form == "missing":
        info.pop("size", None)
    return info


def reported_fields(case, base, content):
    """Fields for the info dict. A digest reported under the SAME name as the requested algorithm is trusted by
    the code as documented, so there only the true digest is supplied; under any other name the value is
    arbitrary (raw md5, wrong, reference) and must never be substituted for the requested digest."""
    out = {}
    for field, kind in case.get("reported") or []:
        if field == base or kind == "ref":
            want = ref_digest(content, base) if (base != LEGACY or len(content) <= MIB) else None
            if want is None:
                continue
            out[field] = want
        elif kind == "raw-md5":
            out[field] = hashlib.md5(content).hexdigest()  # noqa: S324
        else:
            out[field] = "0123456789abcdef0123456789abcdef"
    return out


def reporting_fs(fs, extra):
    """The same filesystem, whose info() additionally reports `extra` (as a DataFileSystem / cloud listing would)."""
    cls = type(fs)

    class Reporting(cls):  # type: ignore[misc, valid-type]
        def info(self, path, **kw):
            return {**super().info(path, **kw), **extra}

    new = Reporting.__new__(Reporting)
    new.__dict__.update(fs.__dict__)
    return new


def pre_digest(case, base, data, ctx):
    """Digest of `data` with the case's algorithm spelling through the case's entry point (one read)."""
    from dvc_data.hashfile.hash import file_md5, fobj_md5, hash_file

    entry = case["entry"]
    if entry == "stream":
        spy = Spy(data)
        stream = make_stream(case, spy, base)
        while stream.read(max(512, len(data))):
            pass
        return stream.hash_value
    if entry == "fobj":
        return fobj_md5(io.BytesIO(data), name=case["algo"])
    with ctx.tmpdir() as d:
        fs, path = put_file(case, d, data)
        if entry == "file":
            return file_md5(path, fs, name=case["algo"])
        return hash_file(path, fs, case["algo"])[1].value


def run_case(case, ctx):
    from dvc_data.hashfile.hash import file_md5, fobj_md5, hash_file

    content = build(case["content"])
    algo = case["algo"]
    base = algo.lower()
    legacy = base == LEGACY
    entry = case["entry"]
    viols, classes = [], [f"entry={entry}", f"algo={base}"]
    nreads = 1
    if algo != base:
        classes.append("case-variant")
    if base in FALLBACK:
        classes.append("hashlib.new-only-algo")
    if case.get("pre") and entry != "pair":
        pre = gen.content_bytes(case["pre"])
        got = pre_digest(case, base, pre, ctx)
        want = ref_digest(pre, base)
        classes.append("twice-in-a-row")
        if got != want:
            viols.append(Viol(f"digest:first-of-two:{entry}", f"{base} digest of the first content ({len(pre)} B) is "
                                                              f"{got}, reference {want}"))

    if entry == "stream":
        src = case.get("source") or {"kind": "bytesio", "offset": 0, "how": "read"}
        tag = "stream"
        want_off = len(content) // 2 + 1 if src["offset"] == "half" else src["offset"]
        want_off = min(want_off, len(content))
        seekable = src["kind"] in ("bytesio", "file")
        with open_source(src["kind"], content, ctx) as raw:
            start = 0
            if want_off and src["how"] == "seek":
                raw.seek(want_off)
                start = want_off
            elif want_off and src["how"] == "read":
                start = len(raw.read(want_off))
            elif want_off:
                # a first hashing stream consumed the head; the judged one starts where it stopped
                spy1 = Spy(raw, can_tell=seekable)
                first = make_stream(case, spy1, base)
                head = first.read(max(512, want_off) if legacy else want_off)
                start = len(head)
                if head != content[:start]:
                    viols.append(Viol("passthrough:first-stream", "first stream did not hand on the head unchanged"))
                check_digest(first.hash_value, head, base, [head], viols, [], "first-stream")
                if not legacy and counted(first, viols, "first-stream") not in (None, start):
                    viols.append(Viol("total_read:first-stream", f"first stream handed on {start} bytes, "
                                                                 f"total_read={first.total_read}"))
                classes.append("second-stream-on-one-source")
            suffix = content[start:]
            spy = Spy(raw, case["short"], can_tell=seekable)
            stream = make_stream(case, spy, base)
            chunks = [] if viols else drive_stream(stream, spy, case["reads"], legacy, viols, tag,
                                                   case.get("peeks", []), base)
            if not viols:
                if b"".join(chunks) != suffix:
                    viols.append(Viol(f"bytes-altered:{tag}", f"concatenated reads ({sum(map(len, chunks))} B) != "
                                                              f"the source from offset {start} ({len(suffix)} B)"))
                check_digest(stream.hash_value, suffix, base, chunks, viols, classes, tag)
        classes.append("source=" + src["kind"])
        if start:
            classes.append("start-offset>0")
        if case.get("peeks"):
            classes.append("peeks")
            if 0 in case["peeks"]:
                classes.append("peek-before-first-read")
        nreads = sum(1 for c in chunks if c)
        classes.append("via=" + case["via"])
        if case["short"]:
            classes.append("short-reads")
        if any(n in (-1, None) for n in case["reads"]):
            classes.append("read-all")
        content = suffix
    elif entry == "fobj":
        spy = Spy(content, case["short"])
        # bound the number of reads: tiny chunk sizes are scaled up for large contents
        kw = {} if case["chunk"] is None else {"chunk_size": max(case["chunk"], -(-len(content) // MAX_READS))}
        got = fobj_md5(spy, name=algo, **kw)
        chunks = list(spy.log)
        if b"".join(chunks) != content:
            viols.append(Viol("fobj-not-drained", f"fobj_md5 consumed {sum(map(len, chunks))} of {len(content)} bytes"))
        else:
            check_digest(got, content, base, chunks, viols, classes, "fobj_md5")
        nreads = sum(1 for c in chunks if c)
        if case["short"]:
            classes.append("short-reads")
    elif entry in ("file", "hash_file"):
        with ctx.tmpdir() as d:
            fs, path = put_file(case, d, content)
            classes.append("fs=" + case["fs"])
            chunks = chunks_of(content, MIB)
            if entry == "file":
                kw = {}
                cb = None
                if case["callback"]:
                    from fsspec.callbacks import Callback

                    cb = Callback()
                    kw["callback"] = cb
                    classes.append("callback")
                if case["size_arg"] == "true":
                    kw["size"] = len(content)
                got = file_md5(path, fs, name=algo, **kw)
                check_digest(got, content, base, chunks, viols, classes, "file_md5")
            else:
                info = supplied_info(fs, path, case["info"], len(content))
                if isinstance(case["info"], str):
                    classes.append("hash_file-info-size=" + case["info"])
                extra = reported_fields(case, base, content)
                hfs = fs
                if extra:
                    classes.append("hash_file-info-reports-digests")
                    if any(f != base for f in extra):
                        classes.append("hash_file-info-reports-other-name:" + ("legacy" if legacy else "plain"))
                    if case.get("reported_via") == "fs":
                        hfs = reporting_fs(fs, extra)
                        info = None if info is None else {**info, **extra}
                        classes.append("hash_file-fs-reports-digests")
                    else:
                        info = {**(info or fs.info(path)), **extra}
                meta, hi = hash_file(path, hfs, algo, info=info)
                if hi.name != algo:
                    viols.append(Viol("hash_file-name", f"hash_file returned name {hi.name!r} for {algo!r}"))
                check_digest(hi.value, content, base, chunks, viols, classes, "hash_file")
            # call-form independence: the digest of one file under one algorithm does not depend on how it is asked for
            from fsspec.callbacks import Callback

            forms = {
                "file_md5()": file_md5(path, fs, name=algo),
                "file_md5(callback=...)": file_md5(path, fs, name=algo, callback=Callback()),
                "hash_file(info=None)": hash_file(path, fs, base)[1].value,
                "hash_file(info=fs.info)": hash_file(path, fs, base, info=fs.info(path))[1].value,
            }
            if len(set(forms.values())) > 1:
                viols.append(Viol("call-form-dependent", f"{base} digest of one {len(content)}-byte file depends on the "
                                                         f"call form: {forms}"))
            with fs.open(path, "rb") as f:
                if f.read() != content:
                    viols.append(Viol("source-altered", "hashing changed the file"))
        nreads = len(chunks)
        if legacy and 65536 < len(content) <= MIB:
            classes.append("legacy-file-64KiB..1MiB")
            if any(content[k - 1:k + 1] == b"\r\n" for k in range(65536, len(content), 65536)):
                classes.append("legacy-file-crlf-across-64KiB-multiple")
            if ref.ref_istext(content) != ref.ref_istext(content[65536:]):
                classes.append("legacy-file-head-vs-later-chunk-differ")
    elif entry == "pair":
        lf = content
        if not any(b == 10 and (i == 0 or content[i - 1] != 13) for i, b in enumerate(content)):
            lf = content + b"\nlast line\n"  # no bare LF to convert: give the text one
        crlf = crlf_variant(lf, case["crlf_at"])
        both_text = ref.ref_istext(lf) and ref.ref_istext(crlf)
        with ctx.tmpdir() as d:
            g1 = digest_via(case["sub"], lf, case["slack"], d, viols, "lf", case.get("peeks", []))
            g2 = digest_via(case["sub"], crlf, case["slack"], d, viols, "crlf", case.get("peeks", []))
        classes.append("pair:" + case["sub"])
        fits = case["sub"] != "file" or max(len(lf), len(crlf)) <= MIB
        if fits:
            for label, data, got in (("lf", lf, g1), ("crlf", crlf, g2)):
                want = ref.ref_hash(data, LEGACY)
                if got != want:
                    viols.append(Viol(f"digest:pair:{'text' if ref.ref_istext(data) else 'binary'}",
                                      f"md5-dos2unix of the {label} variant ({len(data)} B) is {got}, reference {want}"))
            if both_text and crlf != lf:
                classes.append("pair:text-variants-differ")
                if g1 != g2:
                    viols.append(Viol("crlf-lf-differ", f"CRLF and LF variants of one text hash differently: {g2} vs {g1}"))
                if b"\r" not in lf and g1 != hashlib.md5(lf).hexdigest():  # noqa: S324
                    viols.append(Viol("digest:pair:lf-plain", "LF-only text must hash to its plain md5"))
            elif not both_text:
                classes.append("pair:binary-or-mixed")
            else:
                classes.append("pair:no-lf-to-convert")
        nreads = 1
        content = crlf
    else:
        raise ValueError(entry)

    n = len(content)
    if n == 0:
        classes.append("len=0")
    elif n == 1:
        classes.append("len=1")
    elif 510 <= n <= 514:
        classes.append("len~512")
    elif MIB - 2 <= n <= MIB + 2:
        classes.append("len~1MiB")
    elif n > MIB + 2:
        classes.append("len>1MiB")
    if b"\r\n" in content:
        classes.append("has-crlf")
    if content[511:513] == b"\r\n":
        classes.append("crlf-across-512")
    if content[511:512] == b"\x00":
        classes.append("nul@511")
    if content[512:513] == b"\x00":
        classes.append("nul@512")
    if b"\x00" in content[513:] and b"\x00" not in content[:512]:
        classes.append("nul-only-after-window")
    if n and not ref.ref_istext(content):
        classes.append("ref-binary")
    if n >= 10:
        frac = sum(1 for b in content[:512] if b not in TEXT_CHARS) / min(n, 512)
        if 0.28 <= frac <= 0.32 and 0 not in content[:512]:
            classes.append("near-30%-threshold")
    if nreads >= 2:
        classes.append("multi-read")
    nontrivial = n >= 2 and (
        nreads >= 2
        or (legacy and b"\r\n" in content)
        or entry in ("file", "hash_file", "pair")
        or algo != base
    )
    return Result(viols, nontrivial, classes)


def run(ctx):
    try:
        import atheris  # noqa: F401

        booster = True
    except ImportError:
        booster = False
    if ctx.tier == "thorough" and ctx.worker == 0:
        if not booster:
            ctx.notes.append("atheris booster unavailable (not importable); Hypothesis alone decides")
            ctx.counters["booster_unavailable"] += 1
        else:
            from . import c14_booster

            c14_booster.run(ctx)
    ctx.run_given(cases(), run_case, ctx.n(quick=1800, thorough=40000))


def replay(case, ctx):
    ctx.exec_case(case, run_case)
