"""C06 - garbage collection removes exactly the unused objects and never a used one."""

import hashlib
import os

from hypothesis import strategies as st

from .. import gen, ops, ref
from ..ctx import Result, Viol

LEVEL = "exploration"
WORKERS = {"quick": 8, "thorough": 16}
BUDGET_S = {"quick": 50, "thorough": 600}
RULE = (
    "Hypothesis draws store contents (0-3 staged trees over a small shared content pool + loose "
    "files, transferred into a LocalHashFileDB or HashFileDB), a used set (present ids by index, "
    "absent ids, ids carried by a foreign algorithm name, optionally the id of a staged directory without "
    "files whose object is the empty listing; directory objects stored in canonical form, re-serialised with other "
    "whitespace, or in the library's with-metadata form, optionally left writable), mode shallow/expanding (optionally "
    "with a separate cache_odb that holds the directory objects), dry/real, read_only, and in 1 of "
    "15 cases 999-2300 further unused objects (paged listing/removal). Oracle: "
    "set difference computed from a direct os.walk of the store and the raw .dir bytes. "
    "Non-trivial = >=1 directory object, >=1 unused object, non-empty used set and one of "
    "{expanding, absent id, foreign-algorithm id}; distinct = SHA-1 of the canonical case JSON."
)
ASSUMPTIONS = [
    "in expanding mode every used directory id is loadable from cache_odb (absent ids are file ids)",
    "hashlib and the hand-written listing parser are the trusted reference",
    "the per-prefix traversal of ObjectDB.all() is reached by staging 20-24 manufactured contents whose md5 starts with '00' (needs fs.jobs >= 16, i.e. >= 4 cpus)",
]


@st.composite
def cases(draw):
    trees = draw(st.lists(gen.trees(max_files=5, max_depth=2, content=gen.small_contents()),
                          min_size=0, max_size=3))
    loose = draw(st.lists(gen.small_contents() | gen.contents(), max_size=3))
    used = draw(st.lists(
        st.one_of(
            st.tuples(st.just("present"), st.integers(0, 30)),
            st.tuples(st.just("present"), st.integers(0, 30)),
            st.tuples(st.just("dir"), st.integers(0, 3)),
            st.tuples(st.just("absent"), st.integers(0, 5)),
            st.tuples(st.just("foreign"), st.integers(0, 30)),
        ), max_size=6))
    return {
        "kind": draw(st.sampled_from(ops.STORE_KINDS)),
        "trees": trees,
        "loose": loose,
        "used": [list(u) for u in used],
        "shallow": draw(st.booleans()),
        "dry": draw(st.sampled_from([False, False, True])),
        "read_only": draw(st.sampled_from([False, False, False, False, True])),
        "sep_cache": draw(st.booleans()),
        "drop_dir": draw(st.sampled_from([False, False, True])),
        # >= 16 objects whose id starts with '00' switch ObjectDB.all() from one full listing to the
        # per-prefix traversal (remote size is estimated from the '00' bucket)
        "zeros": draw(st.sampled_from([0, 0, 0, 0, 20, 24])),
        # the collected store's own algorithm (legacy stores are named md5-dos2unix)
        "algo": draw(st.sampled_from(["md5", "md5", "md5-dos2unix", "sha256", "sha1"])),
        # legacy `<oid>.dir.unpacked` leftovers next to directory objects (gc cleans them up for compatibility)
        "unpacked": draw(st.sampled_from([0, 0, 1, 3])),
        # everything after the first top-level object is added through a SECOND handle on the same store,
        # while gc runs through the first, long-lived one (its per-handle bookkeeping must not matter)
        "two_handles": draw(st.booleans()),
        # `used` is typed Iterable[HashInfo]: callers pass lists, sets and one-shot generators
        "used_form": draw(st.sampled_from(["list", "set", "generator", "chain"])),
        # many further unused file objects written straight into the store: listing / removal in pages
        # (fs.LIST_OBJECT_PAGE_SIZE = 1000) and batches must behave like the small case
        "bulk": draw(st.sampled_from([0] * 56 + [999, 1000, 1001, 2300])),
        # one shard as full as a shard of a 500k-object store (the size estimate of dvc_objects lists the
        # first shard and caps that listing at max(TRAVERSE_THRESHOLD_SIZE, ...)/256 = 1953 names when it is
        # handed a non-empty id set): [n unused objects, shard]
        "dense": draw(st.sampled_from([None] * 44 + [[1953, "00"], [1956, "00"], [2100, "00"], [2100, "ff"]])),
        # spelling of the store path handed to the object store (listing yields normalised paths)
        "path_form": draw(st.sampled_from(["plain", "plain", "plain", "trailing-sep", "dotdot", "dot", "double-sep"])),
        # name carried by the foreign-algorithm used ids
        "foreign": draw(st.sampled_from(["sha256", "md5-family", "md5-family"])),
        # a further staged directory WITHOUT files (its directory object is the empty listing `[]`):
        # None / "used" (its id is in the used set) / "unused"
        "empty_dir": draw(st.sampled_from([None, None, None, "used", "used", "unused"])),
        # stored form of the directory objects: canonical (None) / the same listing re-serialised with other
        # whitespace ("respaced", e.g. written by another tool) / the library's own with-metadata form
        # (Tree.digest(with_meta=True) + add_update_tree stores it under the metadata-free id; readable by gc's
        # Tree.load only where the store's algorithm names the entries' digest field, i.e. legacy stores).
        # Such an object does not hash to its name; "unprotect" leaves it writable in a local store (a restored
        # / copied store without permission bits) - gc must still treat a used one as used, dry or not
        "dir_form": draw(st.sampled_from([None, None, None, "respaced", "with-meta"])),
        "dir_unprotect": draw(st.booleans()),
    }


_DENSE = {}


def _dense(algo, shard, n):
    """n distinct contents whose reference digest under `algo` starts with `shard` (found by search)."""
    key = (algo, shard)
    have = _DENSE.setdefault(key, [])
    j = len(have) and have[-1][0] + 1
    while len(have) < n:
        data = b"dense object %d" % j  # (no CRLF: same id for both md5 flavours)
        # (plain text without CR: the legacy flavour hashes it like md5)
        if hashlib.new("md5" if algo.startswith("md5") else algo, data).hexdigest().startswith(shard):
            have.append((j, data))
        j += 1
    return [d for _, d in have[:n]]


def _stage(odb, path, algo):
    """stage+transfer through the library for the md5 flavours; for other algorithms (whose build() path is the
    external-output one) write reference objects straight into the store. Returns the top-level id."""
    if algo.startswith("md5"):
        _, obj, _ = ops.stage_transfer(odb, path)
        return obj.hash_info.value

    def put(oid, data):
        p = odb.oid_to_path(oid)
        if not os.path.exists(p):
            gen.write_file(p, data)
            os.chmod(p, 0o444)

    if os.path.isdir(path):
        flat = {}
        for r, _d, fs_ in os.walk(path):
            for f in fs_:
                full = os.path.join(r, f)
                flat[os.path.relpath(full, path).replace(os.sep, "/")] = ref.read(full)
        man = ref.tree_manifest(flat, algo)
        for rel, oid in man.items():
            put(oid, flat[rel])
        top = ref.ref_tree_oid(man, algo)
        put(top, ref.ref_tree_bytes(man, algo))
        odb._dirs = None
        return top
    data = ref.read(path)
    put(ref.ref_hash(data, algo), data)
    odb._dirs = None
    return ref.ref_hash(data, algo)


ABSENT = ["d41d8cd98f00b204e9800998ecf8427f", "0" * 32, "f" * 32, "00112233445566778899aabbccddeeff",
          "abcdefabcdefabcdefabcdefabcdefab", "12" * 16]


def run_case(case, ctx):
    from dvc_objects.errors import ObjectDBPermissionError

    from dvc_data.hashfile.gc import gc

    with ctx.tmpdir() as d:
        store = os.path.join(d, "store")
        algo = case.get("algo", "md5")
        other = "md5-dos2unix" if algo == "md5" else "md5"
        key_name = "md5" if algo.startswith("md5") else algo
        foreign = other if case.get("foreign") == "md5-family" or algo == "sha256" else "sha256"
        os.makedirs(os.path.join(d, "x"), exist_ok=True)
        spelled = {
            "trailing-sep": store + os.sep,
            "dotdot": os.path.join(d, "x", "..", "store"),
            "dot": os.path.join(d, ".", "store"),
            "double-sep": d + os.sep + os.sep + "store",
        }.get(case.get("path_form", "plain"), store)
        odb = ops.make_odb(case["kind"], spelled, hash_name=algo)
        cache = None
        if case["sep_cache"]:
            cache = ops.make_odb("local", os.path.join(d, "cache"), hash_name=algo)
        dir_ids = []
        odb2 = ops.make_odb(case["kind"], spelled, hash_name=algo) if case.get("two_handles") else odb
        for i, t in enumerate(case["trees"]):
            src = os.path.join(d, f"t{i}")
            gen.materialise(t, src)
            dir_ids.append(_stage(odb if i == 0 else odb2, src, algo))
            if cache is not None:
                _stage(cache, src, algo)
        if case.get("zeros"):
            from .c12 import zeros

            src = os.path.join(d, "tz")
            gen.materialise({f"z{j}": "h:" + zeros()[j].hex() for j in range(case["zeros"])}, src)
            dir_ids.append(_stage(odb2, src, algo))
            if cache is not None:
                _stage(cache, src, algo)
            # plus loose objects in the SAME fan-out directory ('00') that belong to no tree: an unused object
            # next to files that are used only through a directory
            for j in range(case["zeros"], min(case["zeros"] + 3, len(zeros()))):
                p = os.path.join(d, f"loosez{j}")
                gen.write_file(p, zeros()[j])
                _stage(odb2, p, algo)
        empty_id = None
        if case.get("empty_dir"):
            src = os.path.join(d, "tempty")
            os.makedirs(src)
            empty_id = _stage(odb2, src, algo)
            if cache is not None:
                _stage(cache, src, algo)
        for i, c in enumerate(case["loose"]):
            p = os.path.join(d, f"loose{i}")
            gen.write_file(p, gen.content_bytes(c))
            _stage(odb2, p, algo)

        if case.get("bulk"):
            import hashlib

            for j in range(case["bulk"]):
                data = b"bulk object %d" % j
                oid = ref.ref_hash(data, algo)  # (no CRLF: same id for both md5 flavours)
                p = odb.oid_to_path(oid)
                gen.write_file(p, data)
                os.chmod(p, 0o444)
            odb._dirs = odb2._dirs = None

        if case.get("dense"):
            n_dense, shard = case["dense"]
            for data in _dense(algo, shard, n_dense):
                p = odb.oid_to_path(ref.ref_hash(data, algo))
                gen.write_file(p, data)
                os.chmod(p, 0o444)
            odb._dirs = odb2._dirs = None

        # a used directory that lives only in cache_odb while its files live in the store
        if case["drop_dir"] and cache is not None and dir_ids:
            p = odb.oid_to_path(dir_ids[0])
            if os.path.exists(p):
                os.chmod(p, 0o644)
                os.unlink(p)

        n_unpacked = 0
        for k, doid in enumerate(sorted(set(dir_ids))):
            if k < case.get("unpacked", 0):
                p_ = odb.oid_to_path(doid)
                if os.path.exists(p_):
                    os.makedirs(p_ + ".unpacked", exist_ok=True)
                    gen.write_file(os.path.join(p_ + ".unpacked", "legacy-file"), b"old unpacked data")
                    n_unpacked += 1
        reformed = set()
        form = case.get("dir_form")
        if form == "with-meta" and algo != "md5-dos2unix":
            form = "respaced"
        if form:
            import json as _json

            roots = [store] + ([cache.path] if cache is not None else [])
            for root_ in roots:
                for oid_, pth_ in ref.walk_store(root_)[0].items():
                    if not oid_.endswith(".dir"):
                        continue
                    lst_ = ref.parse_listing(ref.read(pth_))
                    if not lst_:
                        continue
                    if form == "with-meta":
                        lst_ = [dict(e, size=7 + i) for i, e in enumerate(lst_)]
                        text = _json.dumps(sorted(lst_, key=lambda e: e["relpath"]), sort_keys=True)
                    else:
                        text = _json.dumps(lst_, indent=1)
                    os.chmod(pth_, 0o644)
                    with open(pth_, "w", encoding="utf-8") as f_:
                        f_.write(text)
                    if not (case.get("dir_unprotect") and root_ == store):
                        os.chmod(pth_, 0o444)
                    reformed.add(oid_)
            odb._dirs = odb2._dirs = None
        problems, before = ref.audit_local_store(store, algo)
        problems = [p_ for p_ in problems if not (p_[0] == "mismatch" and p_[1] in reformed)]
        if problems:
            return Result([Viol("setup-audit", f"store not well-formed after setup: {problems[:2]}")])
        cache_contents = before
        if cache is not None:
            _, cache_contents = ref.audit_local_store(cache.path, algo)
        present = sorted(before)

        used, used_same, labels = [], set(), set()
        for kind, idx in case["used"]:
            if kind == "present" and present:
                oid = present[idx % len(present)]
                used.append(ops.hi(oid, algo))
                used_same.add(oid)
            elif kind == "dir" and dir_ids:
                oid = dir_ids[idx % len(dir_ids)]
                used.append(ops.hi(oid, algo))
                used_same.add(oid)
                labels.add("used-dir")
            elif kind == "absent":
                oid = ABSENT[idx % len(ABSENT)]
                if oid not in before:
                    used.append(ops.hi(oid, algo))
                    used_same.add(oid)
                    labels.add("absent-id")
            elif kind == "foreign" and present:
                oid = present[idx % len(present)]
                used.append(ops.hi(oid, foreign))
                labels.add("foreign-algo")

        if empty_id is not None and case["empty_dir"] == "used":
            used.insert(len(used) // 2, ops.hi(empty_id, algo))
            used_same.add(empty_id)
            labels.add("used-empty-dir")
        elif empty_id is not None:
            labels.add("unused-empty-dir" if empty_id not in used_same else "used-empty-dir")
        keep = set(used_same)
        if not case["shallow"]:
            for oid in list(used_same):
                if oid.endswith(".dir"):
                    data = cache_contents.get(oid)
                    if data is None:
                        # precondition: used directories are loadable from cache_odb
                        return Result(classes=["skipped-precondition"])
                    lst = ref.parse_listing(data)
                    keep.update(e[key_name] for e in lst)
                    labels.add("expanded-dir")
        expected_removed = set(before) - keep

        target = odb
        if case["read_only"]:
            target = ops.make_odb(case["kind"], spelled, read_only=True, hash_name=algo)
        viols = []
        raised = None
        ret = None
        try:
            form = case.get("used_form", "list")
            if form == "set":
                used_arg = set(used)
            elif form == "generator":
                used_arg = (h for h in used)
            elif form == "chain":
                import itertools

                used_arg = itertools.chain(used[::2], used[1::2])
            else:
                used_arg = used
            ret = gc(target, used_arg, cache_odb=cache, shallow=case["shallow"], dry=case["dry"])
        except ObjectDBPermissionError as exc:
            raised = exc
        _, after = ref.audit_local_store(store, algo)

        if case["read_only"]:
            if raised is None:
                viols.append(Viol("readonly-not-refused", "gc on a read-only store did not raise"))
            if after != before:
                viols.append(Viol("readonly-removed", "gc on a read-only store changed the store"))
        else:
            if raised is not None:
                viols.append(Viol("unexpected-permission-error", str(raised)))
            lost_used = sorted((set(before) - set(after)) & keep)
            if lost_used:
                viols.append(Viol("removed-used", f"gc removed used object(s) {lost_used}"))
            if case["dry"]:
                if after != before:
                    viols.append(Viol("dry-removed", "dry run changed the store"))
            else:
                left = sorted(set(after) & expected_removed)
                if left:
                    viols.append(Viol("kept-unused", f"gc left {len(left)} unused object(s) {left[:4]}"))
                for oid in set(after) & set(before):
                    if after[oid] != before[oid]:
                        viols.append(Viol("altered", f"object {oid} changed bytes"))
                extra = sorted(set(after) - set(before))
                if extra:
                    viols.append(Viol("invented", f"gc created object(s) {extra}"))
            if raised is None and ret != len(expected_removed):
                viols.append(Viol("count", f"gc returned {ret}, expected {len(expected_removed)}"))

        has_dir = any(o.endswith(".dir") for o in before)
        nontrivial = bool(
            has_dir and expected_removed and used
            and (not case["shallow"] or "absent-id" in labels or "foreign-algo" in labels)
        )
        if "foreign-algo" in labels and foreign != "sha256":
            labels.add("foreign-algo-is-other-md5-flavour")
        labels.add(f"used-as-{case.get('used_form', 'list')}")
        classes = sorted(labels) + [
            f"algo={algo}",
            f"kind={case['kind']}",
            "shallow" if case["shallow"] else "expanding",
            "dry" if case["dry"] else "real",
        ]
        if case["read_only"]:
            classes.append("read-only")
        if case.get("zeros"):
            classes.append("per-prefix-traversal(>=16 '00' ids)")
        if n_unpacked:
            classes.append("legacy-unpacked-leftover")
        if case.get("bulk"):
            classes.append("bulk>=999-unused-objects")
        if case.get("dense"):
            classes.append(f"one-shard-holds->=1953-objects:{case['dense'][1]}")
        if reformed:
            classes.append(f"dir-objects-stored:{form}")
            if case.get("dir_unprotect") and case["kind"] == "local":
                classes.append("dir-objects-stored-unprotected")
        if case.get("path_form", "plain") != "plain":
            classes.append(f"store-path-spelled:{case['path_form']}")
        if case.get("two_handles") and case["trees"]:
            classes.append("objects-added-through-second-handle")
        if cache is not None:
            classes.append("separate-cache_odb")
        if expected_removed and keep & set(before):
            classes.append("mixed-used-unused")
        return Result(viols, nontrivial, classes)


def run(ctx):
    ctx.run_given(cases(), run_case, ctx.n(quick=300, thorough=3000))


def replay(case, ctx):
    ctx.exec_case(case, run_case)
