"""C01 - object stores are content-addressed: every object is named by its own digest (stateful)."""

import os
import stat

from hypothesis import strategies as st
from hypothesis.stateful import initialize, rule

from .. import gen, ops, ref
from ..ctx import Result
from ..machine import TraceMachine, replay_trace_machine, run_trace_machine, traced

LEVEL = "exploration"
WORKERS = {"quick": 8, "thorough": 16}
BUDGET_S = {"quick": 50, "thorough": 600}
RULE = (
    "A Hypothesis rule-based state machine over four stores - L = LocalHashFileDB/md5, G = HashFileDB/md5 on "
    "the local fs, D = LocalHashFileDB/md5-dos2unix (legacy), X = LocalHashFileDB/sha256 (migration target) - "
    "a per-history choice between no hash-state and one real State database shared by all four stores (as in a "
    "DVC repository), and a pool of 2-4 materialised trees/files drawn per history (with modest probability a file just over "
    "1 MiB whose first 1 MiB read chunk is binary and the rest CRLF text, or the opposite mix; nesting, duplicate contents, empty files, drawn file modes 0o644/0o755/0o700, "
    "odd/non-ASCII names, CRLF text). Rules (<= 12 per history): stage+transfer (shallow or not), "
    "build without transfer (stage_only), rewrite of a pool file with another pool file's content under a "
    "harness clock step (equal contents at several paths; hard-linked files are replaced, not written through), "
    "build(upload=True)+transfer, upload_stale = build(upload=True)+transfer of one pool item (directory or single "
    "file) into L or G while what the library knows about one of its files is OUTDATED when that file is uploaded - "
    "'writer': a progress Callback passed to build() rewrites the victim (append a line / flip a bit / content of "
    "another pool file) on every tick or on one drawn tick, i.e. after files of the current directory level were "
    "hashed or served from the state and before the level is uploaded (directories); 'state-row': a status-style "
    "build() records the item in the shared State, the victim is rewritten in place with other bytes of the same "
    "size and its mtime restored (same inode/mtime/size: the row still matches), then the upload runs; 'fs-md5': "
    "the user edits a single file and the upload reads it through a local filesystem whose info() still advertises "
    "the md5 recorded before the edit - the upload path must name every object by the digest of the stream it "
    "actually copied (judged by the ordinary audit; the harness then steps the victim's mtime so that no State row "
    "written so far matches it any more), direct add under the id an honest caller computes (optionally hard-linked, optionally in overwrite mode "
    "check_exists=False aimed at objects already present), "
    "store->store transfer of a drawn id subset (shallow/expanded, hardlink; optionally raced: a second handle "
    "delivers part of the to-be-sent objects between the status query and the upload), index build->md5->save of a "
    "wrapped tree (one .dir object per directory level) either into an explicit store or through the index's "
    "storage map (md5 cache at the root key, the legacy store registered as cache at 0-2 drawn file/directory keys, "
    "entries hashed under the algorithm of the cache their key resolves to; every file entry's object must then be "
    "in that cache), migrate (prepare+migrate: D->L, D->G, L->X, G->X), "
    "gc with a drawn used subset, and crash_leftover: the harness plants what an add killed inside the reflink "
    "probe leaves in a local-class store (empty or partially written 0o644 file under the final path of a pool "
    "file/directory object not yet in the store); store objects are long-lived across the history. A planted "
    "leftover is tolerated only while untouched, unprotected and not vouched for by the state - later rules "
    "may remove or correctly replace it, never keep it 0o444 / state-recorded. Untrusted sources: tamper "
    "(also drawn inside xfer_untrusted, aimed at the ids about to be requested) lets the harness replace one "
    "object of L or G by bytes that no longer hash to its name - a '.dir' object stays a loadable well-formed "
    "listing (re-serialised with other whitespace / entry order, trailing newline, last entry dropped), a file "
    "object gets a flipped bit / loses or gains a byte; new inode, mode kept (0o444 in L, so the store goes on "
    "trusting it) - as bit-rot or a re-serialising remote would; xfer_untrusted then runs transfer(src, dest, ids "
    "(directory objects weighted x3), shallow/expanded, hardlink or copy, verify=drawn, forced True whenever the "
    "source holds a tampered object), optionally with cache_odb= a separate harness-built store holding a "
    "byte-identical or re-serialised (same entries) copy of each requested '.dir' object. A tampered object is excused only in "
    "the store where the harness did it and only while it holds exactly the harness's bytes (gone / correctly "
    "replaced = healed); every other store - in particular the DESTINATION of a verifying transfer - must pass "
    "the full audit; from a source with an outstanding tampered object the ordinary xfer runs with verify=True "
    "and without the harness's raced second delivery, and migrate is not run. Oracle after EVERY rule, on every store, from os.walk + hashlib: each "
    "object's name is the store-algorithm digest of its bytes (+'.dir' iff it is a directory object, whose "
    "bytes must be a canonical listing), no stray file, no listing filed without the '.dir' suffix, every "
    "object of a local-class store has mode exactly 0o444. Non-trivial = a history in which some store was "
    "changed by >= 2 rules, a directory object exists, and at least one effective store->store transfer, "
    "save of nested directories, migration or gc happened; distinct = SHA-1 of the executed trace."
)
ASSUMPTIONS = [
    "callers are honest: add() is given the id computed (by hashlib) from the very bytes at the path, transfers "
    "run only between stores of the same algorithm",
    "a migrated directory object keeps its bytes (child ids stay those of the source algorithm); only its own "
    "name is re-derived - for the sha256 target the listing is therefore audited as 'parses as a listing'",
    "crash leftovers are planted only in local-class stores (the generic class has no integrity-checking "
    "existence query and no protection) and a store with an outstanding leftover is not used as a migration source",
    "md5-dos2unix is per read chunk for objects larger than 1 MiB (sniff the first 512 bytes of each 1 MiB "
    "chunk, normalise CRLF inside text chunks): the legacy store's audit, honest ids and leftover names use that "
    "chunk-wise reference (own module); the md5 / sha256 audits are plain hashlib",
    "verify=False copies bytes as they are: nothing is asserted about a non-verifying flow out of a store the "
    "harness tampered with (such flows are not generated); with verify=True the destination must never retain a "
    "mismatching object (HashFileDB.add hashes what it filed, removes and reports a mismatch); a local store "
    "trusts a 0o444 object without re-hashing it, so the tampered source copy itself may stay and even be "
    "state-recorded there",
    "cache_odb is only a place the library may read directory listings from; the bytes filed in the destination "
    "are judged against their name. The caller's cache agrees with the source on what a directory id lists "
    "(same entries, possibly other serialisation): with a disagreeing cache listing the status query classes "
    "objects the destination already holds as new and transfer re-sends them in overwrite mode - over a "
    "destination that is a hard link of the source file this truncates both (precondition already kept by "
    "add_direct's overwrite arm), so such caches are not generated",
    "tampered listings stay well-formed (list of {md5, relpath} entries) - a malformed or unparsable '.dir' "
    "object in the source is outside this check",
    "outdated knowledge (a matching but stale hash-state row, an fs-reported md5 that lags behind the data, a file "
    "written to after it was hashed) is generated ONLY in front of build(upload=True), whose contract is to hash the "
    "stream while copying; non-upload builds trust the state token / the fs-reported md5 by design, so every "
    "upload_stale ends with a harness clock step on the victim (no row saved before or during the rule matches it "
    "afterwards) and nothing is asserted about what the returned Tree/HashFile lists - only about the objects that "
    "reached the audited stores",
    "the writer Callback acts only inside relative_update ticks of build()'s own progress callback (never during an "
    "upload); an item holding >= 2 files over the 1 MiB large-file threshold is hashed on a thread pool and is not "
    "given a writer; a victim that is hard-linked into a store is replaced (new inode), never written through, and "
    "is not eligible for the in-place 'state-row' arm (nor is an empty file); an arm that does not apply falls over "
    "to the next (no State / no eligible victim -> writer for directories, fs-md5 for single files)",
    "files named like dvc-objects temp files (.<token>.tmp) are counted, not judged",
    "hashlib, the reference text sniffing rule and the hand-written listing serialiser are the trusted base",
]

# index -> (label, kind, algorithm)
STORES = [("L", "local", "md5"), ("G", "generic", "md5"), ("D", "local", "md5-dos2unix"), ("X", "local", "sha256")]
ROUTES = {"D>L": (2, 0), "D>G": (2, 1), "L>X": (0, 3), "G>X": (1, 3)}


CHUNK = 2**20  # the library hashes in 1 MiB reads; md5-dos2unix sniffs and normalises each read separately


def _mixed_large(spec):
    """Expand {'order','head','tail'}: first chunk of exactly 1 MiB of one kind, then a short chunk of the other."""
    head = gen.content_bytes(spec["head"])
    tail = gen.content_bytes(spec["tail"])
    if spec["order"] == "bin-text":
        first = (b"\x00" + head + b"\xff\xfe" * 8 + b"B" * CHUNK)[:CHUNK]
        second = b"text line\r\n" * 3 + bytes(b for b in tail if 32 <= b < 127 or b in (10, 13)) + b"end\r\n"
    else:
        line = b"text " + bytes(b for b in head if 32 <= b < 127) + b" line\r\n"
        first = (line * (CHUNK // len(line) + 1))[:CHUNK]
        second = b"\x00\x01bin\r\n" + tail + b"\r\n\x00"
    return first + second


def _href(data, algo):
    """Reference digest.  For md5-dos2unix objects larger than one read chunk the library's documented
    behaviour is per 1 MiB chunk (sniff the chunk's first 512 bytes, normalise CRLF inside text chunks)."""
    if algo != "md5-dos2unix" or len(data) <= CHUNK:
        return ref.ref_hash(data, algo)
    import hashlib

    h = hashlib.md5()  # noqa: S324
    for i in range(0, len(data), CHUNK):
        c = data[i:i + CHUNK]
        h.update(c.replace(b"\r\n", b"\n") if ref.ref_istext(c[:512]) else c)
    return h.hexdigest()


def _pool():
    import warnings

    content = st.one_of(gen.small_contents(), gen.contents())
    with warnings.catch_warnings():
        warnings.simplefilter("ignore")  # gen.trees evaluates bool(strategy)
        t1 = gen.trees(max_files=8, max_depth=3, content=content)
        t2 = gen.trees(max_files=8, max_depth=3, content=content, min_files=2)
    small = st.one_of(
        st.fixed_dictionaries({"t": t1}),
        st.fixed_dictionaries({"t": t2}),
        st.fixed_dictionaries({"f": content}),
    )
    # a file just over 1 MiB whose two 1 MiB read chunks differ in kind (expanded by _mixed_large)
    mixed = st.fixed_dictionaries({"m": st.fixed_dictionaries({
        "order": st.sampled_from(["bin-text", "text-bin"]),
        "head": st.binary(max_size=8).map(lambda b: "h:" + b.hex()),
        "tail": st.sampled_from(["p:crlf", "p:C", "p:b513", "p:hello"]) | gen.contents(pool_weight=1, max_size=40),
    })})
    item = st.one_of(small, small, small, small, mixed)
    return st.lists(item, min_size=2, max_size=4)


_DIR_HOW = ["indent", "compact", "reversed", "newline", "drop-entry"]
_SAME_LISTING = ["indent", "compact", "reversed", "newline"]  # re-serialisations that keep every entry
_FILE_HOW = ["flip", "truncate", "append"]
_HOW = st.fixed_dictionaries({"dir": st.sampled_from(_DIR_HOW), "file": st.sampled_from(_FILE_HOW)})


def _reserialise(data, how):
    """Another loadable, well-formed JSON listing than `data` (None if `data` is not a listing)."""
    import json

    lst = ref.parse_listing(data)
    if lst is None:
        return None
    if how == "indent":
        new = json.dumps(lst, indent=1, sort_keys=True).encode()
    elif how == "compact":
        new = json.dumps(lst, separators=(",", ":"), sort_keys=True).encode()
    elif how == "reversed" and len(lst) >= 2:
        new = json.dumps(lst[::-1], sort_keys=True).encode()
    elif how == "drop-entry" and len(lst) >= 2:
        new = json.dumps(lst[:-1], sort_keys=True).encode()
    else:
        new = data + b"\n"
    return new if new != data else data + b"\n"


def _rot(data, how):
    if not data or how == "append":
        return data + b"\n"
    if how == "truncate":
        return data[:-1]
    k = len(data) // 2
    return data[:k] + bytes([data[k] ^ 1]) + data[k + 1:]


class C01Machine(TraceMachine):
    # ---- set-up --------------------------------------------------------------------------
    def on_setup(self):
        self.state = None
        self._make_stores()
        self.pool = []          # [(path, isdir, flat {rel: bytes} | bytes)]
        self.files = []         # [[path, bytes, pool index, relpath | None]] every regular file of the pool
        self.file_bytes = set()
        self.ids = [set() for _ in STORES]
        self.changes = [0 for _ in STORES]
        self.effective = set()
        self.labels = set()
        self.saw_dir = False
        self.temps = 0
        self.fmode = {}         # pool file path -> drawn mode
        self.big = set()        # contents of the mixed > 1 MiB pool files
        self.leftovers = [{} for _ in STORES]  # per store: {oid: planted bytes} still outstanding
        self.listings = []      # canonical listing bytes of the pool trees (md5 / md5-dos2unix child ids)
        self.tampered = [{} for _ in STORES]   # per store: {oid: bytes the HARNESS put there} still outstanding
        self.ncache = 0

    def _make_stores(self):
        self.odbs = []
        for label, kind, algo in STORES:
            cfg = {} if algo == "md5" else {"hash_name": algo}
            if self.state is not None:
                cfg["state"] = self.state
            self.odbs.append(ops.make_odb(kind, os.path.join(self.dir, "store" + label), **cfg))

    def on_cleanup(self):
        if self.state is not None:
            self.state.close()
            self.state = None

    @initialize(pool=_pool(), state=st.sampled_from([False, True, True]),
                modes=st.lists(st.sampled_from([0o644, 0o644, 0o755, 0o700]), max_size=8))
    @traced
    def init(self, pool, state=False, modes=()):
        if state and self.state is None:
            # one real State database shared by every store of the history, as in a DVC repository
            self.state = ops.make_state(self.dir, os.path.join(self.dir, "state"))
            self._make_stores()
            self.labels.add("shared-state")
        for i, it in enumerate(pool):
            p = os.path.join(self.dir, "pool", str(i), "t")
            if "t" in it:
                flat = gen.materialise(it["t"], p)
                self.pool.append((p, True, flat))
                for rel in sorted(flat):
                    self.files.append([os.path.join(p, *rel.split("/")), flat[rel], i, rel])
                self.labels.update("pool:" + x for x in gen.tree_traits(it["t"]))
                # the md5 and md5-dos2unix listings differ only when a file is CRLF text
                for algo in ("md5", "md5-dos2unix"):
                    lb = ref.ref_tree_bytes(ref.tree_manifest(flat, algo), "md5")
                    if lb not in self.listings:
                        self.listings.append(lb)
            else:
                if "m" in it:
                    data = _mixed_large(it["m"])
                    self.labels.add("pool:mixed-large-" + it["m"]["order"])
                    self.big.add(data)
                else:
                    data = gen.content_bytes(it["f"])
                gen.write_file(p, data)
                self.pool.append((p, False, data))
                self.files.append([p, data, i, None])
        self.file_bytes = {f[1] for f in self.files}
        # workspace files carry a drawn mode (executable owner bit = Meta.isexec)
        for k, f in enumerate(self.files):
            if modes:
                self.fmode[f[0]] = modes[k % len(modes)]
                os.chmod(f[0], self.fmode[f[0]])
        if any(m & 0o100 for m in self.fmode.values()):
            self.labels.add("pool:executable-file")

    # ---- rules ---------------------------------------------------------------------------
    @rule(store=st.integers(0, 2), item=st.one_of(st.just(-1), st.integers(0, 7), st.integers(0, 7)),
          shallow=st.booleans())
    @traced
    def stage_transfer(self, store, item, shallow):
        """build + transfer of one pool item (item -1 = of every pool item in turn, as a commit of the workspace)."""
        if not self.pool:
            return
        odb = self.odbs[store]
        todo = self.pool if item < 0 else [self.pool[item % len(self.pool)]]
        for entry in todo:
            ops.stage_transfer(odb, entry[0], name=odb.hash_name, shallow=shallow)
        self.labels.add("stage_transfer" + ("-shallow" if shallow else "") + ("-all" if item < 0 else ""))

    @rule(store=st.one_of(st.just(-1), st.integers(0, 2)), item=st.one_of(st.just(-1), st.just(-1), st.integers(0, 7)))
    @traced
    def stage_only(self, store, item):
        """build() without the transfer (what a status-style caller does; item -1 = every pool item, as a status
        over the whole workspace): nothing may reach the store later through what this staging remembered."""
        from dvc_objects.fs.local import LocalFileSystem

        from dvc_data.hashfile.build import build

        if not self.pool:
            return
        todo = self.pool if item < 0 else [self.pool[item % len(self.pool)]]
        for odb in (self.odbs[:3] if store < 0 else [self.odbs[store]]):  # store -1 = against every cache
            for entry in todo:
                build(odb, entry[0], LocalFileSystem(), odb.hash_name)
        self.labels.add("stage_only" + ("-all" if item < 0 else "") + ("-every-store" if store < 0 else ""))

    @rule(fidx=st.integers(0, 40), src=st.integers(0, 40),
          backup=st.one_of(st.none(), st.integers(0, 40), st.integers(0, 40), st.integers(0, 40)),
          step=st.sampled_from([1_000, 1_000_000, 2_000_000_000]))
    @traced
    def rewrite_item(self, fidx, src, step, backup=None):
        """One user edit: file `fidx` takes the current content of file `src`; with `backup` its previous content
        is also written to another pool file (so the old content lives on at a different path)."""
        if not self.files:
            return
        old = self.files[fidx % len(self.files)][1]
        self._rewrite(fidx % len(self.files), self.files[src % len(self.files)][1], step)
        if backup is not None and backup % len(self.files) != fidx % len(self.files):
            self._rewrite(backup % len(self.files), old, step)
            self.labels.add("rewrite-with-backup")

    def _rewrite(self, idx, new, step):
        """The user rewrites one pool file with the current content of another pool file (so equal contents live at
        several paths), under a harness clock step so that the (inode, mtime, size) token really changes.  A file
        that is hard-linked into a store is replaced (new inode), never written through."""
        f = self.files[idx]
        if new == f[1]:
            return
        path = f[0]
        st0 = os.stat(path)
        if st0.st_nlink > 1:
            os.unlink(path)
        else:
            os.chmod(path, 0o644)
        with open(path, "wb") as fobj:
            fobj.write(new)
        os.chmod(path, self.fmode.get(path, 0o644))
        os.utime(path, ns=(st0.st_atime_ns, st0.st_mtime_ns + step))
        st1 = os.stat(path)
        if (st1.st_ino, st1.st_mtime, st1.st_size) == (st0.st_ino, st0.st_mtime, st0.st_size):
            os.utime(path, ns=(st0.st_atime_ns, st0.st_mtime_ns + 1_000_000_000))
        self._note_content(idx, new)
        self.labels.add("rewrite_item")
        if sum(1 for g in self.files if g[1] == new) >= 2:
            self.labels.add("content-at>=2-paths")

    def _note_content(self, idx, new):
        """Model bookkeeping after the harness changed the bytes of pool file `idx`."""
        f = self.files[idx]
        if f[1] in self.big and len(new) > CHUNK:
            self.big.add(new)
        f[1] = new
        self.file_bytes.add(new)
        pi, rel = f[2], f[3]
        p, isdir, body = self.pool[pi]
        if isdir:
            body[rel] = new
            for algo in ("md5", "md5-dos2unix"):
                lb = ref.ref_tree_bytes(ref.tree_manifest(body, algo), "md5")
                if lb not in self.listings:
                    self.listings.append(lb)
        else:
            self.pool[pi] = (p, False, new)

    @rule(store=st.integers(0, 1), item=st.one_of(st.just(-1), st.integers(0, 7), st.integers(0, 7)))
    @traced
    def stage_upload(self, store, item):
        from dvc_objects.fs.local import LocalFileSystem

        from dvc_data.hashfile.build import build
        from dvc_data.hashfile.transfer import transfer

        if not self.pool:
            return
        odb = self.odbs[store]
        for entry in (self.pool if item < 0 else [self.pool[item % len(self.pool)]]):
            staging, _meta, obj = build(odb, entry[0], LocalFileSystem(), "md5", upload=True)
            transfer(staging, odb, {obj.hash_info}, shallow=False, hardlink=False)
        self.labels.add("stage_upload" + ("-all" if item < 0 else ""))

    # ---- upload of a source about which the library holds OUTDATED knowledge ---------------------
    def _edited(self, cur, edit, src, n):
        """The bytes a (harness) writer leaves in a pool file that held `cur`: 'other' = the current content of
        pool file `src`, 'flip' = one bit flipped (same size; the position moves with the writer's count `n`),
        'append' (and every fallback) = one more line."""
        if edit == "other" and self.files:
            new = self.files[src % len(self.files)][1]
            if new != cur:
                return new
        if edit == "flip" and cur:
            k = (len(cur) // 2 + n) % len(cur)
            return cur[:k] + bytes([cur[k] ^ 1]) + cur[k + 1:]
        return cur + b"one more line, written while staging\n"

    def _write_pool_file(self, idx, new, mtime_ns):
        """Harness write of pool file `idx` with an explicit mtime.  A file that is hard-linked (into a store) is
        replaced by a new inode, never written through; otherwise it is rewritten in place (same inode)."""
        path = self.files[idx][0]
        st0 = os.stat(path)
        if st0.st_nlink > 1:
            os.unlink(path)
        else:
            os.chmod(path, 0o644)
        with open(path, "wb") as fobj:
            fobj.write(new)
        os.chmod(path, self.fmode.get(path, 0o644))
        os.utime(path, ns=(st0.st_atime_ns, mtime_ns))
        self._note_content(idx, new)

    @staticmethod
    def _bump_mtime(path, step):
        """Harness clock step on `path`: afterwards no hash-state row written before can match its token."""
        st0 = os.stat(path)
        os.utime(path, ns=(st0.st_atime_ns, st0.st_mtime_ns + step))
        if os.stat(path).st_mtime == st0.st_mtime:
            os.utime(path, ns=(st0.st_atime_ns, st0.st_mtime_ns + 1_000_000_000))

    @rule(store=st.integers(0, 1), item=st.integers(0, 7), victim=st.integers(0, 40),
          how=st.sampled_from(["writer", "state-row", "fs-md5"]),
          edit=st.sampled_from(["append", "flip", "other"]), src=st.integers(0, 40),
          at=st.one_of(st.just(-1), st.just(-1), st.integers(0, 7)),
          step=st.sampled_from([1_000, 1_000_000, 2_000_000_000]))
    @traced
    def upload_stale(self, store, item, victim, how, edit, src, at, step):
        """build(upload=True)+transfer of one pool item into L or G while what the library knows about one of its
        files (`victim`) is outdated at the moment the file is uploaded - the upload path must name the object by
        the digest of the stream it copied, whatever was known before.  Three ways the earlier digest gets stale:

        'writer' (directories): a progress Callback passed to build() plays a concurrent writer - on every tick
          (at=-1; one tick = some file(s) of the current directory level have just been hashed / served from the
          state) or only on tick number `at` it rewrites the victim (append a line / flip a bit / take the content
          of pool file `src`), i.e. possibly after the victim was hashed and always before the level's uploads;
        'state-row' (needs the shared State): a status-style build() records every file of the item, then the
          victim is rewritten IN PLACE with other bytes of the same size and its mtime restored (same inode, mtime,
          size: the row still matches), then the upload runs;
        'fs-md5' (single files): the user edits the file (clock step), the upload reads it through a local
          filesystem whose info() still advertises the md5 recorded before the edit.

        Afterwards the harness steps the victim's mtime, so that no row of the shared State saved before or during
        the rule matches the file any more: later NON-upload rules legitimately trust a matching row.  A mechanism
        that does not apply (no State, hard-linked or empty victim, directory vs file) falls over to the next."""
        from dvc_objects.fs.local import LocalFileSystem

        from dvc_data.hashfile.build import build
        from dvc_data.hashfile.transfer import transfer

        if not self.pool:
            return
        pi = item % len(self.pool)
        root, isdir, _body = self.pool[pi]
        members = [k for k, f in enumerate(self.files) if f[2] == pi]
        odb = self.odbs[store]
        fs = LocalFileSystem()
        kw = {}

        def in_place_ok(k):  # same-size in-place rewrite possible without writing through a hard link
            return bool(self.files[k][1]) and os.stat(self.files[k][0]).st_nlink == 1

        if how == "state-row" and self.state is not None and any(in_place_ok(k) for k in members):
            mech = "state-row"
            cands = [k for k in members if in_place_ok(k)]
        else:
            mech = "writer" if isdir else "fs-md5"
            cands = members
        vidx = cands[victim % len(cands)]
        vpath, old = self.files[vidx][0], self.files[vidx][1]
        old_absent = ref.ref_hash(old, "md5") not in self.ids[store]
        fired = [0]

        if mech == "writer":
            from fsspec.callbacks import Callback

            if sum(1 for k in members if len(self.files[k][1]) > CHUNK) >= 2:
                return  # >= 2 files over the large-file threshold are hashed on a thread pool: no defined tick order
            base = os.stat(vpath).st_mtime_ns
            when = at if at < 0 else at % len(members)
            machine = self

            class Writer(Callback):
                ticks = 0

                def relative_update(self, inc=1):
                    super().relative_update(inc)
                    if inc <= 0:
                        return
                    k, self.ticks = self.ticks, self.ticks + 1
                    if when < 0 or k == when:
                        fired[0] += 1
                        new = machine._edited(machine.files[vidx][1], edit, src, fired[0])
                        machine._write_pool_file(vidx, new, base + fired[0] * step)

            kw["callback"] = Writer()
        elif mech == "state-row":
            build(odb, root, fs, "md5")  # a status-style pass: one row per file, contents unchanged
            st0 = os.stat(vpath)
            new = self._edited(old, "other" if edit == "other" else "flip", src, 0)
            if len(new) != len(old):
                new = self._edited(old, "flip", src, 0)
            self._write_pool_file(vidx, new, st0.st_mtime_ns)
            st1 = os.stat(vpath)
            assert (st1.st_ino, st1.st_mtime_ns, st1.st_size) == (st0.st_ino, st0.st_mtime_ns, st0.st_size)
            fired[0] = 1
        else:
            import hashlib

            self._write_pool_file(vidx, self._edited(old, edit, src, 0), os.stat(vpath).st_mtime_ns + step)
            fired[0] = 1
            fs = _StaleInfoFS({vpath: hashlib.md5(old).hexdigest()})  # noqa: S324

        try:
            staging, _meta, obj = build(odb, root, fs, "md5", upload=True, **kw)
            transfer(staging, odb, {obj.hash_info}, shallow=False, hardlink=False)
        finally:
            self._bump_mtime(vpath, step)
        tag = "upload_stale:" + mech + ("-dir" if isdir else "-file")
        self.labels.add(tag)
        if fired[0]:
            self.labels.add(tag + "-content-changed")
            if old_absent:
                self.labels.add(tag + "-content-changed-old-digest-not-in-store")
        if mech == "writer":
            self.labels.add("upload_stale:writer-" + ("every-tick" if at < 0 else "one-tick"))

    @rule(store=st.integers(0, 2), fidx=st.integers(0, 40), hardlink=st.booleans(),
          check_exists=st.sampled_from([True, True, False]))
    @traced
    def add_direct(self, store, fidx, hardlink, check_exists=True):
        """Direct add under the honest id.  check_exists=False is the overwrite mode hashfile.transfer uses; it is
        aimed at objects the store already holds (whose inode is not shared with another store or a pool file: the
        third-party reflink probe truncates the destination in place before giving up)."""
        from dvc_objects.fs.local import LocalFileSystem

        if not self.files:
            return
        odb = self.odbs[store]
        algo = STORES[store][2]
        cands = self.files
        if not check_exists:
            present = [f for f in self.files if _href(f[1], algo) in self.ids[store]]
            cands = present or self.files
        path, data = cands[fidx % len(cands)][:2]
        oid = _href(data, algo)  # what an honest caller computes from that same path
        over = False
        if not check_exists and os.path.exists(odb.oid_to_path(oid)):
            if os.stat(odb.oid_to_path(oid)).st_nlink > 1:
                check_exists = True  # precondition of the overwrite arm, see docstring
            else:
                over = True
        odb.add(path, LocalFileSystem(), oid, hardlink=hardlink, check_exists=check_exists)
        self.labels.add("add_direct" + ("-hardlink" if hardlink else "") + ("-overwrite-present" if over else ""))

    @rule(src=st.integers(0, 1), picks=st.lists(st.integers(0, 40), min_size=1, max_size=4),
          shallow=st.booleans(), hardlink=st.booleans(),
          deliver=st.one_of(st.just([]), st.lists(st.integers(0, 40), min_size=1, max_size=3)))
    @traced
    def xfer(self, src, picks, shallow, hardlink, deliver=()):
        """Store -> store transfer.  With `deliver`, a second delivery of overlapping content wins the race: between
        this transfer's status query and its upload (validate_status hook) a drawn subset of the to-be-sent objects
        is added to the destination through a second handle, so the upload meets them in overwrite mode."""
        from dvc_data.hashfile.hash_info import HashInfo
        from dvc_data.hashfile.transfer import transfer

        have = sorted(self.ids[src])
        if not have:
            return
        want = {HashInfo("md5", have[i % len(have)]) for i in picks}
        sodb, dodb = self.odbs[src], self.odbs[1 - src]
        # a store the harness tampered with is an untrusted source: the honest caller verifies what comes out of
        # it, and the harness's own second delivery (an unverified add) does not read from it
        untrusted = bool(self.tampered[src])

        def hook(status):
            new = sorted(h.value for h in status.new)
            if not new or not deliver or untrusted:
                return
            cfg = {"state": self.state} if self.state is not None else {}
            second = ops.make_odb(STORES[1 - src][1], dodb.path, **cfg)
            for oid in sorted({new[i % len(new)] for i in deliver}):
                second.add(sodb.oid_to_path(oid), sodb.fs, oid)
            self.labels.add("xfer-raced-by-second-delivery")

        res = transfer(sodb, dodb, want, shallow=shallow, hardlink=hardlink, validate_status=hook,
                       verify=untrusted)
        if res.transferred:
            self.effective.add("xfer")
            self.labels.add("xfer" + ("-hardlink" if hardlink else "") + ("" if shallow else "-expanded"))
        if untrusted:
            self.labels.add("xfer-verifying-out-of-tampered-store")

    @rule(store=st.integers(0, 1), which=st.integers(0, 40), how=_HOW)
    @traced
    def tamper(self, store, which, how):
        """Bit-rot / a re-serialising remote: the harness replaces one object of an md5 store (see _tamper)."""
        have = sorted(self.ids[store])
        if have:
            self._tamper(store, have[which % len(have)], how)

    def _tamper(self, store, oid, how):
        """Replace object `oid` of store L or G by bytes that no longer hash to its name: a '.dir' object stays a
        loadable, well-formed JSON listing (re-serialised with other whitespace / entry order, a trailing newline,
        or its last entry dropped), a file object gets a flipped bit, loses its last byte or gains one.  The file
        is replaced (new inode, so copies hard-linked elsewhere stay intact), keeps its mode (0o444 in the local
        store: the store goes on trusting it) and gets a later mtime."""
        path = self.odbs[store].oid_to_path(oid)
        st0 = os.lstat(path)
        data = ref.read(path)
        if oid in self.tampered[store] or oid in self.leftovers[store]:
            return False
        isdir = oid.endswith(".dir")
        new = _reserialise(data, how["dir"]) if isdir else _rot(data, how["file"])
        if new is None or new == data or ref.ref_hash(new, "md5") == (oid[:-4] if isdir else oid):
            return False
        self.labels.add("tamper-dir:" + how["dir"] if isdir else "tamper-file:" + how["file"])
        os.unlink(path)
        fd = os.open(path, os.O_WRONLY | os.O_CREAT | os.O_EXCL, 0o600)
        try:
            os.write(fd, new)
        finally:
            os.close(fd)
        os.chmod(path, stat.S_IMODE(st0.st_mode))
        os.utime(path, ns=(st0.st_atime_ns, st0.st_mtime_ns + 3_000_000_000))
        self.tampered[store][oid] = new
        return True

    @rule(src=st.integers(0, 1), picks=st.lists(st.integers(0, 40), min_size=1, max_size=4),
          shallow=st.booleans(), hardlink=st.booleans(), verify=st.booleans(),
          rot=st.lists(st.fixed_dictionaries({"k": st.sampled_from([0, 0, 1, 2, 3]), "how": _HOW}), max_size=2),
          cache=st.one_of(st.none(), st.none(), st.sampled_from(["intact", *_SAME_LISTING])))
    @traced
    def xfer_untrusted(self, src, picks, shallow, hardlink, verify, rot, cache=None):
        """A fetch from a store that is not trusted: `rot` first tampers (see _tamper) with drawn objects among
        those about to be requested, then transfer(src, dest, ids, verify=...) runs - verify=True whenever the
        source holds an object the harness tampered with (verify=False copies bytes as they are, so it is only
        drawn for an intact source).  With `cache` the caller also passes cache_odb=: a separate store (built by
        the harness, not audited) that holds a copy of every requested '.dir' object - byte-identical ('intact')
        or re-serialised with the same entries (a cache whose listing DISAGREES with the source's listing under
        the same id is not generated: it makes the status query re-send, in overwrite mode, objects the
        destination already holds, possibly as hard links of the very source files); the library may read
        listings from it, the bytes it files in the destination are judged by the ordinary audit."""
        from dvc_data.hashfile.hash_info import HashInfo
        from dvc_data.hashfile.transfer import transfer

        have = sorted(self.ids[src])
        if not have:
            return
        # directory objects are the rarer kind: they weigh three times in the draw and sort first for `rot`
        have = [o for o in have if o.endswith(".dir")] * 2 + have
        oids = sorted({have[i % len(have)] for i in picks}, key=lambda o: (not o.endswith(".dir"), o))
        for r in rot:
            oid = oids[r["k"] % len(oids)]
            if self._tamper(src, oid, r["how"]):
                self.labels.add("xfer_untrusted-rot-" + ("dir" if oid.endswith(".dir") else "file"))
        untrusted = bool(self.tampered[src])
        verify = verify or untrusted
        sodb, dodb = self.odbs[src], self.odbs[1 - src]
        kw = {}
        if cache is not None:
            kw["cache_odb"] = self._cache_copy(sodb, oids, cache)
        present = {o for o in oids if os.path.exists(dodb.oid_to_path(o))}
        res = transfer(sodb, dodb, {HashInfo("md5", o) for o in oids}, shallow=shallow, hardlink=hardlink,
                       verify=verify, **kw)
        self.labels.add("xfer_untrusted" + ("-verify" if verify else "") + ("-hardlink" if hardlink else "")
                        + ("" if shallow else "-expanded"))
        if cache is not None and any(o.endswith(".dir") for o in oids):
            self.labels.add("xfer_untrusted-cache_odb:" + ("intact" if cache == "intact" else "reserialised"))
        if res.transferred:
            self.effective.add("xfer")
        aimed = sorted(o for o in oids if o in self.tampered[src] and o not in present)
        if aimed:
            self.labels.add("verifying-transfer-of-tampered-" +
                            ("dir" if any(o.endswith(".dir") for o in aimed) else "file"))

    def _cache_copy(self, sodb, oids, how):
        """The caller's own cache for cache_odb=: a fresh local-class store outside the audited four, holding a
        copy of each requested '.dir' object of the source ('intact' = same bytes, else re-serialised with the
        same entries, 0o644)."""
        assert how == "intact" or how in _SAME_LISTING, how
        self.ncache += 1
        codb = ops.make_odb("local", os.path.join(self.dir, f"cachecopy{self.ncache}"))
        for oid in oids:
            if not oid.endswith(".dir"):
                continue
            data = ref.read(sodb.oid_to_path(oid))
            new = data if how == "intact" else (_reserialise(data, how) or data)
            gen.write_file(codb.oid_to_path(oid), new)
        return codb

    @rule(store=st.integers(0, 1), item=st.integers(0, 7),
          dkeys=st.one_of(st.none(), st.lists(st.integers(0, 40), max_size=2)))
    @traced
    def index_save(self, store, item, dkeys=None):
        """dkeys None: save(index, odb=store).  Otherwise save(index) through the index's storage map (see
        _index_save_mapped) with `store` as the cache at the root key."""
        from dvc_objects.fs.local import LocalFileSystem

        from dvc_data.index import build as ibuild
        from dvc_data.index import md5 as imd5
        from dvc_data.index import save as isave

        if not self.pool:
            return
        if dkeys is not None:
            self._index_save_mapped(item, dkeys, store)
            return
        path, isdir, flat = self.pool[item % len(self.pool)]
        idx = ibuild(os.path.dirname(path), LocalFileSystem())
        idx = imd5(idx)
        isave(idx, odb=self.odbs[store])
        self.labels.add("index_save")
        if isdir and any("/" in rel for rel in flat):
            self.effective.add("index_save-nested")
            self.labels.add("index_save-nested")

    def _index_save_mapped(self, item, dkeys, cache_root):
        """index build -> hash -> save(index) WITHOUT an explicit odb: the cache is resolved through the index's
        storage map - an md5 store (L or G) as cache at the root key and the legacy D store registered as cache at
        0-2 drawn file or directory keys of the saved tree (a partly migrated repository).  The honest caller
        records, per entry, the digest under the algorithm of the cache its key resolves to."""
        from dvc_objects.fs.local import LocalFileSystem

        from dvc_data.hashfile.hash_info import HashInfo
        from dvc_data.index import ObjectStorage
        from dvc_data.index import build as ibuild
        from dvc_data.index import save as isave

        path, isdir, body = self.pool[item % len(self.pool)]
        flat = dict(body) if isdir else {"": body}
        fkeys = {("t", *rel.split("/")) if rel else ("t",): data for rel, data in flat.items()}
        dirkeys = sorted({k[:n] for k in fkeys for n in range(1, len(k))})
        cands = sorted(fkeys) + dirkeys
        legacy = sorted({cands[i % len(cands)] for i in dkeys})
        idx = ibuild(os.path.dirname(path), LocalFileSystem())
        idx.storage_map.add_cache(ObjectStorage(key=(), odb=self.odbs[cache_root]))
        for k in legacy:
            idx.storage_map.add_cache(ObjectStorage(key=k, odb=self.odbs[2]))

        def resolve(key):  # own longest-prefix resolver
            best = max((k for k in legacy if key[: len(k)] == k), key=len, default=None)
            return cache_root if best is None else 2

        for key, entry in idx.iteritems():
            if key in fkeys:
                algo = STORES[resolve(key)][2]
                entry.hash_info = HashInfo(algo, _href(fkeys[key], algo))
        isave(idx)
        self.labels.add("index_save_mapped" + (f"-legacy-keys={len(legacy)}" if legacy else ""))
        parents = {}
        for k in fkeys:
            parents.setdefault(k[:-1], set()).add(resolve(k))
        if any(len(v) > 1 for v in parents.values()):
            self.labels.add("siblings-in-different-caches")
        if isdir and any("/" in rel for rel in flat):
            self.effective.add("index_save-nested")
        for key in sorted(fkeys):
            si = resolve(key)
            oid = _href(fkeys[key], STORES[si][2])
            p = self.odbs[si].oid_to_path(oid)
            if not os.path.exists(p):
                self.violate("index-save-object-missing-from-its-cache",
                             f"save(index): entry {'/'.join(key)} resolves to cache {STORES[si][0]} but its object "
                             f"{oid} is not there")

    @rule(route=st.sampled_from(sorted(ROUTES)))
    @traced
    def migrate(self, route):
        from dvc_data.hashfile.db.migrate import migrate, prepare

        s, t = ROUTES[route]
        if not self.ids[s] or self.leftovers[s] or self.tampered[s]:
            # precondition: the source of a migration holds no outstanding crash leftover (migrate hard-links
            # every file of the source, so protecting the new object would also chmod the leftover) and no
            # object the harness tampered with (a migration re-files the bytes it finds, unverified)
            return
        if s == 2 and any(_href(b, "md5-dos2unix") in self.ids[2] for b in self.big):
            self.labels.add("migrate-legacy-with-mixed-large")
        n = migrate(prepare(self.odbs[s], self.odbs[t]))
        self.labels.add("migrate:" + route)
        if n:
            self.effective.add("migrate")

    @rule(store=st.integers(0, 3), used=st.lists(st.integers(0, 40), max_size=5), shallow=st.booleans())
    @traced
    def gc(self, store, used, shallow):
        from dvc_data.hashfile.gc import gc
        from dvc_data.hashfile.hash_info import HashInfo

        have = sorted(self.ids[store])
        if not have:
            return
        algo = STORES[store][2]
        keep = {HashInfo(algo, have[i % len(have)]) for i in used}
        n = gc(self.odbs[store], keep, shallow=shallow or store == 3)
        self.labels.add("gc" + ("" if shallow or store == 3 else "-expanding"))
        if n:
            self.effective.add("gc")

    @rule(store=st.sampled_from([0, 0, 0, 2, 3]), which=st.integers(0, 40),
          cut=st.one_of(st.just(0), st.just(0), st.integers(1, 300)))
    @traced
    def crash_leftover(self, store, which, cut):
        """Plant what an add killed inside the reflink probe (open(final, O_CREAT|O_TRUNC)) leaves behind: an
        empty - or partially written - unprotected file under the final path of a pool object that the store
        does not hold yet.  Local-class stores only."""
        cands = [(f[0], f[1]) for f in self.files]
        if store != 3:
            cands += [(None, b) for b in self.listings]
        if not cands:
            return
        algo = STORES[store][2]
        _p, data = cands[which % len(cands)]
        isdir = which % len(cands) >= len(self.files)
        oid = _href(data, algo) + (".dir" if isdir else "")
        planted = data[: cut % len(data)] if data else b""
        if planted == data or oid in self.ids[store] or oid in self.leftovers[store]:
            return
        path = self.odbs[store].oid_to_path(oid)
        os.makedirs(os.path.dirname(path), exist_ok=True)
        fd = os.open(path, os.O_WRONLY | os.O_CREAT | os.O_TRUNC, 0o666)
        try:
            os.write(fd, planted)
        finally:
            os.close(fd)
        self.leftovers[store][oid] = planted
        self.labels.add("crash_leftover" + ("-partial" if planted else "-empty") + ("-dir" if isdir else ""))

    # ---- oracle: audit every store after every step -----------------------------------------
    def check_state(self):
        for i, (label, kind, algo) in enumerate(STORES):
            path = self.odbs[i].path
            if algo == "sha256":
                problems, contents = _audit_foreign(path, algo)
            else:
                problems, contents = ref.audit_local_store(path, algo, require_protected=(kind == "local") or None)
            if algo == "md5-dos2unix":
                # ref.audit_local_store sniffs the whole content once; objects > 1 MiB are judged per chunk
                problems = [p for p in problems
                            if not (p[0] == "mismatch" and len(contents.get(p[1], b"")) > CHUNK
                                    and not p[1].endswith(".dir") and _href(contents[p[1]], algo) == p[1])]
            problems = self._judge_leftovers(i, label, contents, problems)
            problems = self._judge_tampered(i, contents, problems)
            for what, oid, why in problems:
                self.violate(f"{what}:{_origin(self.trace)}", f"store {label} ({kind}, {algo}): {why}")
            for oid, data in contents.items():
                if oid.endswith(".dir"):
                    self.saw_dir = True
                elif oid in self.leftovers[i] or oid in self.tampered[i]:
                    continue
                elif data not in self.file_bytes and _is_listing(data):
                    self.violate(f"dir-suffix-lost:{_origin(self.trace)}",
                                 f"store {label}: object {oid} holds a directory listing but has no '.dir' suffix")
            ids = set(contents) - set(self.leftovers[i])
            if ids != self.ids[i]:
                self.changes[i] += 1
                self.ids[i] = ids
            self.temps = max(self.temps, len(ref.walk_store(path)[1]))

    def _judge_leftovers(self, i, label, contents, problems):
        """A planted leftover is tolerated only while it is untouched, unprotected and not vouched for by the
        state; a rule may heal it (remove it, or replace it by the right bytes) but never bless it."""
        from dvc_objects.fs.local import LocalFileSystem

        algo = STORES[i][2]
        origin = _origin(self.trace)
        tolerated = set()
        for oid, planted in list(self.leftovers[i].items()):
            raw = oid[:-4] if oid.endswith(".dir") else oid
            if oid not in contents:
                del self.leftovers[i][oid]
                self.labels.add("leftover-healed-by-removal")
                continue
            if _href(contents[oid], algo) == raw:
                del self.leftovers[i][oid]
                self.labels.add("leftover-healed-by-replacement")
                continue
            if contents[oid] != planted:
                del self.leftovers[i][oid]
                continue  # rewritten with other mismatching bytes: judged by the ordinary audit
            path = self.odbs[i].oid_to_path(oid)
            if stat.S_IMODE(os.lstat(path).st_mode) == 0o444:
                self.violate(f"leftover-protected:{origin}",
                             f"store {label}: the leftover of an interrupted add under {oid} "
                             f"({len(planted)} bytes, not the object) was kept and protected (0o444)")
            if self.state is not None:
                _m, h = self.state.get(path, LocalFileSystem())
                if h is not None and h.value == oid:
                    self.violate(f"leftover-state-vouched:{origin}",
                                 f"store {label}: the state records the leftover under {oid} as a valid object")
            tolerated.add(oid)
        return [p for p in problems if not (p[1] in tolerated and p[0] in ("mismatch", "mode"))]

    def _judge_tampered(self, i, contents, problems):
        """An object the harness tampered with is excused - in the store where the harness did it, and only
        while it still holds exactly the bytes the harness wrote; gone or correctly replaced = healed, anything
        else is judged by the ordinary audit.  The same bytes under the same name in ANOTHER store are not
        excused: they got there through the library."""
        excused = set()
        for oid, planted in list(self.tampered[i].items()):
            raw = oid[:-4] if oid.endswith(".dir") else oid
            if oid not in contents:
                del self.tampered[i][oid]
                self.labels.add("tampered-healed-by-removal")
            elif ref.ref_hash(contents[oid], "md5") == raw:
                del self.tampered[i][oid]
                self.labels.add("tampered-healed-by-replacement")
            elif contents[oid] != planted:
                del self.tampered[i][oid]
            else:
                excused.add(oid)
        return [p for p in problems if not (p[1] in excused and p[0] == "mismatch")]

    def on_summary(self):
        nontrivial = bool(max(self.changes) >= 2 and self.saw_dir and self.effective)
        classes = sorted(self.labels | {"effective:" + e for e in self.effective})
        for i, (label, _k, _a) in enumerate(STORES):
            if self.changes[i] >= 2:
                classes.append(f"store{label}-changed>=2")
        if self.saw_dir:
            classes.append("has-dir-object")
        if self.temps:
            classes.append("temp-leftover-seen")
        classes.append(f"steps={min(len(self.trace), 13) // 4 * 4}+")
        return Result(nontrivial=nontrivial, classes=classes, counters={"steps": len(self.trace)})


class _StaleInfoFS(ops.LocalFileSystem):
    """The local filesystem, except that info() of the given paths also reports an 'md5' recorded earlier (as a
    filesystem that serves checksums from metadata does when the metadata lags behind the data)."""

    def __init__(self, advertised):
        super().__init__()
        self._advertised = dict(advertised)

    def info(self, path, *args, **kwargs):
        res = super().info(path, *args, **kwargs)
        if isinstance(path, str) and path in self._advertised and isinstance(res, dict):
            res = dict(res, md5=self._advertised[path])
        return res


def _origin(trace):
    """Root-cause part of a signature: the rule after which the audit failed (never its arguments)."""
    if not trace:
        return "initial"
    s = trace[-1]
    if s["op"] == "migrate":
        return "migrate:" + s["args"]["route"]
    return s["op"]


def _is_listing(data):
    lst = ref.parse_listing(data)
    return bool(lst) and all(isinstance(e.get("relpath"), str) for e in lst)


def _audit_foreign(path, algo):
    """Audit of the sha256 migration target: name = sha256 of the bytes; a '.dir' object parses as a listing
    (its child ids are still those of the source algorithm, so the md5-keyed canonical form is checked)."""
    objs, _temps, stray = ref.walk_store(path)
    problems, contents = [], {}
    for oid, p in sorted(objs.items()):
        data = ref.read(p)
        contents[oid] = data
        isdir = oid.endswith(".dir")
        raw = oid[:-4] if isdir else oid
        if not ref.HEX.match(raw):
            problems.append(("mismatch", oid, f"object name {oid!r} is not a digest"))
        elif ref.ref_hash(data, algo) != raw:
            problems.append(("mismatch", oid, f"object {oid} holds bytes whose {algo} is {ref.ref_hash(data, algo)}"))
        elif isdir:
            lst = ref.parse_listing(data)
            if lst is None or not all("md5" in e for e in lst):
                problems.append(("mismatch", oid, f"directory object {oid} does not parse as a listing"))
            elif ref.ref_tree_bytes({e["relpath"]: e["md5"] for e in lst}, "md5") != data:
                problems.append(("mismatch", oid, f"directory object {oid} is not in canonical form"))
        mode = stat.S_IMODE(os.lstat(p).st_mode)
        if mode != 0o444:
            problems.append(("mode", oid, f"object {oid} has mode {oct(mode)}, expected 0o444"))
    for s in stray:
        problems.append(("stray", os.path.relpath(s, path), f"unexpected file {s} in store"))
    return problems, contents


def run(ctx):
    run_trace_machine(ctx, C01Machine, ctx.n(quick=175, thorough=1750), 12)


def replay(case, ctx):
    replay_trace_machine(ctx, C01Machine, case)
