"""Reference model for C18: an independent longest-prefix-per-role resolver and the reachable sets.

Nothing in this file imports the code under test.  A flow case is JSON:

    ws        nested {name: content-string | subtree}           the workspace
    tracked   [[part, ...], ...]  keys (depth 1 or 2) of workspace files / directories, prefix-free
    prefixes  [{"key": [...], "cache": i|None, "remote": j|None}, ...]   storage map, in insertion order;
              a prefix may lie strictly inside a tracked directory as long as the cache does not change there

All functions below are pure functions of that data.
"""

from .. import gen, ref

ROLES = ("cache", "remote")


def resolve(prefixes, key, roles=ROLES):
    """Independent resolver: per role, the value set by the longest prefix of `key` that sets it."""
    key = tuple(key)
    best = {r: (None, -1) for r in roles}
    matched = False
    for p in prefixes:
        k = tuple(p["key"])
        if len(k) <= len(key) and key[: len(k)] == k:
            matched = True
            for r in roles:
                if p.get(r) is not None and len(k) > best[r][1]:
                    best[r] = (p[r], len(k))
    return matched, {r: best[r][0] for r in roles}


def is_prefix(p, k):
    p, k = tuple(p), tuple(k)
    return len(p) <= len(k) and k[: len(p)] == p


def dir_keys(flat):
    """Every directory key of the workspace (all depths)."""
    out = set()
    for rel in flat:
        parts = tuple(rel.split("/"))
        for i in range(1, len(parts)):
            out.add(parts[:i])
    return out


def manifest_under(flat, key):
    """{relpath below key: oid} for the files under directory `key`."""
    pre = "/".join(key) + "/"
    return {rel[len(pre):]: ref.ref_hash(b) for rel, b in flat.items() if rel.startswith(pre)}


class Model:
    """Everything the oracle needs, computed from the case alone."""

    def __init__(self, case):
        self.case = case
        self.flat = gen.flatten_case(case["ws"])
        self.prefixes = case["prefixes"]
        self.tracked = [tuple(k) for k in case["tracked"]]
        self.dirs = dir_keys(self.flat)
        self.bytes = {}  # oid -> bytes for every object that may legitimately exist anywhere
        self.entries = {}  # tracked key -> {"isdir", "oid", "reach": set(oids), "files": {rel: bytes}}
        for k in self.tracked:
            rel = "/".join(k)
            if rel in self.flat:
                oid = ref.ref_hash(self.flat[rel])
                self.bytes[oid] = self.flat[rel]
                self.entries[k] = {"isdir": False, "oid": oid, "reach": {oid}, "files": {rel: self.flat[rel]},
                                   "listed": set(), "man": {}}
            else:
                man = manifest_under(self.flat, k)
                oid = ref.ref_tree_oid(man)
                self.bytes[oid] = ref.ref_tree_bytes(man)
                files = {}
                for sub in man:
                    full = rel + "/" + sub
                    files[full] = self.flat[full]
                    self.bytes[man[sub]] = self.flat[full]
                self.entries[k] = {"isdir": True, "oid": oid, "reach": {oid} | set(man.values()),
                                   "files": files, "listed": set(man.values()), "man": man}
        self.res = {k: resolve(self.prefixes, k)[1] for k in self.tracked}

    # ---- domain ----------------------------------------------------------------------------
    def domain_problem(self):
        """None if the case is inside the input domain, else the reason."""
        c = self.case
        keys = [tuple(p["key"]) for p in self.prefixes]
        if len(set(keys)) != len(keys):
            return "duplicate prefix"
        if not self.tracked:
            return "nothing tracked"
        for k in self.tracked:
            rel = "/".join(k)
            if not (1 <= len(k) <= 2) or (rel not in self.flat and k not in self.dirs):
                return f"tracked key {k} is not a workspace path of depth 1-2"
        for a in self.tracked:
            for b in self.tracked:
                if a != b and is_prefix(a, b):
                    return "tracked keys nest"
        for p in keys:
            for k in self.tracked:
                if len(p) > len(k) and is_prefix(k, p):
                    # a storage prefix strictly inside a tracked entry: a path inside a tracked directory, and
                    # the cache must not change there (a directory object and the files it lists live in one
                    # store - transfer and save rely on that)
                    if not self.entries[k]["isdir"]:
                        return "storage prefix below a tracked file"
                    if "/".join(p) not in self.flat and p not in self.dirs:
                        return "inner storage prefix is not a workspace path"
                    if resolve(self.prefixes, p)[1]["cache"] != self.res[k]["cache"]:
                        return "the cache changes inside a tracked directory"
        nc, nr = len(c["cache_kinds"]), len(c["remote_kinds"])
        for p in self.prefixes:
            if p["cache"] is not None and not 0 <= p["cache"] < nc:
                return "cache index out of range"
            if p["remote"] is not None and not 0 <= p["remote"] < nr:
                return "remote index out of range"
        for k in self.tracked:
            if self.res[k]["cache"] is None:
                return f"tracked entry {k} lacks a cache"
        if not any(rm is not None for _o, _c, rm, _k in self.designation()):
            return "no tracked object has a remote"
        for p in keys:
            r = resolve(self.prefixes, p)[1]
            if r["remote"] is not None and r["cache"] is None:
                return "a prefix has a remote but no cache"
        return None

    # ---- derived sets ----------------------------------------------------------------------
    def prefix_res(self):
        """[(prefix key, cache, remote)] for every prefix that resolves to a remote (and hence a cache)."""
        out = []
        for p in self.prefixes:
            r = resolve(self.prefixes, p["key"])[1]
            if r["remote"] is not None:
                out.append((tuple(p["key"]), r["cache"], r["remote"]))
        return out

    def caches_of_remote(self):
        out = {}
        for _k, c, r in self.prefix_res():
            out.setdefault(r, set()).add(c)
        return out

    def shaped_remotes(self):
        """Remote stores paired with >= 2 distinct caches across the prefixes that resolve to them."""
        return {r for r, cs in self.caches_of_remote().items() if len(cs) >= 2}

    def involved_keys(self):
        """Tracked keys lying under a prefix that resolves to a shaped remote."""
        sh = self.shaped_remotes()
        return {k for k in self.tracked for pk, _c, r in self.prefix_res()
                if r in sh and (is_prefix(pk, k) or is_prefix(k, pk))}

    def cacheof(self):
        """{remote: its one cache} for the remotes paired with a single cache."""
        return {r: next(iter(cs)) for r, cs in self.caches_of_remote().items() if len(cs) == 1}

    def designation(self, keys=None):
        """[(oid, cache, remote, tracked key)] - one item per tracked object occurrence.  A plain file and a
        directory object belong to what their entry key resolves to; a file listed by a directory belongs to
        what its own full key resolves to (a longer prefix inside the directory may override the remote)."""
        out = []
        for k in (self.tracked if keys is None else keys):
            e = self.entries[k]
            out.append((e["oid"], self.res[k]["cache"], self.res[k]["remote"], k))
            for rel, oid in e["man"].items():
                r = resolve(self.prefixes, k + tuple(rel.split("/")))[1]
                out.append((oid, r["cache"], r["remote"], k))
        return out

    def designated(self, role, keys=None):
        """{store index: set(oids)}: the objects the mapping designates to each store of `role`."""
        out = {}
        for oid, c, r, _k in self.designation(keys):
            store = c if role == "cache" else r
            if store is not None:
                out.setdefault(store, set()).add(oid)
        return out

    def objs_under(self, pk, keys=None):
        """Objects of the tracked entries lying under storage prefix `pk`: whole entries at or below it, and
        the files below it of a tracked directory that contains it."""
        pk = tuple(pk)
        out = set()
        for k in (self.tracked if keys is None else keys):
            e = self.entries[k]
            if is_prefix(pk, k):
                out |= e["reach"]
            elif is_prefix(k, pk):
                sub = pk[len(k):]
                for rel, oid in e["man"].items():
                    if tuple(rel.split("/"))[: len(sub)] == sub:
                        out.add(oid)
        return out

    def requested_remote(self):
        """{remote: set(oids)}: upper bound - objects of every tracked entry (or part of one) lying under *some*
        prefix whose resolved remote is that store (equals designated('remote') unless a longer prefix overrides
        the remote of a shorter one)."""
        out = {}
        for pk, _c, r in self.prefix_res():
            out.setdefault(r, set()).update(self.objs_under(pk))
        return out

    def straddling(self, dkey):
        """A directory below which the cache changes (its listing and its files would go to different caches)."""
        own = resolve(self.prefixes, dkey)[1]["cache"]
        pre = "/".join(dkey) + "/"
        return any(resolve(self.prefixes, tuple(rel.split("/")))[1]["cache"] != own
                   for rel in self.flat if rel.startswith(pre))

    def expected_cache_after_save(self):
        """{cache: {oid: bytes}} for a save of the whole workspace minus entries without a cache and
        minus directories that straddle a storage prefix (those are dropped from the index first)."""
        out = {}
        for rel, data in self.flat.items():
            c = resolve(self.prefixes, tuple(rel.split("/")))[1]["cache"]
            if c is not None:
                out.setdefault(c, {})[ref.ref_hash(data)] = data
        for dk in self.dirs:
            c = resolve(self.prefixes, dk)[1]["cache"]
            if c is None or self.straddling(dk):
                continue
            man = manifest_under(self.flat, dk)
            out.setdefault(c, {})[ref.ref_tree_oid(man)] = ref.ref_tree_bytes(man)
        return out

    def expected_checkout(self):
        out = {}
        for e in self.entries.values():
            out.update(e["files"])
        return out
