"""C19 - three-way directory merge never silently loses or overrides an entry.

Two routes through the code under test:

* ``_merge(ancestor, ours, theirs, allowed)`` on ``Tree.as_dict()``-shaped dictionaries
  ``key tuple -> (Meta | None, HashInfo)``;
* ``merge(odb, ancestor_info, our_info, their_info, allowed)`` on trees that were stored with the code's
  own ``Tree.add`` / ``digest`` / ``odb.add`` path (what DVC's merge driver does), whose result must carry
  the canonical identifier of its content.

The oracle is the per-key three-way rule written over opaque value tokens; it never calls dictdiffer.
"""

import hashlib
import itertools

from hypothesis import strategies as st

from .. import gen, ops, ref
from ..ctx import Result, Viol, product_frame

LEVEL = "exploration"
WORKERS = {"quick": 8, "thorough": 16}
BUDGET_S = {"quick": 50, "thorough": 650}

ENUM_KEYS = [["a"], ["dir", "f"], ["dir", "g"]]
ENUM_VALS = [None, "1", "2"]
ENUM_POLICIES = [None, ["add"], ["add", "remove"], ["add", "change"], ["add", "remove", "change"]]
ENUM_QUICK_POLICIES = [None, ["add", "remove", "change"]]
ENUM_TRIPLES = 3 ** 9
ENUM_FULL = ENUM_TRIPLES * len(ENUM_POLICIES)
SUBDOMAIN = (
    "all (ancestor, ours, theirs) triples over the 3 keys ('a',), ('dir','f'), ('dir','g') with each key "
    "absent / v1 / v2 on each side (3^9 = 19 683 triples) x the 5 policies {default, [add], [add,remove], "
    "[add,change], [add,remove,change]} = 98 415 (ordered triple, policy) pairs, each through _merge and "
    "merge(odb); one executed case covers a triple and its mirror image (both argument orders), so "
    "10 206 x 5 = 51 030 cases"
)

RULE = (
    "Random half: Hypothesis draws a prefix-free universe of 1-6 keys (1-3 parts, nested, odd and "
    "non-ASCII names), per key and side a value token or absence (sides derived from the ancestor by "
    "keep/remove/change/add so keys overlap; tokens may differ in metadata only), a policy (None, [] or "
    "any subset of add/remove/change), the route (_merge on as_dict()-shaped dictionaries with three "
    "metadata styles, or merge(odb) on trees stored through Tree.add/digest/odb.add in a "
    "LocalHashFileDB / HashFileDB / memfs HashFileDB, optionally a legacy md5-dos2unix store, ancestor "
    "given as None or as a stored empty tree; most merge(odb) cases then merge the SAME stored triple again "
    "under a history of 2-4 further policies and argument orders - permissive-then-strict orders frequent, "
    "also strict-then-permissive and repeats - each call judged on its own under its policy, identical "
    "calls must agree: the outcome may not depend on what was merged before). Enumerated half: the finite sub-domain 3 keys x "
    "{absent,v1,v2} per side, sharded over the workers; a case runs both argument orders, so only pairs "
    "ours<=theirs are generated (thorough: all 98 415 (ordered triple, policy) pairs through both routes; "
    "quick: all ordered triples under the policies default and [add,remove,change], merge(odb) on a fixed "
    "eighth of the cases). Oracle: flat per-key rule (ours==theirs -> that; ours==ancestor -> theirs; "
    "theirs==ancestor -> ours; else conflict): a call returns exactly the rule's listing or raises "
    "MergeError; any other exception, a success despite a conflict, a dropped / resurrected / overridden "
    "/ invented entry, two successful argument orders that disagree, a success that combines "
    "changes of kinds the policy does not allow (default: anything but additions), or a merged tree "
    "whose oid / bytes are not the reference listing of its content is a violation. Non-trivial = both "
    "sides differ from the ancestor and from each other; distinct = SHA-1 of the canonical case JSON."
)
ASSUMPTIONS = [
    "listings are well-formed: keys are non-empty tuples of '/'-free parts and no key is a prefix of another",
    "entries are compared as whole (meta, hash) values; metadata fields declared eq=False are not varied",
    "a both-sides deletion answered with MergeError is allowed by the statement ('or fails with a merge error')",
    "hashlib and vd.ref.ref_tree_bytes are the trusted reference for the merged tree's identifier",
]

OID = {t: hashlib.md5(("c19-value-" + t).encode()).hexdigest() for t in "123"}  # noqa: S324
REV_OID = {v: k for k, v in OID.items()}
STORES = ["mem", "local", "generic"]
META_STYLES = ["loaded", "none", "bare"]
KINDS = ("add", "remove", "change")


# ------------------------------------------------------------------------------------------
# reference: per-key three-way rule over tokens
# ------------------------------------------------------------------------------------------
def three_way(anc, ours, theirs):
    """-> (merged {key: token}, sorted list of conflicting keys)"""
    merged, conflicts = {}, []
    for k in sorted(set(anc) | set(ours) | set(theirs)):
        a, o, t = anc.get(k), ours.get(k), theirs.get(k)
        if o == t:
            r = o
        elif o == a:
            r = t
        elif t == a:
            r = o
        else:
            conflicts.append(k)
            continue
        if r is not None:
            merged[k] = r
    return merged, conflicts


def side_kinds(anc, side):
    out = set()
    for k in set(anc) | set(side):
        if k not in anc:
            out.add("add")
        elif k not in side:
            out.add("remove")
        elif anc[k] != side[k]:
            out.add("change")
    return out


def hash_of(tok):
    return tok.split("+")[0]


def side_dict(case, name, project=False):
    out = {}
    for key, tok in zip(case["keys"], case[name]):
        if tok is not None:
            out[tuple(key)] = hash_of(tok) if project else tok
    return out


def pol_label(policy):
    if policy is None:
        return "None"
    if not policy:
        return "[]"
    return "+".join(k for k in KINDS if k in policy)


# ------------------------------------------------------------------------------------------
# materialising values
# ------------------------------------------------------------------------------------------
def make_value(tok, style):
    from dvc_data.hashfile.hash_info import HashInfo
    from dvc_data.hashfile.meta import Meta

    h, _, size = tok.partition("+")
    oid = OID[h]
    kw = {}
    if size:
        kw["size"] = int(size)
    if style == "loaded":
        meta = Meta(md5=oid, **kw)
    elif style == "bare":
        meta = Meta(**kw)
    else:
        meta = Meta(**kw) if kw else None
    return (meta, HashInfo("md5", oid))


def judge(route, outcomes, anc, ours, theirs, policy):
    """outcomes: [(order label, 'ok', {key: token}) | (order, 'merge-error', msg) | (order, 'exc', Viol)]
    for the argument orders (ours, theirs) and (theirs, ours). Returns (violations, class labels)."""
    expected, conflicts = three_way(anc, ours, theirs)
    viols, classes = [], []
    ok_results = []
    for order, kind, val in outcomes:
        if kind == "exc":
            viols.append(val)
            classes.append("outcome=other-exception")
            continue
        if kind == "merge-error":
            if conflicts:
                classes.append("outcome=merge-error:conflict")
            elif any(k in anc and k not in ours and k not in theirs for k in anc):
                classes.append("outcome=merge-error:both-deleted")
            else:
                classes.append("outcome=merge-error:policy")
            continue
        got = val
        ok_results.append(got)
        classes.append("outcome=merged")
        if conflicts:
            viols.append(Viol(f"{route}:success-despite-conflict",
                              f"{order}: returned {fmt(got)} although {fmt_keys(conflicts)} conflict "
                              f"(ancestor {fmt(anc)}, ours {fmt(ours)}, theirs {fmt(theirs)})"))
            continue
        dropped = sorted(k for k in expected if k not in got)
        extra = sorted(k for k in got if k not in expected)
        wrong = sorted(k for k in expected if k in got and got[k] != expected[k])
        ctxt = f"(ancestor {fmt(anc)}, ours {fmt(ours)}, theirs {fmt(theirs)}, policy {policy})"
        if dropped:
            viols.append(Viol(f"{route}:dropped-entry",
                              f"{order}: merge result lacks {fmt_keys(dropped)} {ctxt}"))
        if extra:
            viols.append(Viol(f"{route}:resurrected-entry",
                              f"{order}: merge result holds {fmt_keys(extra)} which the rule removes {ctxt}"))
        if wrong:
            viols.append(Viol(f"{route}:overridden-entry",
                              f"{order}: merge result has another value than the rule at "
                              f"{fmt_keys(wrong)}: got {fmt(got)}, expected {fmt(expected)} {ctxt}"))
        # policy: a success that combines changes from both sides only uses allowed kinds
        if ours != anc and theirs != anc:
            allowed = set(policy) if policy else {"add"}
            used = side_kinds(anc, ours) | side_kinds(anc, theirs)
            if not used <= allowed:
                sig = "default-policy-leak" if not policy else "policy-leak"
                viols.append(Viol(f"{route}:{sig}",
                                  f"{order}: merge combining both sides accepted although the sides "
                                  f"{sorted(used - allowed)} entries and the policy allows only "
                                  f"{sorted(allowed)} {ctxt}"))
    if len(ok_results) == 2 and ok_results[0] != ok_results[1]:
        viols.append(Viol(f"{route}:order-asymmetry",
                          f"both argument orders succeeded with different results: {fmt(ok_results[0])} "
                          f"vs {fmt(ok_results[1])}"))
    kinds = sorted({c for _, c, _ in outcomes})
    if kinds == ["merge-error", "ok"]:
        classes.append("one-order-refuses")
    return viols, classes


def fmt(d):
    return "{" + ", ".join(f"{'/'.join(k)}: {v}" for k, v in sorted(d.items())) + "}"


def fmt_keys(keys):
    return "[" + ", ".join("/".join(k) for k in keys) + "]"


def exc_viol(route, exc):
    fr = product_frame(exc)
    if fr is None:
        raise exc
    return Viol(f"exc:{type(exc).__name__}:{fr[0]}:{fr[1]}",
                f"{route}: {type(exc).__name__}({exc}) instead of a result or MergeError (in {fr[0]}:{fr[1]})")


# ------------------------------------------------------------------------------------------
# route 1: _merge on dictionaries
# ------------------------------------------------------------------------------------------
def run_dict_route(case):
    from dvc_data.hashfile.tree import MergeError, _merge

    style = case.get("meta_style", "loaded")
    anc, ours, theirs = (side_dict(case, n) for n in ("anc", "ours", "theirs"))
    toks = set(anc.values()) | set(ours.values()) | set(theirs.values())
    val = {t: make_value(t, style) for t in toks}
    back = {v: t for t, v in val.items()}
    policy = case["policy"]

    def real(d):
        return {k: val[t] for k, t in d.items()}

    outcomes = []
    for order, (x, y) in (("(ours, theirs)", (ours, theirs)), ("(theirs, ours)", (theirs, ours))):
        try:
            got = _merge(real(anc), real(x), real(y), allowed=None if policy is None else list(policy))
        except MergeError as exc:
            outcomes.append((order, "merge-error", str(exc)))
            continue
        except Exception as exc:  # noqa: BLE001
            outcomes.append((order, "exc", exc_viol("_merge" + order, exc)))
            continue
        if not isinstance(got, dict):
            outcomes.append((order, "exc", Viol("dict:not-a-dict", f"_merge returned {type(got).__name__}")))
            continue
        conv, bad = {}, []
        for k, v in got.items():
            if v in back:
                conv[k] = back[v]
            else:
                bad.append(k)
                conv[k] = "?"
        if bad:
            outcomes.append((order, "exc", Viol("dict:invented-value",
                                                f"{order}: value(s) at {bad} occur on no side")))
            continue
        outcomes.append((order, "ok", conv))
    return judge("dict", outcomes, anc, ours, theirs, policy)


# ------------------------------------------------------------------------------------------
# route 2: merge(odb, ...) on stored trees
# ------------------------------------------------------------------------------------------
def store_tree(odb, listing, style="loaded"):
    from dvc_data.hashfile.tree import Tree

    tree = Tree()
    for k in sorted(listing):
        meta, hi = make_value(listing[k], style)
        tree.add(k, meta, hi)
    tree.digest()
    odb.add(tree.path, tree.fs, tree.oid, hardlink=False)
    return tree.hash_info


def raw_object(odb, kind, oid):
    if kind == "mem":
        objs = ref.walk_memstore(odb.fs, odb.path)
        p = objs.get(oid)
        return None if p is None else bytes(odb.fs.fs.store[p].getvalue())
    objs, _, _ = ref.walk_store(odb.path)
    p = objs.get(oid)
    return None if p is None else ref.read(p)


def run_odb_route(case, ctx):
    import os

    from dvc_data.hashfile.tree import MergeError, Tree, merge

    anc, ours, theirs = (side_dict(case, n, project=True) for n in ("anc", "ours", "theirs"))
    policy = case["policy"]
    kind = case.get("store", "mem")
    viols = []
    with ctx.tmpdir() as d:
        config = {"hash_name": "md5-dos2unix"} if case.get("legacy") else {}
        odb = ops.make_odb(kind, "/c19-odb" if kind == "mem" else os.path.join(d, "odb"), **config)
        infos = {}
        for name, listing in (("anc", anc), ("ours", ours), ("theirs", theirs)):
            if name == "anc" and not listing and case.get("anc_none"):
                infos[name] = None
                continue
            infos[name] = store_tree(odb, listing)
            want = ref.ref_tree_oid({"/".join(k): OID[t] for k, t in listing.items()})
            if infos[name].value != want:
                # the input trees themselves must be canonical, else the route checks nothing
                return [Viol("odb:input-tree-oid", f"stored {name} tree got oid {infos[name].value}, "
                                                    f"reference {want}")], []
        def one_merge(order, x, y, pol):
            """One merge(odb, ...) call -> outcome tuple for judge(); identifier/bytes violations go to viols."""
            try:
                merged = merge(odb, infos["anc"], infos[x], infos[y], allowed=None if pol is None else list(pol))
            except MergeError as exc:
                return (order, "merge-error", str(exc))
            except Exception as exc:  # noqa: BLE001
                return (order, "exc", exc_viol("merge" + order, exc))
            if not isinstance(merged, Tree):
                return (order, "exc", Viol("odb:not-a-tree", f"merge returned {type(merged).__name__}"))
            conv, entries, bad = {}, {}, []
            for k, _meta, hi in merged:
                v = getattr(hi, "value", None)
                entries["/".join(k)] = v
                if v in REV_OID:
                    conv[tuple(k)] = REV_OID[v]
                else:
                    bad.append(k)
            if bad:
                return (order, "exc", Viol("odb:invented-value",
                                           f"{order}: merged tree has hash(es) at {bad} that occur on no side"))
            # canonical identifier of the merged content
            want_bytes = ref.ref_tree_bytes(entries)
            want_oid = ref.ref_hash(want_bytes) + ".dir"
            hv = getattr(merged.hash_info, "value", None)
            if merged.oid != want_oid or hv != want_oid:
                viols.append(Viol("odb:merged-oid",
                                  f"{order}: merged tree oid={merged.oid} hash_info={hv}, reference "
                                  f"{want_oid} for {entries}"))
                return (order, "ok", conv)
            # what the caller stores (DVC: odb.add(merged.path, merged.fs, merged.oid)) is that listing
            try:
                odb.add(merged.path, merged.fs, merged.oid, hardlink=False)
            except Exception as exc:  # noqa: BLE001
                viols.append(exc_viol("odb.add(merged)", exc))
                return (order, "ok", conv)
            data = raw_object(odb, kind, want_oid)
            if data != want_bytes:
                viols.append(Viol("odb:merged-bytes",
                                  f"{order}: object stored for the merged tree holds "
                                  f"{None if data is None else data[:120]!r}, reference {want_bytes[:120]!r}"))
            return (order, "ok", conv)

        outcomes = [one_merge("(ours, theirs)", "ours", "theirs", policy),
                    one_merge("(theirs, ours)", "theirs", "ours", policy)]
        hist_viols, hist_classes = run_history(case.get("history"), one_merge, anc, ours, theirs)
        v2, classes = judge("odb", outcomes, anc, ours, theirs, policy)
    return viols + v2 + hist_viols, classes + hist_classes


def allowed_set(policy):
    return frozenset(policy) if policy else frozenset(["add"])


def run_history(history, one_merge, anc, ours, theirs):
    """The same stored triple merged again under a sequence of policies / argument orders. Every call is
    judged on its own against the per-key rule under ITS policy: the outcome of a merge must not depend on
    what was merged before (same oids, same process)."""
    if not history:
        return [], []
    viols, classes = [], ["history"]
    seen = {}       # (policy set, swapped) -> outcome
    done = []       # (policy set, swapped, kind)
    for n, step in enumerate(history):
        pol, swap = step["policy"], bool(step["swap"])
        label = f"history step {n} policy {pol} " + ("(theirs, ours)" if swap else "(ours, theirs)")
        out = one_merge(label, "theirs" if swap else "ours", "ours" if swap else "theirs", pol)
        a, b = (theirs, ours) if swap else (ours, theirs)
        v, _ = judge("odb-history", [out], anc, a, b, pol)
        viols += v
        key = (allowed_set(pol), swap)
        if key in seen and seen[key][1:] != out[1:] and "exc" not in (seen[key][1], out[1]) and not (
                seen[key][1] == out[1] == "merge-error"):
            viols.append(Viol("odb-history:outcome-changed",
                              f"{label}: the same call gave {seen[key][1]} before and {out[1]} now"))
        seen.setdefault(key, out)
        for p0, s0, k0 in done:
            if k0 == "ok" and key[0] < p0:
                classes.append("history:stricter-after-permissive-success")
                if out[1] == "merge-error":
                    classes.append("history:stricter-refuses-after-permissive-success")
            if k0 == "merge-error" and key[0] > p0 and out[1] == "ok":
                classes.append("history:permissive-succeeds-after-stricter-refusal")
        done.append((key[0], swap, out[1]))
    return viols, classes


# ------------------------------------------------------------------------------------------
# run_case
# ------------------------------------------------------------------------------------------
def validate(case):
    keys = [tuple(k) for k in case["keys"]]
    assert keys, "empty universe"
    assert len(set(keys)) == len(keys), "duplicate key"
    for k in keys:
        assert k and all(isinstance(p, str) and p and "/" not in p and "\0" not in p for p in k), k
    for a in keys:
        for b in keys:
            assert a == b or a != b[:len(a)], f"{a} is a prefix of {b}"
    for name in ("anc", "ours", "theirs"):
        assert len(case[name]) == len(keys)
    assert case["policy"] is None or set(case["policy"]) <= set(KINDS)
    assert case["route"] in ("dict", "odb", "both")
    for step in case.get("history") or []:
        assert step["policy"] is None or set(step["policy"]) <= set(KINDS)
        assert step["swap"] in (True, False, 0, 1)
    assert not case.get("history") or case["route"] in ("odb", "both")


def run_case(case, ctx):
    validate(case)
    route = case["route"]
    viols, classes = [], []
    if route in ("dict", "both"):
        v, c = run_dict_route(case)
        viols += v
        classes += ["dict:" + x for x in c]
        classes.append("route=_merge")
        classes.append("meta-style=" + case.get("meta_style", "loaded"))
    if route in ("odb", "both"):
        v, c = run_odb_route(case, ctx)
        viols += v
        classes += ["odb:" + x for x in c]
        classes.append("route=merge(odb)")
        classes.append("store=" + case.get("store", "mem") + ("-legacy" if case.get("legacy") else ""))

    project = route == "odb"
    anc, ours, theirs = (side_dict(case, n, project=project) for n in ("anc", "ours", "theirs"))
    nontrivial = ours != anc and theirs != anc and ours != theirs
    classes.append("policy=" + pol_label(case["policy"]))
    if any(len(k) > 1 for k in list(anc) + list(ours) + list(theirs)):
        classes.append("nested-key")
    if not anc:
        classes.append("empty-ancestor" + ("-as-None" if case.get("anc_none") and route != "dict" else ""))
    if nontrivial:
        classes.append("both-sides-changed")
        for k in set(anc) | set(ours) | set(theirs):
            a, o, t = anc.get(k), ours.get(k), theirs.get(k)
            if a is not None and {o, t} != {a} and None in (o, t) and o != t and a not in (o, t):
                classes.append("shape:remove-vs-change")
            if a is None and o is not None and o == t:
                classes.append("shape:both-added-same")
            if a is None and o is not None and t is not None and o != t:
                classes.append("shape:both-added-different")
            if a is not None and o == t and o is not None and o != a:
                classes.append("shape:both-changed-same")
            if a is not None and o is None and t is None:
                classes.append("shape:both-deleted")
            if None not in (a, o, t) and o != t and hash_of(o) == hash_of(t):
                classes.append("shape:meta-only-difference")
        classes = sorted(set(classes))
        kinds = side_kinds(anc, ours) | side_kinds(anc, theirs)
        classes.append("kinds=" + "+".join(k for k in KINDS if k in kinds))
    else:
        classes = sorted(set(classes))
    counters = {}
    if case.get("enum"):
        # both argument orders were executed: the case covers the ordered triple and its mirror image
        n_ordered = 1 if case["ours"] == case["theirs"] else 2
        counters["enum_cases"] = 1
        counters["enum_ordered_triples"] = n_ordered
        if case["enum"] == "full":
            counters["enum_full_ordered_triples"] = n_ordered
    else:
        counters["random_cases"] = 1
    return Result(viols, nontrivial, classes, counters)


# ------------------------------------------------------------------------------------------
# generators
# ------------------------------------------------------------------------------------------
TOKENS = ["1", "2", "3", "1", "2", "3", "1", "2", "1+7", "1+8", "2+0"]
MAX_KEYS = 6
KEY_POOL = [
    ("a",), ("b",), ("c",), ("dir", "f"), ("dir", "g"), ("dir", "sub", "f"), ("dir", "sub", "g"),
    ("sub", "a"), ("sub", "b"), ("sub", "dir", "a"), ("x.y",), ("dir.dir", "a"), ("a.dir", "b"),
    ("sp ace", "a'b"), ('a"b',), ("Ünï", "文件"), ("é", "{b}", "100%"), ("a\\b", ".hidden"),
]


def prefix_free(keys):
    out = []
    for k in keys:
        if any(k[:len(o)] == o or o[:len(k)] == k for o in out):
            continue
        out.append(k)
    return out


# Strategies are built once and kept to few primitive draws per case: building them inside the composite
# and drawing ~60 primitives per case made generation cost 4x the code under test.
KEY_POOL_EXT = KEY_POOL + [(n,) for n in gen.NAMES] + [("dir", n) for n in gen.NAMES] + [
    (n, "a") for n in gen.NAMES] + [("sub", n, m) for n, m in zip(gen.NAMES, reversed(gen.NAMES))]
_KEYS = st.lists(st.one_of(st.sampled_from(KEY_POOL[:10]), st.sampled_from(KEY_POOL_EXT)),
                 min_size=1, max_size=MAX_KEYS + 2)
ANC_CHOICES = [None, None, None, None, None, *TOKENS, *TOKENS[:8]]
OP_CHOICES = ["keep"] * 9 + ["remove"] * 2 + TOKENS[:8] + ["1", "2", "1+7", "1+8"]
_NA, _NO = len(ANC_CHOICES), len(OP_CHOICES)
_ROWS = st.lists(st.integers(0, _NA * _NO * _NO - 1), min_size=MAX_KEYS, max_size=MAX_KEYS)
POLICY_CHOICES = (
    [None] * 4 + ENUM_POLICIES[1:] * 2 + [["add", "remove", "change"]] * 2
    + [[], ["remove"], ["change"], ["remove", "change"], ["change", "add"], ["change", "remove", "add"]]
)
TAIL_CHOICES = [
    (route, style, store, legacy, anc_none)
    for route in ("dict", "dict", "odb")
    for style in META_STYLES
    for store in ("mem", "mem", "local", "generic")
    for legacy in (False, False, False, True)
    for anc_none in (False, True)
]
_TAIL = st.tuples(st.sampled_from(POLICY_CHOICES), st.sampled_from(TAIL_CHOICES))
FULL = ["add", "remove", "change"]
HISTORY_TEMPLATES = [
    None, None,                                         # no history
    [FULL, None], [FULL, "case"], [FULL, ["add"], ["add", "remove"]], [["add", "change"], None, FULL, None],
    [["add", "remove"], ["add"], FULL], [None, FULL, None], ["case", FULL, "case"], "random",
]
_HISTORY = st.tuples(st.sampled_from(HISTORY_TEMPLATES), st.integers(0, 15),
                     st.lists(st.sampled_from(POLICY_CHOICES), min_size=2, max_size=4))


def make_history(template, swaps, rnd, case_policy):
    if template is None:
        return None
    pols = rnd if template == "random" else [case_policy if p == "case" else p for p in template]
    return [{"policy": None if p is None else list(p), "swap": bool((swaps >> i) & 1)} for i, p in enumerate(pols)]


@st.composite
def cases(draw):
    keys = prefix_free(draw(_KEYS))[:MAX_KEYS]
    rows = draw(_ROWS)[:len(keys)]
    anc, ours, theirs = [], [], []
    for r in rows:
        a, op_o, op_t = ANC_CHOICES[r % _NA], OP_CHOICES[(r // _NA) % _NO], OP_CHOICES[r // (_NA * _NO)]
        anc.append(a)
        for side, op in ((ours, op_o), (theirs, op_t)):
            side.append(a if op == "keep" else None if op == "remove" else op)
    pol, (route, style, store, legacy, anc_none) = draw(_TAIL)
    pol = None if pol is None else list(pol)
    case = {"keys": [list(k) for k in keys], "anc": anc, "ours": ours, "theirs": theirs,
            "policy": pol, "route": route}
    if route == "dict":
        case["meta_style"] = style
    else:
        case["store"] = store
        case["legacy"] = legacy
        case["anc_none"] = anc_none
        hist = make_history(*draw(_HISTORY), pol)
        if hist:
            case["history"] = hist
    return case


def _mix(n):
    """Deterministic integer scrambler: spreads the per-triple choices evenly over the worker shards."""
    return ((n * 2654435761) & 0xFFFFFFFF) >> 11


ENUM_HISTORIES = [None, [FULL, "case"], [FULL, None, "case"], [["add", "change"], "case", FULL, "case"],
                  [["add", "remove"], ["add"]], ["case", FULL, "case"]]


def enum_cases(tier):
    """The finite sub-domain in a fixed order: (index, case).

    Every case runs both argument orders, so the ordered triple (anc, x, y) and its mirror image (anc, y, x)
    are covered by one case: only the pairs x <= y (in enumeration order) are generated.
    """
    policies = ENUM_POLICIES if tier == "thorough" else ENUM_QUICK_POLICIES
    sides = list(itertools.product(ENUM_VALS, repeat=len(ENUM_KEYS)))
    i = 0
    for pol in policies:
        n = 0
        for a in sides:
            for io, o in enumerate(sides):
                for t in sides[io:]:
                    h = _mix(n)
                    route = "both" if tier == "thorough" or h % 8 == 0 else "dict"
                    case = {"keys": ENUM_KEYS, "anc": list(a), "ours": list(o), "theirs": list(t),
                            "policy": pol, "route": route, "meta_style": "loaded",
                            "enum": "full" if tier == "thorough" else "slice"}
                    if route == "both":
                        case["store"] = STORES[1 + (h // 64) % 2] if (h // 8) % 8 == 0 else "mem"
                        case["legacy"] = False
                        case["anc_none"] = (h // 512) % 2 == 1
                        tmpl = ENUM_HISTORIES[(h // 1024) % len(ENUM_HISTORIES)]
                        if tmpl:
                            case["history"] = make_history(tmpl, h // 4096, None, pol)
                    yield i, case
                    i += 1
                    n += 1


def run(ctx):
    from ..ctx import Failure

    # the enumeration first: a budget overrun can then only cut random cases, never the exhaustive claim
    try:
        for i, case in enum_cases(ctx.tier):
            if i % ctx.nworkers != ctx.worker:
                continue
            ctx.exec_case(case, run_case)
    except Failure:
        return
    ctx.run_given(cases(), run_case, ctx.n(quick=1250, thorough=12000))


def replay(case, ctx):
    ctx.exec_case(case, run_case)


def extra_coverage(cov):
    counters = cov.get("counters", {})
    full = counters.get("enum_full_ordered_triples", 0)
    # the enumeration runs before the random half and a skipped (over-budget) case is not counted, so the
    # count alone says whether the sub-domain was covered completely
    exhaustive = bool(full == ENUM_FULL)
    return {
        "exhaustive": exhaustive,
        "exhaustive_subdomain": SUBDOMAIN,
        "enumerated_cases": counters.get("enum_cases", 0),
        "enumerated_ordered_triple_policy_pairs": counters.get("enum_ordered_triples", 0),
        "enumerated_ordered_triple_policy_pairs_needed_for_exhaustive": ENUM_FULL,
    }
