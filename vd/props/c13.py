"""C13 - cached and carried-over hashes are never stale.

A history machine over one scratch workspace and one `State`.  Mutation rules change live files
(write in place, atomic replace = new inode, touch, delete, re-create, chmod); every mutation is
followed by a step of the harness-owned clock: the mtime is set with os.utime(ns=...) to
`previous + drawn delta` (>= 1 us, forwards or backwards), to the mtime the file had *before* the
mutation ("keep", what cp -p / rsync -t / tar do) or to an mtime the path carried earlier ("old"),
and then moved on in 1 us steps until the triple (inode, mtime, size) *as the library sees it*
(`fs.info`) has never been held by that path in this history.  That is the property's premise;
the kernel's timestamp granularity and the wall clock never decide a verdict.

Query rules ask every cached route for hashes and compare each one with hashlib over the bytes on
disk at that instant.
"""

import os
import threading
import time

from hypothesis import strategies as st
from hypothesis.stateful import rule

from dvc_objects.fs.local import LocalFileSystem

from dvc_data.hashfile.state import State

from .. import gen, ops, ref
from ..ctx import HarnessError, Result
from ..machine import TraceMachine, replay_trace_machine, run_trace_machine, traced

LEVEL = "exploration"
WORKERS = {"quick": 8, "thorough": 16}
BUDGET_S = {"quick": 50, "thorough": 650}
RULE = (
    "Hypothesis RuleBasedStateMachine (<= 15 steps; the executed trace is the case) over a scratch "
    "workspace of <= 5 live regular files plus two symlinks to regular files (target inside / outside "
    "the workspace; link_target_write rewrites the target in place or by replace with the clock on "
    "the target, link_retarget points the link at another file) and one State. Mutations: write_in_place, atomic_replace (new "
    "inode), touch, delete, recreate, chmod, each followed by a harness clock step (os.utime; drawn "
    "delta >= 1 us forwards/backwards, or the pre-mutation mtime, or an earlier mtime of the path; "
    "re-stepped until the (inode, mtime, size) triple seen through fs.info was never held by that "
    "path before); a content mutation may be preceded by an honest hash_file run on that path and "
    "followed at once by a lookup of it through one drawn route. Every query route also draws the "
    "SPELLING of the path it asks about (canonical, dir/./f, dir//f, dir/sub/../f, through a "
    "symlinked directory, symlinked-dir/../f whose lexical and real resolution differ; a "
    "trailing-slash workspace root for build(dir) - other root spellings make the pinned code derive "
    "wrong tree/index KEYS, which is a listing matter, not judged here; spelled_history mixes single and batched routes and "
    "spellings for one file); the reference reads the bytes through that very spelling. "
    "checkout_history: an index with a local cache ObjectStorage whose workspace is populated by index "
    "checkout with link type from {symlink, hardlink, copy}, then writes through the links / link "
    "replaced by a file / retargeted, each followed by md5(index) and update(), judging only the "
    "workspace path's hash. checkout_switch (checkout over checkout): a workspace of <= 4 files "
    "(one nested) populated by index checkout of version 1 and then re-populated 1-3 times by "
    "compare(old, version k) + apply(state=State or None, update_meta drawn, relink / delete drawn) "
    "where per file the version keeps its bytes, changes the hash at the same size, at another size, "
    "shares bytes with other files, is empty, or is absent; link types from {hardlink, symlink, copy, "
    "hardlink+copy, symlink+copy, hardlink+symlink, reflink+hardlink+copy, reflink+symlink+copy, "
    "reflink+copy} given as apply(links=) or as the cache odb's cache_types; old = the index checked "
    "out before / md5(build(ws)) through the state / build + update() from the index kept after the "
    "previous step; the user may atomically replace, delete, touch or create workspace files between "
    "checkouts. After EVERY checkout step EVERY workspace file is asked for through update() from the "
    "just checked-out index (when its meta was refreshed), md5() of that index, State.get, "
    "State.get_many (== get), hash_file(state=), staging build(file, dry_run) and build(dir), "
    "md5(build(ws)); each returned hash must be the digest of the bytes the path yields at that "
    "instant (whether checkout wrote the right bytes is C09's matter, not judged). "
    "Queries: State.get, State.get_many over batches of size "
    "{0,1,2,3..8,998,999,1000,1001,2500} (live files at drawn positions among padding files that "
    "are saved once per history: most valid, some unsaved / other algorithm / newer version / "
    "deleted), hash_file(state=), build() of a file or the directory on a store carrying the state, "
    "_get_hashes, build_entries(compute_hash=True), index md5() / update(new, old) / md5() of a kept "
    "index, with the provenance of the old index drawn (kept in memory as built / persisted to "
    "sqlite with DataIndex.open-commit-close and reopened / entries whose Meta lacks any subset of "
    "inode, mtime, size), q_pool_hashes (_get_hashes with jobs 2..8 and large_file_threshold 0..8 over >= 2 "
    "touched live files, or build() of a directory of three > 1 MiB files, with a wrapper around "
    "build.hash_file that holds one pooled call back until another finished, so the unordered pool "
    "completes out of submission order; returned hashes and all later lookups judged), "
    "q_save_many (State.save_many of honest hashes where one or two items, not the last, vanished "
    "before the recording or never existed, with or without caller info; all others looked up), "
    "q_odb_add_verify (LocalHashFileDB.add(verify=True) with earlier sources mismatching their oid, "
    "then lookups of the remaining store objects), "
    "mutate_during_batch (also: delete the already-read file; _get_hashes / build(dir) / build_entries through a harness-owned "
    "LocalFileSystem subclass that rewrites an already-read file of the batch when a later one is "
    "opened; only later lookups of that file are judged), "
    "mutate_at_open (a file changes between the library's stat and its open(): one call of "
    "hash_file(state=) without / with caller info, index md5() of a freshly built index, staging "
    "build(file, dry_run), _get_hashes / build(dir, dry_run) / build_entries over the workspace runs "
    "through a harness-owned LocalFileSystem subclass that, at the first open() for reading of the "
    "drawn file (regular or behind a symlink) and before the handle is returned, applies a drawn "
    "mutation + clock step: append of {1..70000} bytes, truncate, same-size rewrite, atomic replace "
    "by a larger / smaller / equal-sized file; beforehand an ordinary write may give the file a "
    "size from {100, 1 MiB - {1, 16, 512, 4096}, 1 MiB, 1 MiB + 1}, so that appends also carry it "
    "from just below the library's 1 MiB read chunk to exactly / beyond it; contents are cheap "
    "16-byte blocks without CR; the hash returned by that call is not judged for the file; right "
    "after it State.get without / with info, get_many, hash_file, build+update+md5 and one drawn "
    "probe route, and every later query of the history, are judged as ever), "
    "size_only_history (one regular file or link target goes through a drawn chain of 2-4 sizes from "
    "{0 (weighted), 1, 4, 5, 16, 17, 48, 512, 513, 4096, 70000}: the first by an ordinary write, every "
    "further one by a rewrite IN PLACE (same inode) with a DIFFERENT size after which the pre-mutation "
    "mtime_ns is restored exactly (rsync -t / tar / touch -r) - of (inode, mtime, size) only the size "
    "changes: empty -> non-empty, non-empty -> empty, growing, shrinking; before each such rewrite the "
    "tool hashes the file, EMPTY ones included, through a drawn state-backed route from {hash_file "
    "without / with info, _get_hashes with fs / walk-time infos, build(file), build(dir), "
    "build_entries, index update+md5}; after it State.get without / with info, get_many, hash_file, "
    "_get_hashes and one drawn probe route are judged by the ordinary oracle; a drawn size equal to "
    "the current one is bumped by 3 - rewrites that keep all three of inode, mtime, size stay outside), "
    "planted foreign rows with a matching token under a drawn algorithm name from {md5, "
    "md5-dos2unix, sha256, sha1, blake2b} (version HASH_VERSION+k with a placeholder value, "
    "version-less legacy rows and current-version rows with honest values; optionally looked up at "
    "once under the same or another algorithm), the same "
    "path on a MemoryFileSystem, State re-open; algorithm from {md5, md5-dos2unix, sha256}; stat "
    "info read by the harness at the instant of the call, or omitted. Oracle: every returned hash "
    "== hashlib (ref_hash) of the bytes on disk now and carries the requested algorithm name; "
    "get_many == element-wise get (order, meta, hash); newer-version entries, deleted files and "
    "non-local filesystems are misses. Non-trivial = a query answered from the cache for a path "
    "mutated earlier in the history, or a batch >= 1000, or an update() after a mutation, or a "
    "mutation that fired during a batch call or at the open() of a hashing call, or >= 2 files with distinct contents hashed in the "
    "pool, or a recorded batch with a vanished item, or a mutation of a checked-out workspace, or a "
    "second checkout that re-created a file whose hash changed, or a size-only mutation (same inode, "
    "same mtime_ns, other size) of a file hashed through the state just before; "
    "distinct "
    "= SHA-1 of the trace JSON."
)
ASSUMPTIONS = [
    "premise enforced by the harness: after every content mutation the (inode, mtime, size) triple "
    "of the file whose bytes are hashed (for a symlink: its target), as fs.info reports it, differs "
    "from every triple that file held before; link targets are never deleted (no broken links)",
    "size_only_history: restoring the old mtime after an in-place rewrite of ANOTHER size is inside "
    "the quantifier (the history changes the file's size); the harness clock is asked for 'keep' and "
    "only moves on (label size-only:restepped) if that very (inode, mtime, size) triple was held by "
    "the file earlier in the history; grounds on the pinned code: the validity token folds the size "
    "in (state._checksum over ino, mtime, size), for size 0 as for any other",
    "caller-supplied stat info is always read at the instant of the call (never older)",
    "no mutation happens between a library call's open() of a file and the end of its read of that "
    "file (a mutation between two read() calls is outside the domain); a mutation between the "
    "call's stat and its open() (mutate_at_open) is complete, clock step included, before the "
    "handle is returned, so the call reads the post-mutation bytes in full; a mutation during a "
    "batch call otherwise hits only a file that call has finished reading; in both cases the "
    "hashes returned by that very call are not judged for the changed file - only what later "
    "lookups are served. Grounds for mutate_at_open on the pinned code: without caller info "
    "State.save() stats the file after hashing, i.e. records the digest of the bytes read to EOF "
    "under the token those bytes have; with caller info (hash_file(info=), build, _get_hashes, "
    "build_entries) the entry is recorded under the PRE-mutation token, which by the premise no "
    "later state of the file matches: a miss, never a stale hit",
    "the hold-back inside the wrapper around build.hash_file only shapes the pool's completion "
    "order; verdicts do not depend on timing",
    "hashlib and vd.ref.ref_hash (md5-dos2unix sniffing rule) are the trusted reference",
    "checkout_switch: the old index handed to compare() describes the workspace as it is (the index "
    "checked out before only while the user has not touched the workspace, the previous apply "
    "reported no error and the file set equals that index's; otherwise an index built from the "
    "workspace; compare(None, ...) only into an empty workspace); the user never writes through a "
    "link into the cache; cache objects are intact",
    "checkout_switch: files created by checkout carry real-clock timestamps; the premise 'a path "
    "never shows the same (inode, mtime, size) with other bytes' is monitored per workspace path "
    "after every step, and only if a recycled inode number plus a same-tick timestamp broke it would "
    "the harness move that file's mtime on (label co-switch:token-collision-restepped) - a file that "
    "checkout left untouched keeps its triple, so a hash recorded for it must still be that of its "
    "bytes",
]

T0_NS = 1_700_000_000 * 10**9
ALGOS = ["md5", "md5-dos2unix", "sha256"]
SLOTS = ["a", "b", "sub/c", "sub/sp ace", "Ünï"]
INITIAL = {"a": "p:A", "b": "p:crlf", "sub/c": "h:610d0a62"}
NEVER = ["never-1", "sub/never-2", "never-3"]
# always present: a regular file that only serves as a link target inside the workspace, and two
# symlinks to regular files (initially: one target inside the workspace, one outside it)
EXTRA = ["sub/t-in", "lnk-in", "sub/lnk-out", "t-in"]   # "t-in": same name as sub/t-in, other bytes
LINKS = ["lnk-in", "sub/lnk-out"]
TARGETS = {"sub/t-in": "p:A", "@out/t-out": "p:B", "@out/t-out2": "h:41414142"}
N_PAD = 2600
BOGUS = "0badc0de" * 4
# algorithm names a foreign row (another release of the tool sharing the state directory) may carry
ROW_ALGOS = ["md5", "md5-dos2unix", "sha256", "sha1", "blake2b"]
HEXLEN = {"md5": 32, "md5-dos2unix": 32, "sha256": 64, "sha1": 40, "blake2b": 128}


def bogus(name):
    """Placeholder digest of the right length: never the digest of any generated content."""
    return (BOGUS * 4)[: HEXLEN[name]]


BOGUS_VALUES = {bogus(n) for n in ROW_ALGOS}
row_algo_s = st.sampled_from(ROW_ALGOS + ["sha256", "md5-dos2unix"])
BIG = (998, 999, 1000, 1001, 2500)

slot_s = st.integers(0, 19)
qslot_s = st.one_of(st.integers(0, 19), st.integers(0, 19), st.integers(20, 25))  # >= 20: EXTRA entries
algo_s = st.sampled_from([0, 0, 1, 2])
# same-size group (4 bytes, one of them CRLF text so md5 != md5-dos2unix) + sizes that differ
content_s = st.one_of(
    st.just("same-size"),   # other bytes of exactly the size the file has (had, if it is gone) now
    st.just("same-size"),
    st.sampled_from(["p:A", "p:B", "h:610d0a62", "h:0d0a0d0a", "h:41414142"]),
    st.sampled_from(["p:A", "p:B", "h:610d0a62", "h:0d0a0d0a", "h:41414142"]),
    st.sampled_from(["p:crlf", "p:lf", "p:hello", "p:empty", "p:one", "p:nul", "p:C", "p:b512",
                     "p:b513", "p:hi8"]),
    gen.contents(pool_weight=1, max_size=24),
)
delta_s = st.one_of(
    st.integers(1, 999), st.integers(-999, -1),
    st.integers(1_000, 900_000), st.integers(-900_000, -1_000),
    st.integers(1_000_000, 10_000_000_000), st.integers(-10_000_000_000, -1_000_000),
)  # micro-seconds
clock_s = st.one_of(
    st.tuples(st.just("d"), delta_s),
    st.tuples(st.just("d"), delta_s),
    st.tuples(st.just("d"), delta_s),
    st.tuples(st.just("keep")),
    st.tuples(st.just("keep")),
    st.tuples(st.just("old"), st.integers(0, 7)),
).map(list)
# a content mutation may be preceded by an honest hashing run of the tool on that path ("prime":
# an entry for the pre-mutation triple exists) and followed at once by a lookup of that path through
# one drawn route ("probe"), so that every route gets to be the first one to see the changed file
prime_s = st.sampled_from([None, None, 0, 0, 1, 2])
probe_s = st.sampled_from([None, None, None, "get", "get+info", "many", "many+infos", "hash_file",
                           "hash_file+info", "get_hashes", "get_hashes+walk", "build_file",
                           "build_dir", "build_entries", "index", "index+reopened",
                           "index+stripped"])
# path spelling of a query: 0 canonical, 1 dir/./f, 2 dir//f, 3 dir/<subdir>/../f, 4 through a symlinked
# directory, 5 symlinked-dir/../f where the lexical and the real resolution differ (files of sub/)
sp_s = st.sampled_from([0, 0, 0, 1, 2, 3, 4, 5, 5])
sps_s = st.lists(st.integers(0, 5), max_size=4)
wsp_s = st.sampled_from([0, 0, 0, 1, 2, 3, 4])
prov_s = st.sampled_from([None, None, "reopened", "reopened", "stripped"])
drop_s = st.lists(st.sampled_from(["inode", "mtime", "size"]), max_size=3, unique=True)
size_s = st.sampled_from([0, 1, 2, 2, 3, 5, 5, 8, 8, 8, 8, 8, 8, 8, 8, 998, 999, 1000, 1001, 2500])
# checkout over checkout: link-type lists as apply(links=...) / odb cache_types take them, and one
# checkout step = version per file (-1: not in that version), provenance of the old index, flags
CS_LINKS = [["hardlink"], ["hardlink"], ["symlink"], ["symlink"], ["copy"], ["hardlink", "copy"],
            ["symlink", "copy"], ["hardlink", "symlink"], ["reflink", "hardlink", "copy"],
            ["reflink", "symlink", "copy"], ["reflink", "copy"]]
cs_step_s = st.fixed_dictionaries({
    "v": st.lists(st.sampled_from([0, 0, 1, 1, 2, 2, 3, -1]), min_size=4, max_size=4),
    "old": st.sampled_from(["prev", "prev", "built", "built", "updated"]),
    "state": st.sampled_from([True, True, True, False]),
    "meta": st.booleans(),
    "relink": st.sampled_from([False, False, False, True]),
    "delete": st.sampled_from([True, True, False]),
    "user": st.lists(st.tuples(st.integers(0, 3),
                               st.sampled_from(["replace", "replace", "delete", "touch", "create"]),
                               content_s, clock_s).map(list), max_size=2),
})
# a file changes between the library's stat and its open(): route of the call, size the file is given
# beforehand (None: as it is; else just below / at / above the library's 1 MiB read chunk), mutation
# applied at the first open() of the file, and its byte count
MIB = 2**20
ao_route_s = st.sampled_from(["hash_file", "hash_file", "hash_file", "index_md5", "index_md5",
                              "hash_file+info", "build_file", "get_hashes", "build_dir",
                              "build_entries"])
ao_pre_s = st.sampled_from([None, None, None, 100, MIB - 1, MIB - 1, MIB - 16, MIB - 16, MIB - 512,
                            MIB - 4096, MIB - 4096, MIB, MIB + 1])
ao_mut_s = st.sampled_from(["append", "append", "append", "append", "truncate", "rewrite", "replace+",
                            "replace+", "replace-", "replace="])
ao_n_s = st.sampled_from([1, 1, 2, 15, 16, 17, 512, 513, 4096, 4097, 70_000])
# size-only histories: the chain of sizes one file goes through (empty files weigh heavily), and the
# state-backed route by which the tool hashes the file before each size-only rewrite (probe names)
so_size_s = st.sampled_from([0, 0, 0, 0, 1, 1, 4, 4, 5, 16, 17, 48, 512, 513, 4096, 70_000])
so_sizes_s = st.lists(so_size_s, min_size=2, max_size=4)
so_route_s = st.sampled_from(["hash_file", "hash_file", "hash_file+info", "get_hashes",
                              "get_hashes+walk", "build_file", "build_dir", "build_entries", "index"])
pos_s = st.lists(
    st.one_of(st.sampled_from([0, 1, 997, 998, 999, 1000, 1001, 1997, 1998, 1999, 2497, 2499]),
              st.integers(0, 3000)),
    max_size=5,
)


class SpyState(State):
    """Pass-through subclass that records which lookups were answered from the database."""

    def __init__(self, *a, **kw):
        super().__init__(*a, **kw)
        self.hits = []

    # (signature-agnostic: a refactor of the library that adds parameters must not break the harness)
    def get(self, path, *a, **kw):
        r = super().get(path, *a, **kw)
        if r[1] is not None:
            self.hits.append((path, r[1].name))
        return r

    def get_many(self, *a, **kw):
        for path, meta, hi in super().get_many(*a, **kw):
            if hi is not None:
                self.hits.append((path, hi.name))
            yield path, meta, hi


class SlowFirst:
    """Schedule shaping for the library's hashing pool: wraps build.hash_file so that, off the main
    thread, the call for one drawn path does not start before some other pooled call has finished
    (bounded wait) - the unordered pool then really completes out of submission order. The verdict
    never depends on the timing: on correct code every order gives the same answer."""

    def __init__(self, slow_path):
        from dvc_data.hashfile import build as B

        self.B = B
        self.slow = slow_path
        self.orig = B.hash_file
        self.main = threading.get_ident()
        self.other_done = threading.Event()
        self.pool_calls = 0
        self.lock = threading.Lock()

    def __enter__(self):
        def wrapper(path, *a, **kw):
            off = threading.get_ident() != self.main
            if off:
                with self.lock:
                    self.pool_calls += 1
                if path == self.slow:
                    self.other_done.wait(2.0)
                    time.sleep(0.003)
            try:
                return self.orig(path, *a, **kw)
            finally:
                if off and path != self.slow:
                    self.other_done.set()

        self.B.hash_file = wrapper
        return self

    def __exit__(self, *exc):
        self.B.hash_file = self.orig


class WriterFS(LocalFileSystem):
    """Harness-owned local filesystem: when the library opens a file of a batch for hashing and an
    earlier file of the same batch (same directory) has already been read and closed, another
    writer changes that earlier file - once, at a drawn opportunity. Deterministic, no threads."""

    def __init__(self, machine, same_dir, skip, pick, action):
        super().__init__()
        self.m = machine
        self.same_dir = same_dir
        self.skip = skip
        self.pick = pick
        self.action = action
        self.opened = []
        self.victim = None

    def open(self, path, mode="r", **kwargs):
        p = os.fspath(path)
        if self.victim is None and "r" in mode and p.startswith(self.m.ws + os.sep):
            cand = [q for q in self.opened
                    if q != p and (not self.same_dir or os.path.dirname(q) == os.path.dirname(p))]
            if cand:
                if self.skip > 0:
                    self.skip -= 1
                else:
                    self.victim = cand[self.pick % len(cand)]
                    self.action(self.victim)
            if p not in self.opened:
                self.opened.append(p)
        return super().open(path, mode, **kwargs)


class AtOpenFS(LocalFileSystem):
    """Harness-owned local filesystem: the first time the library opens the victim for reading,
    another writer changes it BEFORE the handle is returned - i.e. strictly between the library's
    stat of the file and its first read; the bytes the library then reads are the post-mutation
    bytes, in full. Deterministic, no threads, no timing."""

    def __init__(self, victim_real, action):
        super().__init__()
        self.victim = victim_real
        self.action = action
        self.fired = False

    def open(self, path, mode="r", **kwargs):
        if (not self.fired and "r" in mode
                and os.path.realpath(os.fspath(path)) == self.victim):
            self.fired = True
            self.action()
        return super().open(path, mode, **kwargs)


class C13Machine(TraceMachine):
    # ---- setup / teardown --------------------------------------------------------------------
    def on_setup(self):
        from dvc_objects.fs.local import LocalFileSystem

        self.fs = LocalFileSystem()
        self.ws = os.path.join(self.dir, "ws")
        os.makedirs(os.path.join(self.ws, "sub"))
        self.st_dir = os.path.join(self.dir, "st")
        os.makedirs(self.st_dir)
        self.state = SpyState(root_dir=self.ws, tmp_dir=self.st_dir)
        self.seen = {}      # abs path -> set of (ino, mtime, size) triples the path ever held
        self.hist = {}      # abs path -> list of mtimes (ns) the harness assigned
        self.mutated = set()
        self.mut_count = 0
        self.old = None
        self.old_epoch = 0
        self.pad = None
        self.big_k = 0
        self.last_bytes = {}
        self.opened = []     # sqlite-backed indexes to close
        self.ndb = 0
        self.labels = set()
        self.cnt = {"queries": 0, "hashes_checked": 0, "cache_hits": 0, "hits_after_mutation": 0,
                    "carried": 0, "clock_resteps": 0, "histories": 1}
        self.nt = set()
        for i, (rel, c) in enumerate(sorted(INITIAL.items())):
            p = self.p(rel)
            with open(p, "xb") as f:
                f.write(gen.content_bytes(c))
            self.clock(p, ["d", 0], T0_NS + i * 1_000_000_000 + 500_000_000)
        os.mkdir(os.path.join(self.dir, "out"))
        for i, (t, c) in enumerate(sorted(TARGETS.items())):
            p = self.target_path(t)
            with open(p, "xb") as f:
                f.write(gen.content_bytes(c))
            self.clock(p, ["d", 0], T0_NS + (10 + i) * 1_000_000_000 + 500_000_000)
        os.mkdir(self.p("sub/deep"))
        os.symlink("sub", self.p("dsub"))                                   # directory symlinks
        os.symlink(os.path.join("sub", "deep"), self.p("dlink"))            # dlink/.. is sub, not ws
        with open(self.p("t-in"), "xb") as f:
            f.write(b"twin of sub/t-in\n")
        self.clock(self.p("t-in"), ["d", 0], T0_NS + 20 * 1_000_000_000 + 500_000_000)
        os.symlink(os.path.join("sub", "t-in"), self.p("lnk-in"))          # relative, inside
        os.symlink(self.target_path("@out/t-out"), self.p("sub/lnk-out"))  # absolute, outside
        # the index a caller kept from an earlier session (hashes of the initial files)
        from dvc_data.index.build import build as ibuild
        from dvc_data.index.save import md5 as imd5

        self.old = imd5(ibuild(self.ws, self.fs), state=self.state)
        self.old_prov = "memory"
        self.state.hits = []

    def on_cleanup(self):
        self.close_indexes()
        self.state.close()

    def close_indexes(self, keep=None):
        for idx in self.opened:
            if idx is not keep:
                idx.close()
        self.opened = [idx for idx in self.opened if idx is keep]

    def on_summary(self):
        self.cnt["steps"] = len(self.trace)
        classes = sorted(self.labels) + ["nontrivial:" + x for x in sorted(self.nt)]
        return Result([], bool(self.nt), classes, self.cnt)

    # ---- helpers -----------------------------------------------------------------------------
    def p(self, rel):
        return os.path.join(self.ws, *rel.split("/"))

    def existing(self, slot):
        pop = [s for s in SLOTS if os.path.isfile(self.p(s))]
        return self.p(pop[slot % len(pop)]) if pop else None

    def missing(self, slot):
        pop = [s for s in SLOTS if not os.path.lexists(self.p(s))]
        return self.p(pop[slot % len(pop)]) if pop else None

    def live_files(self):
        """Every file entry of the workspace (regular files and symlinks to regular files)."""
        return [self.p(s) for s in SLOTS + EXTRA if os.path.isfile(self.p(s))]

    def qpath(self, slot):
        """Path for a single-path query: a live slot file, or (slot >= 20) one of the EXTRA entries."""
        if slot >= 20:
            return self.p(EXTRA[(slot - 20) % len(EXTRA)])
        return self.existing(slot)

    def bytes_for(self, content, p):
        """Decode a drawn content; "same-size" = different bytes of the size p has (or last had)."""
        if content != "same-size":
            return gen.content_bytes(content)
        cur = ref.read(p) if os.path.isfile(p) else self.last_bytes.get(p, b"AAAA")
        self.labels.add("content:same-size-other-bytes")
        return bytes((b + 1) % 256 for b in cur)

    def spell(self, p, k):
        """A spelling of the canonical workspace path p that the OS resolves to the same file."""
        k = k % 6
        if not k or not p.startswith(self.ws + os.sep):
            return p
        d, f = os.path.split(p)
        sub = os.path.join(self.ws, "sub")
        if d not in (self.ws, sub):
            return p
        if k == 1:
            q = d + "/./" + f
        elif k == 2:
            q = d + "//" + f
        elif k == 3:
            q = (os.path.join(sub, "deep") if d == sub else sub) + "/../" + f
        elif k == 4:
            q = os.path.join(self.ws, "dsub", f) if d == sub else os.path.join(self.ws, "dsub", "..", f)
        else:  # lexically ws/f, really ws/sub/f
            q = (os.path.join(self.ws, "dlink", "..", f) if d == sub
                 else os.path.join(self.ws, "dsub", "..", f))
        if os.path.exists(p) and not (os.path.exists(q) and os.path.samefile(q, p)):
            raise HarnessError(f"spelling {q} does not resolve to {p}")
        self.labels.add(f"spelling:{k}")
        return q

    def spell_all(self, paths, sps):
        if not sps:
            return list(paths)
        out, i = [], 0
        for q in paths:
            if q.startswith(self.ws + os.sep):
                out.append(self.spell(q, sps[i % len(sps)]))
                i += 1
            else:
                out.append(q)
        return out

    def spell_ws(self, k, entries=False):
        """Spelled workspace root for the directory routes. Only spellings whose KEYS the pinned code
        derives correctly: build() strips trailing separators; with 'ws/.', 'ws/sub/..' (build) and
        any non-normalised root (build_entries) the tree/index keys come out wrong ('', 'b', '.'
        components: the walk yields normalised roots, the key is sliced by the length of the given
        path) - a listing matter outside this property, reported separately, not generated."""
        if entries or not k % 2:
            return self.ws
        self.labels.add("spelling:root:trailing-slash")
        return self.ws + "/"

    def target_path(self, t):
        return os.path.join(self.dir, "out", t[5:]) if t.startswith("@out/") else self.p(t)

    def triple(self, p):
        """(inode, mtime, size) exactly as the library reads it."""
        info = self.fs.info(p)
        return (info["ino"], info["mtime"], info["size"])

    def clock(self, p, spec, prev_ns):
        """Harness clock step after a mutation of p; returns the fresh triple."""
        real = os.path.realpath(p)   # the file whose bytes are hashed (p may be a symlink)
        hist = self.hist.setdefault(real, [])
        base = prev_ns if prev_ns is not None else (hist[-1] if hist else T0_NS)
        if spec[0] == "d":
            ns = base + spec[1] * 1000
        elif spec[0] == "keep":
            ns = base
            self.labels.add("clock:keep-mtime")
        else:
            ns = hist[spec[1] % len(hist)] if hist else base
            self.labels.add("clock:earlier-mtime")
        ns = max(ns, 10**15)
        seen = self.seen.setdefault(real, set())
        for _ in range(200_000):
            os.utime(p, ns=(ns, ns))
            t = self.triple(p)
            if t not in seen:
                break
            ns += 1000
            self.cnt["clock_resteps"] += 1
            self.labels.add("clock:restepped")
        else:
            raise HarnessError("clock: could not reach a fresh (inode, mtime, size) triple")
        seen.add(t)
        hist.append(ns)
        return t

    def after_mutation(self, p, before, after, content_changed=True):
        self.mutated.add(p)
        for ln in LINKS:  # a link shows the change of its target
            if os.path.realpath(self.p(ln)) == os.path.realpath(p):
                self.mutated.add(self.p(ln))
        self.mut_count += 1
        if before is not None and after is not None:
            if before == after:
                raise HarnessError(f"premise: stat triple of {p} unchanged by a mutation")
            d = [n for n, a, b in zip(("ino", "mtime", "size"), before, after) if a != b]
            if content_changed:
                self.labels.add("triple-delta:" + "+".join(d))

    def plant_raw(self, path, entry):
        from dvc_data.json_compat import dumps as json_dumps

        self.state.hashes[path] = json_dumps(entry)

    def take_hits(self, want_name=None):
        """Lookups answered from the database since the last call (usable for the request)."""
        hits, self.state.hits = self.state.hits, []
        used = [p for p, name in hits if want_name is None or name == want_name]
        self.cnt["cache_hits"] += len(used)
        if used:
            self.labels.add("cache-hit")
        real = {os.path.realpath(m) for m in self.mutated} | self.mutated
        after = [p for p in used if p in real or os.path.realpath(p) in real]
        if after:
            self.cnt["hits_after_mutation"] += len(after)
            self.nt.add("hit-after-mutation")
        return used

    def check(self, route, path, hi, want_name=None):
        """The oracle: a hash that came back equals hashlib over the bytes on disk right now."""
        self.cnt["hashes_checked"] += 1
        if hi is None or not hi.value:
            self.violate(f"no-hash:{route}", f"{route} returned no hash for existing file {path}")
            return
        if not os.path.isfile(path):
            self.violate(f"hit-for-missing-file:{route}",
                         f"{route} returned {hi} for {path}, which does not exist")
            return
        if hi.value in BOGUS_VALUES:
            self.violate(f"newer-version-entry-served:{route}",
                         f"{route} returned {hi} for {path}: the placeholder of a row written by a "
                         "newer format version")
            return
        if want_name is not None and hi.name != want_name:
            self.violate(f"wrong-algorithm:{route}",
                         f"{route} asked for {want_name} on {path}, got {hi}")
            return
        if hi.name not in ROW_ALGOS:
            self.violate(f"unknown-algorithm:{route}", f"{route} returned {hi} for {path}")
            return
        want = ref.ref_hash(ref.read(path), hi.name)
        if hi.value != want:
            self.violate(f"stale-hash:{route}",
                         f"{route} returned {hi.name}={hi.value} for {path}; the bytes on disk hash "
                         f"to {want}")

    # ---- padding (created only by histories that draw a big batch) -----------------------------
    def ensure_padding(self):
        if self.pad is not None:
            return
        from dvc_data.hashfile.hash_info import HashInfo

        d = os.path.join(self.dir, "pad")
        os.mkdir(d)
        self.pad = []
        items = []
        gone = []
        for i in range(N_PAD):
            p = os.path.join(d, f"p{i:04d}")
            data = b"pad-%d" % i
            with open(p, "wb") as f:
                f.write(data)
            ns = T0_NS + i * 1000
            os.utime(p, ns=(ns, ns))
            self.pad.append(p)
            k = i % 40
            if k == 3:
                continue                                   # never saved: a miss
            if k == 13:
                items.append((p, HashInfo("sha256", ref.ref_hash(data, "sha256")), None))
                continue
            items.append((p, HashInfo("md5", ref.ref_hash(data, "md5")), None))
            if k == 33:
                gone.append(p)
        self.state.save_many(items, self.fs)
        from dvc_data.hashfile.state import _checksum

        for i in range(23, N_PAD, 40):                     # written by a newer format version
            info = self.fs.info(self.pad[i])
            rname = ROW_ALGOS[(i // 40) % len(ROW_ALGOS)]
            self.plant_raw(self.pad[i], {"version": State.HASH_VERSION + 1 + (i // 40) % 3,
                                         "checksum": _checksum(info), "size": info["size"],
                                         "hash_info": {rname: bogus(rname)}})
        for p in gone:                                     # saved, then deleted
            os.unlink(p)
        self.labels.add("padding-created")

    def batch(self, n, pos, offset):
        """n distinct paths: live slots (existing or not) at drawn positions among padding."""
        if n <= 8:
            cand = [self.p(s) for s in SLOTS + EXTRA + NEVER]
            r = offset % len(cand)
            return (cand[r:] + cand[:r])[:n]
        self.ensure_padding()
        live = [self.p(s) for s in ["lnk-in", "a", "b", "sub/lnk-out", "sub/c"]][: len(pos)]
        out = [None] * n
        for p, q in zip(live, pos):
            q %= n
            while out[q] is not None:
                q = (q + 1) % n
            out[q] = p
        it = iter(self.pad[(offset + i) % N_PAD] for i in range(n))
        return [x if x is not None else next(it) for x in out]

    # ---- single-path routes (used by the query rules and by the probes after a mutation) --------
    def r_get(self, p, given):
        info = self.fs.info(p) if given and os.path.isfile(p) else None
        self.cnt["queries"] += 1
        _meta, hi = self.state.get(p, self.fs, info=info)
        self.take_hits()
        if hi is not None:
            self.check("State.get", p, hi)
        self.labels.add("q:State.get" + ("+info" if info else ""))

    def r_get_many(self, paths, infos, n_label=None):
        live = set(self.live_files())
        live |= {q for q in paths if os.path.normpath(q) in live
                 or os.path.realpath(q).startswith(os.path.realpath(self.ws) + os.sep)}
        if infos == "none":
            given = {}
        else:
            given = {p: self.fs.info(p) for p in paths
                     if os.path.isfile(p) and (infos == "all" or p in live)}
        self.cnt["queries"] += 1
        res = list(self.state.get_many(paths, self.fs, given))
        self.take_hits()
        if [r[0] for r in res] != paths:
            self.violate("batch-shape:State.get_many",
                         f"get_many over {len(paths)} paths yielded {len(res)} results / other order")
        nhit = 0
        for p, _meta, hi in res:
            if hi is not None:
                nhit += 1
                self.check("State.get_many", p, hi)
        for i, (p, meta, hi) in enumerate(res):
            single = self.state.get(p, self.fs, info=given.get(p))
            if single != (meta, hi):
                self.violate("batch-vs-single:State.get_many",
                             f"batch of {len(paths)}: get_many gave {hi} for {p} (position {i}), "
                             f"get gives {single[1]}")
        self.state.hits = []
        self.size_labels("State.get_many", len(paths) if n_label is None else n_label, nhit)
        if given:
            self.labels.add("q:State.get_many+infos")

    def r_hash_file(self, p, name, given):
        from dvc_data.hashfile.hash import hash_file

        info = self.fs.info(p) if given else None
        self.cnt["queries"] += 1
        _meta, hi = hash_file(p, self.fs, name, state=self.state, info=info)
        self.take_hits(name)
        self.check("hash_file", p, hi, name)
        self.labels.add(f"q:hash_file:{name}" + ("+info" if given else ""))

    def r_get_hashes(self, paths, name, n_label=None, walk=False):
        from dvc_data.hashfile.build import _get_hashes

        paths = [p for p in paths if os.path.isfile(p)]
        if walk:  # what the library's own directory walk supplies to this function
            from dvc_data.fsutils import _localfs_info

            infos = {p: _localfs_info(p) for p in paths}
            self.labels.add("q:_get_hashes:walk-time-infos")
        else:
            infos = {p: self.fs.info(p) for p in paths}
        self.cnt["queries"] += 1
        res = _get_hashes(list(paths), self.fs, name, infos, state=self.state)
        nhit = len(self.take_hits(name))
        if sorted(res) != sorted(paths):
            self.violate("batch-shape:_get_hashes", "_get_hashes did not answer exactly the paths asked")
        for p in paths:
            self.check("_get_hashes", p, res[p][1], name)
        self.size_labels("_get_hashes", len(paths) if n_label is None else n_label, nhit)

    def r_build_file(self, p, name, kind):
        from dvc_data.hashfile.build import build

        odb = ops.make_odb(kind, os.path.join(self.dir, f"odb-{kind}-{name}"), state=self.state,
                           hash_name=name)
        self.cnt["queries"] += 1
        _staging, _meta, obj = build(odb, p, self.fs, name)
        self.take_hits(name)
        self.check("build(file)", p, obj.hash_info, name)
        self.labels.add(f"q:build(file):{name}")

    def r_build_dir(self, name, kind, wsp=0):
        from dvc_data.hashfile.build import build

        root = self.spell_ws(wsp)
        odb = ops.make_odb(kind, os.path.join(self.dir, f"odb-{kind}-{name}"), state=self.state,
                           hash_name=name)
        self.cnt["queries"] += 1
        _staging, _meta, obj = build(odb, root, self.fs, name)
        self.take_hits(name)
        listed = set()
        for key, _m, hi in obj:
            listed.add(os.path.join(self.ws, *key))
            self.check("build(dir)", os.path.join(root.rstrip("/"), *key), hi, name)
        if listed != set(self.live_files()):
            self.violate("listing:build(dir)", "staged tree does not list exactly the files "
                         f"on disk: {sorted(listed ^ set(self.live_files()))}")
        self.labels.add(f"q:build(dir):{name}")

    def r_build_entries(self, name, wsp=0):
        from dvc_data.index.build import build_entries

        root = self.spell_ws(wsp, entries=True)
        self.cnt["queries"] += 1
        entries = list(build_entries(root, self.fs, compute_hash=True, state=self.state,
                                     hash_name=name))
        self.take_hits(name)
        seen = set()
        for e in entries:
            if e.meta is not None and e.meta.isdir:
                continue
            p = os.path.join(self.ws, *e.key)
            seen.add(p)
            self.check("build_entries", os.path.join(root.rstrip("/"), *e.key), e.hash_info, name)
        if seen != set(self.live_files()):
            self.violate("listing:build_entries", "entries do not cover exactly the files on disk")
        self.labels.add(f"q:build_entries:{name}")

    def old_provenance(self, prov, drop=()):
        """Where the caller's previous index comes from: kept in memory as built (None), persisted to
        sqlite and reopened, or an index whose entries' Meta lacks a subset of inode/mtime/size (as
        after loading from a .dir listing, a non-local filesystem, or hand-made entries)."""
        from dvc_data.hashfile.meta import Meta
        from dvc_data.index.index import DataIndex, DataIndexEntry, FileStorage

        if prov is None:
            return
        old = self.old
        if prov == "reopened" and any(e.meta is None or (not e.meta.isdir and not e.meta.to_dict())
                                      for _k, e in old.iteritems()):
            # a Meta that serialises to {} is read back as "no meta at all"; update() of an old entry
            # without meta whose key is gone from the new index raises AttributeError (also reachable
            # with a broken-symlink entry) - a robustness matter outside this property: not generated
            self.labels.add("old-index:not-persisted(empty-meta)")
            return
        if prov == "reopened":
            self.ndb += 1
            db = os.path.join(self.dir, f"index-{self.ndb}.db")
            stored = DataIndex.open(db)
            for key, entry in old.iteritems():
                stored[key] = entry
            stored.commit()
            stored.close()
            new = DataIndex.open(db)
            self.opened.append(new)
        else:
            drop = sorted(set(drop) & {"inode", "mtime", "size"})
            new = DataIndex()
            for key, entry in old.iteritems():
                meta = entry.meta
                if meta is not None:
                    d = {f: getattr(meta, f) for f in Meta.fields}
                    d.update(dict.fromkeys(drop))
                    meta = Meta(**d)
                new.add(DataIndexEntry(key=key, meta=meta, hash_info=entry.hash_info,
                                       loaded=entry.loaded))
            prov = "stripped:" + "+".join(drop) if drop else "rebuilt"
        new.storage_map.add_data(FileStorage(key=(), fs=self.fs, path=self.ws))
        self.close_indexes(keep=new)
        self.old = new
        self.old_prov = prov
        self.labels.add("old-index:" + prov)

    def r_index_update(self, name, then_md5, prov=None, drop=()):
        from dvc_data.index.build import build as ibuild
        from dvc_data.index.save import md5 as imd5
        from dvc_data.index.update import update

        self.old_provenance(prov, drop)
        if self.mut_count > self.old_epoch and self.old_prov != "memory":
            self.labels.add("update-after-mutation:old-index=" + self.old_prov)
        self.cnt["queries"] += 1
        new = ibuild(self.ws, self.fs)
        update(new, self.old)
        carried = self.check_index("index.update", new)
        self.cnt["carried"] += carried
        self.labels.add("q:index.update")
        if self.mut_count > self.old_epoch:
            self.nt.add("update-after-mutation")
            self.labels.add("update-after-mutation:" + ("some-carried" if carried else "none-carried"))
        if then_md5:
            new = imd5(new, state=self.state, name=name)
            self.take_hits(name)
            self.check_index("index.update+md5", new, name)
        self.state.hits = []
        self.close_indexes()
        self.old, self.old_epoch, self.old_prov = new, self.mut_count, "memory"

    def prime(self, p, prime):
        """An earlier honest run of the tool hashed this path: an entry for the current triple."""
        if prime is None:
            return
        from dvc_data.hashfile.hash import hash_file

        name = ALGOS[prime]
        _meta, hi = hash_file(p, self.fs, name, state=self.state)
        self.state.hits = []
        self.check("hash_file", p, hi, name)
        self.labels.add("primed-before-mutation")

    def probe(self, p, probe, algo):
        if probe is None:
            return
        name = ALGOS[algo]
        self.labels.add("probe-after-mutation:" + probe)
        if probe in ("get", "get+info"):
            self.r_get(p, probe.endswith("+info"))
        elif probe in ("many", "many+infos"):
            others = [q for q in self.live_files() if q != p]
            paths = others[:1] + [p] + others[1:] + [self.p(NEVER[0])]
            self.r_get_many(paths, "all" if probe.endswith("+infos") else "none")
        elif probe in ("hash_file", "hash_file+info"):
            self.r_hash_file(p, name, probe.endswith("+info"))
        elif probe == "get_hashes":
            self.r_get_hashes(self.live_files(), name)
        elif probe == "get_hashes+walk":
            self.r_get_hashes(self.live_files(), name, walk=True)
        elif probe == "build_dir":
            self.r_build_dir(name, "local")
        elif probe == "build_file":
            self.r_build_file(p, name, "local")
        elif probe == "build_entries":
            self.r_build_entries(name)
        elif probe == "index":
            self.r_index_update(name, True)
        elif probe == "index+reopened":
            self.r_index_update(name, False, "reopened")
        elif probe == "index+stripped":
            self.r_index_update(name, False, "stripped", ["inode", "mtime"][: 1 + algo % 2])

    # ---- mutation primitives -------------------------------------------------------------------
    def do_write_in_place(self, p, content, clock):
        before, prev = self.triple(p), os.stat(p).st_mtime_ns
        ino = os.stat(p).st_ino
        data = self.bytes_for(content, p)
        with open(p, "r+b") as f:
            f.write(data)
            f.truncate()
        if os.stat(p).st_ino != ino:
            raise HarnessError("write in place changed the inode")
        self.after_mutation(p, before, self.clock(p, clock, prev))
        self.labels.add("mut:write_in_place")

    def do_atomic_replace(self, p, content, clock):
        before, prev = self.triple(p), os.stat(p).st_mtime_ns
        tmp = p + ".tmp~"
        data = self.bytes_for(content, p)
        with open(tmp, "xb") as f:
            f.write(data)
        os.replace(tmp, p)
        if os.stat(p).st_ino == before[0]:
            raise HarnessError("atomic replace did not produce a new inode")
        self.after_mutation(p, before, self.clock(p, clock, prev))
        self.labels.add("mut:atomic_replace")

    # ---- mutation rules ------------------------------------------------------------------------
    @rule(slot=slot_s, content=content_s, clock=clock_s, prime=prime_s, probe=probe_s, algo=algo_s)
    @traced
    def write_in_place(self, slot, content, clock, prime, probe, algo):
        p = self.existing(slot)
        if p is None:
            return
        self.prime(p, prime)
        self.do_write_in_place(p, content, clock)
        self.probe(p, probe, algo)

    @rule(slot=slot_s, content=content_s, clock=clock_s, prime=prime_s, probe=probe_s, algo=algo_s)
    @traced
    def atomic_replace(self, slot, content, clock, prime, probe, algo):
        p = self.existing(slot)
        if p is None:
            return
        self.prime(p, prime)
        self.do_atomic_replace(p, content, clock)
        self.probe(p, probe, algo)

    @rule(slot=slot_s, clock=clock_s)
    @traced
    def touch(self, slot, clock):
        p = self.existing(slot)
        if p is None:
            return
        before, prev = self.triple(p), os.stat(p).st_mtime_ns
        self.after_mutation(p, before, self.clock(p, clock, prev), content_changed=False)
        self.labels.add("mut:touch")

    @rule(slot=slot_s)
    @traced
    def delete(self, slot):
        p = self.existing(slot)
        if p is None:
            return
        self.last_bytes[p] = ref.read(p)
        os.unlink(p)
        self.after_mutation(p, None, None)
        self.labels.add("mut:delete")

    @rule(slot=slot_s, content=content_s, clock=clock_s, probe=probe_s, algo=algo_s)
    @traced
    def recreate(self, slot, content, clock, probe, algo):
        p = self.missing(slot)
        if p is None:
            return
        data = self.bytes_for(content, p)
        with open(p, "xb") as f:
            f.write(data)
        self.clock(p, clock, None)
        self.after_mutation(p, None, None)
        self.labels.add("mut:recreate" if self.hist.get(p) and len(self.hist[p]) > 1
                        else "mut:create")
        self.probe(p, probe, algo)

    @rule(slot=slot_s, x=st.booleans(), step=st.booleans(), clock=clock_s)
    @traced
    def chmod(self, slot, x, step, clock):
        p = self.existing(slot)
        if p is None:
            return
        before, prev = self.triple(p), os.stat(p).st_mtime_ns
        os.chmod(p, 0o755 if x else 0o644)
        if step:  # content is unchanged: the clock step is optional here
            self.after_mutation(p, before, self.clock(p, clock, prev), content_changed=False)
        self.labels.add("mut:chmod")

    # ---- query rules ---------------------------------------------------------------------------
    @rule(slot=qslot_s, given=st.booleans(), sp=sp_s)
    @traced
    def q_get(self, slot, given, sp=0):
        p = self.qpath(slot) if slot >= 20 else self.p(SLOTS[slot % len(SLOTS)])
        self.r_get(self.spell(p, sp), given)

    @rule(n=size_s, pos=pos_s, offset=st.integers(0, N_PAD - 1),
          infos=st.sampled_from(["none", "all", "all", "live"]), sps=sps_s)
    @traced
    def q_get_many(self, n, pos, offset, infos, sps=()):
        self.r_get_many(self.spell_all(self.batch(n, pos, offset), sps), infos, n)

    def size_labels(self, route, n, nhit):
        self.labels.add(f"q:{route}")
        self.labels.add(f"batch:{route}:n={n if n in BIG or n < 3 else '3..8'}")
        if n >= 1000:
            self.nt.add("batch>=1000")
        if n >= 998 and nhit >= 900:
            self.labels.add("big-batch-mostly-hits")

    @rule(slot=qslot_s, algo=algo_s, given=st.booleans(), sp=sp_s)
    @traced
    def q_hash_file(self, slot, algo, given, sp=0):
        p = self.qpath(slot)
        if p is None:
            return
        self.r_hash_file(self.spell(p, sp), ALGOS[algo], given)

    @rule(what=st.sampled_from(["file", "dir", "dir"]), slot=qslot_s, algo=algo_s,
          kind=st.sampled_from(ops.STORE_KINDS), sp=sp_s, wsp=wsp_s)
    @traced
    def q_build(self, what, slot, algo, kind, sp=0, wsp=0):
        p = self.qpath(slot)
        if p is None:
            return
        name = ALGOS[algo]
        if what == "file":
            self.r_build_file(self.spell(p, sp), name, kind)
        else:
            self.r_build_dir(name, kind, wsp)

    @rule(n=size_s, pos=pos_s, offset=st.integers(0, N_PAD - 1), algo=st.sampled_from([0, 0, 0, 1, 2]),
          walk=st.booleans(), sps=sps_s)
    @traced
    def q_get_hashes(self, n, pos, offset, algo, walk=False, sps=()):
        self.r_get_hashes(self.spell_all(self.batch(n, pos, offset), sps), ALGOS[algo], n, walk=walk)

    @rule(algo=algo_s, wsp=wsp_s)
    @traced
    def q_build_entries(self, algo, wsp=0):
        self.r_build_entries(ALGOS[algo], wsp)

    @rule(slot=qslot_s, sp1=sp_s, sp2=sp_s, sp3=sp_s,
          r1=st.sampled_from(["hash_file", "hash_file+info", "get_hashes", "build_file", "many"]),
          r2=st.sampled_from(["hash_file", "get_hashes", "build_file", "get", "many+infos"]),
          r3=st.sampled_from(["get", "get+info", "many", "many+infos", "hash_file", "get_hashes",
                              "build_file"]),
          content=content_s, clock=clock_s, algo=algo_s)
    @traced
    def spelled_history(self, slot, sp1, sp2, sp3, r1, r2, r3, content, clock, algo):
        """One file, three lookups through drawn routes (single / batched) under drawn spellings of
        its path, with an in-place rewrite after the first; then the canonical spelling and, for the
        files of sub/, the lexical twin in the workspace root are looked up as well."""
        p = self.qpath(slot)
        if p is None:
            return
        name = ALGOS[algo]
        self.route_on(self.spell(p, sp1), r1, name)
        if not os.path.islink(p):
            self.do_write_in_place(p, content, clock)
        self.route_on(self.spell(p, sp2), r2, name)
        self.route_on(self.spell(p, sp3), r3, name)
        twin = os.path.join(self.ws, os.path.basename(p))
        for q in [p] + ([twin] if twin != p and os.path.isfile(twin) else []):
            self.r_get(q, False)
            self.r_get_many([q, self.spell(q, 1)], "none")
            self.r_hash_file(q, name, False)

    def route_on(self, q, route, name):
        """One lookup of the (spelled) path q through a single or a batched route."""
        if route in ("get", "get+info"):
            self.r_get(q, route.endswith("+info"))
        elif route in ("many", "many+infos"):
            self.r_get_many([q], "all" if route.endswith("+infos") else "none")
        elif route in ("hash_file", "hash_file+info"):
            self.r_hash_file(q, name, route.endswith("+info"))
        elif route == "get_hashes":
            self.r_get_hashes([q], name)
        else:
            self.r_build_file(q, name, "local")

    def check_index(self, route, index, name=None, all_files=False):
        n = 0
        seen = set()
        for key, e in index.iteritems():
            if e.meta is not None and e.meta.isdir:
                continue
            p = os.path.join(self.ws, *key)
            seen.add(p)
            if e.hash_info:
                n += 1
                self.check(route, p, e.hash_info, name)
            elif all_files:
                self.violate(f"no-hash:{route}", f"{route}: file entry {key} has no hash")
        if all_files and seen != set(self.live_files()):
            self.violate(f"listing:{route}", f"{route}: entries do not cover exactly the files on disk")
        return n

    @rule(algo=algo_s)
    @traced
    def q_index_build_md5(self, algo):
        """old = md5(build(ws)): the index a caller keeps."""
        from dvc_data.index.build import build as ibuild
        from dvc_data.index.save import md5 as imd5

        name = ALGOS[algo]
        self.cnt["queries"] += 1
        old = imd5(ibuild(self.ws, self.fs), state=self.state, name=name)
        self.take_hits(name)
        self.check_index("index.md5", old, name, all_files=True)
        self.close_indexes()
        self.old, self.old_epoch, self.old_prov = old, self.mut_count, "memory"
        self.labels.add(f"q:index.md5:{name}")

    @rule(algo=algo_s, then_md5=st.booleans(), prov=prov_s, drop=drop_s)
    @traced
    def q_index_update(self, algo, then_md5, prov=None, drop=()):
        """new = build(ws); update(new, old): carried-over hashes must be those of the bytes now."""
        self.r_index_update(ALGOS[algo], then_md5, prov, drop)

    @rule(prov=st.sampled_from(["reopened", "reopened", "stripped"]), drop=drop_s)
    @traced
    def old_index_provenance(self, prov, drop):
        """The kept index is persisted and reopened / loses stat-only Meta fields now (a later
        mutation and update() follow in the history)."""
        self.old_provenance(prov, drop)

    @rule(algo=algo_s)
    @traced
    def q_index_remd5(self, algo):
        """md5() of the kept index: stored hashes are re-checked against the filesystem."""
        from dvc_data.index.save import md5 as imd5

        name = ALGOS[algo]
        self.cnt["queries"] += 1
        res = imd5(self.old, state=self.state, name=name)
        self.take_hits(name)
        self.check_index("index.md5(kept)", res, name)
        self.labels.add("q:index.md5(kept)" + (":after-mutation" if self.mut_count > self.old_epoch
                                                 else ""))

    @rule(route=st.sampled_from(["get_hashes", "build_dir", "build_entries"]), algo=algo_s,
          stir=st.sampled_from([True, True, False]), skip=st.sampled_from([0, 0, 1]),
          pick=st.integers(0, 4),
          how=st.sampled_from(["write_in_place", "write_in_place", "atomic_replace", "atomic_replace",
                               "delete"]),
          content=content_s, clock=clock_s,
          probe=st.sampled_from(["get", "get+info", "many", "many+infos", "hash_file",
                                 "hash_file+info", "get_hashes", "build_file", "build_entries",
                                 "index", None]),
          palgo=algo_s)
    @traced
    def mutate_during_batch(self, route, algo, stir, skip, pick, how, content, clock, probe, palgo):
        """Another writer changes a file the batch call has already read, before the call returns.

        The hashes returned by that very call are not judged for the changed file; whatever the call
        recorded must not make any later lookup of it a stale hit."""
        from dvc_data.hashfile.build import _get_hashes, build
        from dvc_data.index.build import build_entries

        live = self.live_files()
        if len(live) < 2:
            return
        name = ALGOS[algo]
        if stir:  # every file was touched since the last run: the whole batch has to be re-hashed
            for i, q in enumerate(live):
                before, prev = self.triple(q), os.stat(q).st_mtime_ns
                self.after_mutation(q, before, self.clock(q, ["d", 1 + i], prev),
                                    content_changed=False)

        slot_files = {self.p(s_) for s_ in SLOTS}
        deleted = []

        def action(victim):
            if how == "delete" and victim in slot_files:  # link targets are never deleted
                self.last_bytes[victim] = ref.read(victim)
                os.unlink(victim)
                self.after_mutation(victim, None, None)
                self.labels.add("mut:delete")
                deleted.append(victim)
            elif how != "atomic_replace" or os.path.islink(victim):
                self.do_write_in_place(victim, content, clock)
            else:
                self.do_atomic_replace(victim, content, clock)

        wfs = WriterFS(self, route != "get_hashes", skip, pick, action)
        self.cnt["queries"] += 1
        got = {}
        if route == "get_hashes":
            infos = {q: self.fs.info(q) for q in live}
            res = _get_hashes(list(live), wfs, name, infos, state=self.state)
            got = {q: r[1] for q, r in res.items()}
        elif route == "build_dir":
            odb = ops.make_odb("local", os.path.join(self.dir, f"odb-local-{name}"),
                               state=self.state, hash_name=name)
            _staging, _meta, obj = build(odb, self.ws, wfs, name)
            got = {os.path.join(self.ws, *key): hi for key, _m, hi in obj}
        else:
            for e in build_entries(self.ws, wfs, compute_hash=True, state=self.state,
                                   hash_name=name):
                if not (e.meta is not None and e.meta.isdir):
                    got[os.path.join(self.ws, *e.key)] = e.hash_info
        self.take_hits(name)
        route_name = {"get_hashes": "_get_hashes", "build_dir": "build(dir)",
                      "build_entries": "build_entries"}[route]
        changed = os.path.realpath(wfs.victim) if wfs.victim else None
        for q in sorted(got):
            # not judged for the file that changed mid-call - under any name (a symlink to it too)
            if os.path.realpath(q) != changed:
                self.check(route_name, q, got[q], name)
        self.labels.add(f"q:{route_name}:{name}")
        if wfs.victim is None:
            self.labels.add("mid-batch:writer-not-fired")
            return
        self.nt.add("mutation-during-batch")
        if deleted:  # the file is gone: no lookup of it may hit, every other file is judged
            self.labels.add(f"mid-batch:{route}:delete")
            self.r_get(wfs.victim, False)
            self.lookup_all(self.live_files(), ALGOS[palgo], "all" if probe and "+" in probe else "none")
            return
        self.labels.add(f"mid-batch:{route}:" + ("write_in_place" if how == "delete" else how))
        self.probe(wfs.victim, probe, palgo)

    def lookup_all(self, paths, name, infos):
        """Every way of asking the state about these paths (batch, single, through hash_file)."""
        self.r_get_many(list(paths), infos)
        for q in paths:
            if os.path.isfile(q):
                self.r_hash_file(q, name, infos == "all")

    @rule(rot=st.integers(0, 7), gone=st.lists(st.integers(0, 6), min_size=1, max_size=2),
          never=st.booleans(), with_info=st.lists(st.booleans(), min_size=8, max_size=8),
          algo=algo_s, infos=st.sampled_from(["none", "all"]))
    @traced
    def q_save_many(self, rot, gone, never, with_info, algo, infos):
        """An honest caller records a batch of hashes it computed; one or two files of the batch (not
        the last) vanished before the recording, or never existed. The others must be served right."""
        from dvc_data.hashfile.hash_info import HashInfo

        name = ALGOS[algo]
        live = self.live_files()
        if len(live) < 2:
            return
        r = rot % len(live)
        paths = live[r:] + live[:r]
        slot_files = {self.p(s_) for s_ in SLOTS}
        items, victims = [], []
        if never:
            for j, g in enumerate(sorted({g % len(paths) for g in gone})):
                paths.insert(g, self.p(NEVER[j]))   # g < len(paths): never the last position
                victims.append(self.p(NEVER[j]))
        else:
            cand = [q for q in paths[:-1] if q in slot_files]
            if not cand:
                return
            victims = sorted({cand[g % len(cand)] for g in gone})
        for i, q in enumerate(paths):
            if q in victims and never:
                items.append((q, HashInfo(name, ref.ref_hash(b"never:" + q.encode(), name)), None))
                continue
            hi = HashInfo(name, ref.ref_hash(ref.read(q), name))       # hashed while it existed
            info = None if q in victims or not with_info[i % len(with_info)] else self.fs.info(q)
            items.append((q, hi, info))
        if not never:
            for q in victims:
                self.last_bytes[q] = ref.read(q)
                os.unlink(q)
                self.after_mutation(q, None, None)
                self.labels.add("mut:delete")
        self.cnt["queries"] += 1
        self.state.save_many(items, self.fs)
        self.labels.add("q:State.save_many:" + ("never-existed" if never else "vanished")
                        + f":{len(victims)}")
        self.nt.add("save_many-with-vanished-item")
        for q in victims:
            self.r_get(q, False)
        self.lookup_all([q for q in paths if q not in victims], name, infos)

    @rule(rot=st.integers(0, 7), bad=st.lists(st.integers(0, 6), min_size=1, max_size=2), algo=algo_s)
    @traced
    def q_odb_add_verify(self, rot, bad, algo):
        """odb.add(paths, fs, oids, verify=True) on a LocalHashFileDB carrying the state, where one or
        two earlier sources do not match their oid (they are dropped by the verification); the
        state's entries for the remaining objects must be the digests of those objects."""
        name = ALGOS[algo]
        by_content = {}
        for q in self.live_files():
            by_content.setdefault(ref.read(q), q)
        srcs = sorted(by_content.values())
        if len(srcs) < 2:
            return
        r = rot % len(srcs)
        srcs = srcs[r:] + srcs[:r]
        wrong = {b % (len(srcs) - 1) for b in bad}           # never the last one
        oids = []
        for i, q in enumerate(srcs):
            data = ref.read(q)
            oids.append(ref.ref_hash(b"\x00not-this:" + data if i in wrong else data, name))
        self.nodb = getattr(self, "nodb", 0) + 1
        odb = ops.make_odb("local", os.path.join(self.dir, f"odb-verify-{self.nodb}"),
                           state=self.state, hash_name=name)
        errors = []
        self.cnt["queries"] += 1
        odb.add(list(srcs), self.fs, list(oids), verify=True,
                on_error=lambda o, exc: errors.append(o))
        self.state.hits = []
        self.labels.add(f"q:odb.add(verify):{name}:bad={len(wrong)}")
        self.nt.add("save_many-with-vanished-item")
        for i, o in enumerate(oids):
            cp = odb.oid_to_path(o)
            if i in wrong:
                if os.path.exists(cp):
                    continue   # C07's concern, not judged here
                self.r_get(cp, False)
            elif os.path.isfile(cp):
                self.r_get(cp, False)
                self.r_hash_file(cp, name, False)
                self.r_get_many([odb.oid_to_path(x) for x in oids], "none")

    @rule(algo=algo_s, jobs=st.integers(2, 8), threshold=st.integers(0, 8), rot=st.integers(0, 4),
          slow=st.sampled_from([0, 0, 0, 1, 2]), stir=st.sampled_from([True, True, True, False]),
          big=st.sampled_from([False, False, False, True]),
          infos=st.sampled_from(["none", "all"]))
    @traced
    def q_pool_hashes(self, algo, jobs, threshold, rot, slow, stir, big, infos):
        """The parallel (unordered) hashing path: >= 2 files above the large-file threshold, > 1 job,
        completion order shaped to differ from submission order. Every returned hash and every
        later state lookup of those (never modified) paths must be the digest of that path's bytes."""
        from dvc_data.hashfile.build import _get_hashes, build

        name = ALGOS[algo]
        if big:
            paths = self.big_files()
            for q in paths:  # touched since the last run: not a state hit
                self.big_k += 1
                ns = T0_NS + 10**12 + self.big_k * 1_000_000
                os.utime(q, ns=(ns, ns))
        else:
            live = self.live_files()
            if len(live) < 2:
                return
            r = rot % len(live)
            paths = live[r:] + live[:r]
            if stir:
                for i, q in enumerate(paths):
                    before, prev = self.triple(q), os.stat(q).st_mtime_ns
                    self.after_mutation(q, before, self.clock(q, ["d", 1 + i], prev),
                                        content_changed=False)
        large = [q for q in paths if os.path.getsize(q) > (2**20 if big else threshold)]
        slow_path = large[slow % len(large)] if large else paths[0]
        self.cnt["queries"] += 1
        with SlowFirst(slow_path) as shaper:
            if big:
                odb = ops.make_odb("local", os.path.join(self.dir, f"odb-local-{name}"),
                                   state=self.state, hash_name=name)
                _staging, _meta, obj = build(odb, os.path.dirname(paths[0]), self.fs, name,
                                             checksum_jobs=jobs)
                got = {os.path.join(os.path.dirname(paths[0]), *key): hi for key, _m, hi in obj}
                route = "build(dir,>1MiB)"
            else:
                given = {q: self.fs.info(q) for q in paths}
                res = _get_hashes(list(paths), self.fs, name, given, state=self.state, jobs=jobs,
                                  large_file_threshold=threshold)
                got = {q: r_[1] for q, r_ in res.items()}
                route = "_get_hashes(pool)"
        self.take_hits(name)
        if sorted(got) != sorted(paths):
            self.violate(f"batch-shape:{route}", f"{route} did not answer exactly the paths asked")
        for q in paths:
            self.check(route, q, got[q], name)
        self.labels.add(f"q:{route}:{name}")
        if shaper.pool_calls >= 2:
            self.labels.add(f"pool:{route}:files-in-pool>=2")
            if len({ref.read(q) for q in large}) >= 2:
                self.labels.add("pool:distinct-contents")
                self.nt.add("pool-hashing")
        else:
            self.labels.add("pool:not-reached")
        # what the call recorded: every later lookup of these paths
        self.r_get_many(list(paths), infos)
        for q in paths:
            self.r_hash_file(q, name, infos == "all")

    def big_files(self):
        d = os.path.join(self.dir, "big")
        if not os.path.isdir(d):
            os.mkdir(d)
            for i, nm in enumerate(["big-a", "big-b", "big-c"]):
                with open(os.path.join(d, nm), "wb") as f:
                    f.write((b"%d:0123456789abcdefg\n" % i) * (56_000 + 3000 * i))
            self.labels.add("big-files-created")
        return [os.path.join(d, nm) for nm in ["big-a", "big-b", "big-c"]]

    # ---- a file that changes between the library's stat and its open() --------------------------
    def ao_bytes(self, size):
        """Cheap bytes of an exact size (16-byte block repeated, no CR: md5-dos2unix == md5 whatever
        the chunking), different on every call of a history."""
        self.ao_k = getattr(self, "ao_k", 0) + 1
        pat = bytes([65 + self.ao_k % 26]) + b"0123456789abcd\n"
        return (pat * (size // 16 + 1))[:size]

    def do_sized(self, p, how, n, clock):
        """Size-directed mutation of the regular file p, then the harness clock: set (in place, n
        bytes), append (n bytes), truncate (cut n bytes), rewrite (same size, other bytes), replace+
        / replace- / replace= (atomic replace = new inode, by other bytes of size +n / -n / equal)."""
        before, prev = self.triple(p), os.stat(p).st_mtime_ns
        ino, size = os.stat(p).st_ino, os.path.getsize(p)
        old = ref.read(p)
        if how.startswith("replace"):
            new_size = size + n if how == "replace+" else max(0, size - n) if how == "replace-" else size
            tmp = p + ".tmp~"
            with open(tmp, "xb") as f:
                f.write(self.ao_bytes(new_size))
            os.replace(tmp, p)
            if os.stat(p).st_ino == ino:
                raise HarnessError("atomic replace did not produce a new inode")
        else:
            if how == "append":
                with open(p, "ab") as f:
                    f.write(self.ao_bytes(n))
            elif how == "truncate":
                os.truncate(p, max(0, size - n))
            else:
                data = self.ao_bytes(n if how == "set" else size)
                with open(p, "r+b") as f:
                    f.write(data)
                    f.truncate()
            if os.stat(p).st_ino != ino:
                raise HarnessError("in-place mutation changed the inode")
        self.after_mutation(p, before, self.clock(p, clock, prev), content_changed=ref.read(p) != old)
        self.labels.add("mut:sized:" + how)

    @rule(slot=qslot_s, route=ao_route_s, algo=algo_s, pre=ao_pre_s, mut=ao_mut_s, n=ao_n_s,
          clock=clock_s, prime=st.sampled_from([None, None, None, None, 0, 1, 2]),
          infos=st.sampled_from(["none", "none", "all"]), probe=probe_s, palgo=algo_s,
          shrink=st.sampled_from([True, True, False]))
    @traced
    def mutate_at_open(self, slot, route, algo, pre, mut, n, clock, prime, infos, probe, palgo,
                       shrink=False):
        """Another writer changes a file between the library's stat of it and its open(): the call
        goes through AtOpenFS, which applies the drawn mutation (append - also from just below the
        1 MiB read chunk to beyond it -, truncate, same-size rewrite, atomic replace; then the
        harness clock) at the first open() of that file, before the handle is returned.

        The hash returned by that very call is not judged for the file. Whatever the call recorded
        must not make any later lookup a stale hit: right after the call and ever after, every
        route's answer must be the digest of the file's bytes at that instant (a call that stat()s
        the file again after hashing may record the hash of the bytes it read under that token; a
        call that records under the caller's earlier stat info leaves an entry no later token
        matches). shrink: afterwards an ordinary write gives a file > 64 KiB 48 bytes again."""
        from dvc_data.hashfile.build import _get_hashes, build
        from dvc_data.hashfile.hash import hash_file
        from dvc_data.index.build import build as ibuild
        from dvc_data.index.build import build_entries
        from dvc_data.index.save import md5 as imd5

        p = self.qpath(slot)
        if p is None:
            return
        target = os.path.realpath(p)      # the file whose bytes are hashed (p may be a symlink)
        name = ALGOS[algo]
        if pre is not None:               # an ordinary earlier write gives the file its size
            self.do_sized(target, "set", pre, ["d", 1500])
        self.prime(p, prime)
        size0 = os.path.getsize(target)

        afs = AtOpenFS(target, lambda: self.do_sized(target, mut, n, clock))
        self.cnt["queries"] += 1
        got = {}
        if route in ("hash_file", "hash_file+info"):
            info = self.fs.info(p) if route.endswith("+info") else None
            hash_file(p, afs, name, state=self.state, info=info)
        elif route == "index_md5":
            res = imd5(ibuild(self.ws, afs), state=self.state, name=name)
            got = {os.path.join(self.ws, *key): e.hash_info for key, e in res.iteritems()
                   if not (e.meta is not None and e.meta.isdir) and e.hash_info}
        elif route == "build_file":
            odb = ops.make_odb("local", os.path.join(self.dir, f"odb-local-{name}"),
                               state=self.state, hash_name=name)
            build(odb, p, afs, name, dry_run=True)
        elif route == "get_hashes":
            live = self.live_files()
            given = {q: self.fs.info(q) for q in live}
            res = _get_hashes(list(live), afs, name, given, state=self.state)
            got = {q: r[1] for q, r in res.items()}
        elif route == "build_dir":
            odb = ops.make_odb("local", os.path.join(self.dir, f"odb-local-{name}"),
                               state=self.state, hash_name=name)
            _staging, _meta, obj = build(odb, self.ws, afs, name, dry_run=True)
            got = {os.path.join(self.ws, *key): hi for key, _m, hi in obj}
        else:
            for e in build_entries(self.ws, afs, compute_hash=True, state=self.state,
                                   hash_name=name):
                if not (e.meta is not None and e.meta.isdir):
                    got[os.path.join(self.ws, *e.key)] = e.hash_info
        self.take_hits(name)
        route_name = {"index_md5": "index.md5", "get_hashes": "_get_hashes", "build_dir": "build(dir)",
                      "build_entries": "build_entries"}.get(route, route)
        for q in sorted(got):   # every other file of a batch call is judged as ever
            if os.path.realpath(q) != target:
                self.check(route_name, q, got[q], name)
        self.labels.add(f"q:at-open:{route}")
        if not afs.fired:       # answered from the cache: the file was never opened
            self.labels.add("at-open:writer-not-fired")
        else:
            size1 = os.path.getsize(target)
            self.nt.add("mutation-at-open")
            self.labels.add(f"at-open:{route}:{mut}")
            self.labels.add("at-open:size:" + ("below-1MiB->above" if size0 < MIB < size1 else
                                               "below-1MiB->1MiB" if size0 < MIB == size1 else
                                               ">=1MiB" if size0 >= MIB else
                                               "stays-below-1MiB"))
            if p != target:
                self.labels.add("at-open:through-symlink")
        # what the call recorded: every way of asking about the file, now and (later steps) ever after
        self.r_get(p, False)
        others = [q for q in self.live_files() if q != p]
        self.r_get_many(others[:1] + [p] + others[1:3], infos)
        self.r_get(p, True)
        self.r_hash_file(p, name, infos == "all")
        self.r_index_update(name, True)
        self.probe(p, probe, palgo)
        if shrink and os.path.getsize(target) > 65536:
            # an ordinary later write makes the file small again (keeps the rest of the history
            # cheap; two histories in three - the others go on querying the large file)
            self.do_sized(target, "set", 48, ["d", 2500])
            self.r_get(p, False)

    # ---- size-only histories: rewritten in place, other size, the old mtime restored ---------------
    @rule(slot=qslot_s, sizes=so_sizes_s, route=so_route_s, algo=algo_s,
          infos=st.sampled_from(["none", "none", "all"]), probe=probe_s, palgo=algo_s)
    @traced
    def size_only_history(self, slot, sizes, route, algo, infos, probe, palgo):
        """One file goes through a chain of sizes (EMPTY included: growing from empty, shrinking to
        empty, growing, shrinking). The first size is given by an ordinary write (clock moved on);
        every further one by a rewrite IN PLACE (same inode) after which the mtime the file had
        before is restored to the nanosecond (rsync -t, tar extraction, touch -r): of (inode, mtime,
        size) only the SIZE changes. Before every such rewrite the tool hashes the file honestly
        through a drawn state-backed route (an entry for the pre-mutation triple exists, also for
        the empty file); after it every lookup route is judged by the ordinary oracle."""
        p = self.qpath(slot)
        if p is None:
            return
        target = os.path.realpath(p)      # the file whose bytes are hashed (p may be a symlink)
        name = ALGOS[algo]
        self.do_sized(target, "set", sizes[0], ["d", 1500])
        for n in sizes[1:]:
            size0 = os.path.getsize(target)
            if n == size0:                # a mutation that keeps all three stays outside
                n = size0 + 3
            # an earlier honest run of the tool recorded the file as it is now
            self.probe(p, route, algo)
            if not size0:
                self.labels.add("size-only:empty-file-hashed-through-state:" + route)
            before, prev = self.triple(target), os.stat(target).st_mtime_ns
            self.do_sized(target, "set", n, ["keep"])
            after = self.triple(target)
            if os.stat(target).st_mtime_ns == prev and after[:2] == before[:2]:
                if after[2] == before[2]:
                    raise HarnessError("size-only mutation left the size unchanged")
                self.labels.add("mut:size-only:" + ("empty->nonempty" if not size0 else
                                                    "nonempty->empty" if not n else
                                                    "grow" if n > size0 else "shrink"))
                self.nt.add("size-only-mutation")
            else:   # that triple was held before: the harness clock moved on (premise)
                self.labels.add("size-only:restepped(triple-held-before)")
            self.r_get(p, False)
            others = [q for q in self.live_files() if q != p]
            self.r_get_many(others[:1] + [p] + others[1:3], infos)
            self.r_get(p, True)
            self.r_hash_file(p, name, infos == "all")
            self.r_get_hashes([p] + others[:1], name)
        self.probe(p, probe, palgo)

    # ---- symlinked entries: the bytes (and the token) are those of the link's target -----------
    @rule(link=st.integers(0, 1), how=st.sampled_from(["in_place", "in_place", "replace"]),
          content=st.one_of(st.just("same-size"), st.just("same-size"), content_s), clock=clock_s,
          prime=st.sampled_from([None, 0, 0, 1, 2, "dir", "dir", "entries"]),
          probe=st.sampled_from([None, "build_dir", "build_dir", "get_hashes+walk", "get_hashes",
                                 "build_entries", "index", "get", "many+infos", "hash_file",
                                 "build_file"]),
          algo=algo_s)
    @traced
    def link_target_write(self, link, how, content, clock, prime, probe, algo):
        """Rewrite the TARGET of a symlinked entry (in place or by atomic replace); the harness clock
        steps the target, i.e. the file whose bytes are hashed."""
        lp = self.p(LINKS[link % len(LINKS)])
        target = os.path.realpath(lp)
        name = ALGOS[algo]
        if prime in ("dir", "entries"):  # an earlier batch run of the tool recorded the entry
            (self.r_build_dir if prime == "dir" else self.r_build_entries)(
                *((name, "local") if prime == "dir" else (name,)))
        else:
            self.prime(lp, prime)
        if content == "same-size":
            cur = ref.read(target)
            content = "h:" + bytes((b + 1) % 256 for b in cur).hex()
            self.labels.add("link:target-rewritten-same-size")
        if how == "in_place":
            self.do_write_in_place(target, content, clock)
        else:
            self.do_atomic_replace(target, content, clock)
        self.labels.add("mut:link_target_write:" + ("inside" if target.startswith(self.ws + os.sep)
                                                    else "outside"))
        self.probe(lp, probe, algo)

    @rule(link=st.integers(0, 1), to=st.integers(0, 2), relative=st.booleans(),
          probe=st.sampled_from([None, "build_dir", "get_hashes+walk", "build_entries", "index", "get",
                                 "many", "hash_file+info"]),
          algo=algo_s)
    @traced
    def link_retarget(self, link, to, relative, probe, algo):
        """Point the symlink at another regular file (another inode: the premise holds)."""
        lp = self.p(LINKS[link % len(LINKS)])
        new = self.target_path(sorted(TARGETS)[to % len(TARGETS)])
        old_real = os.path.realpath(lp)
        if os.path.realpath(new) == old_real:
            return
        dest = os.path.relpath(new, os.path.dirname(lp)) if relative else new
        tmp = lp + ".lnk~"
        os.symlink(dest, tmp)
        os.replace(tmp, lp)
        if os.path.realpath(lp) != os.path.realpath(new) or os.stat(lp).st_ino == os.stat(old_real).st_ino:
            raise HarnessError("retarget did not change the file behind the link")
        self.mutated.add(lp)
        self.mut_count += 1
        self.labels.add("mut:link_retarget:" + ("relative" if relative else "absolute"))
        self.probe(lp, probe, algo)

    # ---- a workspace populated by a real checkout from a cache attached to the index --------------
    CO_FILES = {"foo": b"foo: original contents\n", "bar": b"bar\r\ncontents\r\n", "baz": b"BAZ!"}

    @rule(link=st.sampled_from(["symlink", "symlink", "hardlink", "copy"]), algo=st.sampled_from([0, 0, 1]),
          muts=st.lists(st.tuples(st.integers(0, 2),
                                  st.sampled_from(["write", "write", "write", "replace", "retarget",
                                                   "touch"]),
                                  content_s, clock_s).map(list), min_size=1, max_size=3),
          use_state=st.sampled_from([True, True, False]))
    @traced
    def checkout_history(self, link, algo, muts, use_state):
        """An index with a local cache (ObjectStorage) and data storage whose workspace was populated
        by index checkout with a drawn link type; then in-place writes THROUGH the links, links
        replaced by regular files, retargeted links, each followed by md5(index) and update(). Only
        the workspace path's hash is judged (a write through a link also changes the cache object)."""
        from dvc_data.hashfile.hash_info import HashInfo
        from dvc_data.hashfile.meta import Meta
        from dvc_data.index.build import build as ibuild
        from dvc_data.index.checkout import apply, compare
        from dvc_data.index.index import DataIndex, DataIndexEntry, FileStorage, ObjectStorage
        from dvc_data.index.save import md5 as imd5
        from dvc_data.index.update import update

        name = ALGOS[algo]
        state = self.state if use_state else None
        self.nco = getattr(self, "nco", 0) + 1
        top = os.path.join(self.dir, f"co{self.nco}")
        src, ws = os.path.join(top, "src"), os.path.join(top, "ws")
        os.makedirs(src)
        os.makedirs(ws)
        odb = ops.make_odb("local", os.path.join(top, "cache"), state=self.state, hash_name=name,
                           type=[link])
        index = DataIndex()
        index.storage_map.add_cache(ObjectStorage((), odb))
        names = sorted(self.CO_FILES)
        for nm in names:
            data = self.CO_FILES[nm]
            gen.write_file(os.path.join(src, nm), data)
            oid = ref.ref_hash(data, name)
            odb.add(os.path.join(src, nm), self.fs, oid)
            index[(nm,)] = DataIndexEntry(key=(nm,), meta=Meta(size=len(data), md5=oid),
                                          hash_info=HashInfo(name, oid))
        apply(compare(None, index), ws, self.fs, update_meta=False, links=[link])
        index.storage_map.add_data(FileStorage((), self.fs, ws))
        for i, nm in enumerate(names):
            q = os.path.join(ws, nm)
            if not os.path.isfile(q):
                raise HarnessError(f"checkout did not create {q}")
            os.chmod(os.path.realpath(q), 0o644)     # the user makes the file writable
            self.clock(q, ["d", 0], T0_NS + (30 + i) * 1_000_000_000 + 500_000_000)
        self.labels.add(f"checkout:{link}:{name}")

        def judge(route, idx):
            n = 0
            for key, e in idx.iteritems():
                if e.meta is not None and e.meta.isdir:
                    continue
                if e.hash_info:
                    n += 1
                    self.check(route, os.path.join(ws, *key), e.hash_info)
            return n

        self.cnt["queries"] += 1
        kept = imd5(index, state=state, name=name)
        judge("index.md5(checkout)", kept)
        for fi, how, content, clock in muts:
            q = os.path.join(ws, names[fi % len(names)])
            if how == "retarget" and os.path.islink(q):
                other = os.path.join(ws, names[(fi + 1) % len(names)])
                dest = os.path.realpath(other)
                tmp = q + ".lnk~"
                os.symlink(dest, tmp)
                os.replace(tmp, q)
                self.mut_count += 1
            elif how == "replace" or (how == "retarget" and not os.path.islink(q)):
                self.do_atomic_replace(q, content, clock)
            elif how == "touch":
                before, prev = self.triple(q), os.stat(q).st_mtime_ns
                self.after_mutation(q, before, self.clock(q, clock, prev), content_changed=False)
            else:
                how = "write-through-" + ("symlink" if os.path.islink(q) else
                                          "hardlink" if os.stat(q).st_nlink > 1 else "copy")
                self.do_write_in_place(q, content, clock)
            self.labels.add("checkout-mut:" + how)
            self.cnt["queries"] += 2
            res = imd5(index, state=state, name=name)          # the index the caller kept
            judge("index.md5(checkout)", res)
            new = ibuild(ws, self.fs)
            update(new, kept)
            self.cnt["carried"] += judge("index.update(checkout)", new)
            kept = imd5(new, state=state, name=name)
            judge("index.update+md5(checkout)", kept)
        self.state.hits = []
        self.nt.add("checkout-then-mutation")

    # ---- checkout over checkout: the tool itself rewrites the workspace and vouches for it --------
    CS_FILES = ["foo", "bar", "baz", "sub/qux"]
    CS_VERS = {   # per file: [v0, v1 = other bytes of v0's size, v2 = another size, v3 = bytes shared with others]
        "foo": [b"foo: original contents\n", b"foo: ORIGINAL contents\n",
                b"foo: a later and longer version of the contents\n", b"shared\r\nbytes\r\n"],
        "bar": [b"bar\r\ncontents\r\n", b"BAR\r\ncontents\r\n", b"bar\ncontents\n", b"shared\r\nbytes\r\n"],
        "baz": [b"BAZ!", b"baz?", b"", b"shared\r\nbytes\r\n"],
        "sub/qux": [b"qux one\n", b"qux two\n", b"qux number three\n", b"BAZ!"],
    }

    @rule(links=st.sampled_from(CS_LINKS), via=st.sampled_from(["links", "links", "cache_types"]),
          algo=st.sampled_from([0, 0, 1]), steps=st.lists(cs_step_s, min_size=2, max_size=4))
    @traced
    def checkout_switch(self, links, via, algo, steps):
        """A workspace that index checkout populates and then RE-populates: checkout of version 1,
        then compare(old, version k) + apply(..., state=state) for further versions in which files
        change their hash (same size / other size), appear and disappear, with the link types
        passed as apply(links=...) or taken from the cache odb's cache_types. `old` is the index
        checked out before (only while the workspace still is what that checkout made it), or an
        index built from the workspace (hashes through the state, what `dvc checkout` passes), or
        build + update() from the index kept after the previous step. The user may replace / delete
        / touch / create workspace files between two checkouts (never writes through a link: that
        would alter the cache object).

        After EVERY checkout step the hash of EVERY workspace file is asked for through the
        state-backed channels (update() from the index that was just checked out when its meta was
        refreshed, md5() of that index, State.get / get_many, hash_file(state=), staging build() of
        each file and of the directory, md5(build(ws))); each answer must be the digest of the bytes
        the path yields NOW - whatever they are: whether checkout wrote the right bytes is C09's."""
        from dvc_data.hashfile.build import build as obuild
        from dvc_data.hashfile.hash_info import HashInfo
        from dvc_data.hashfile.meta import Meta
        from dvc_data.index.build import build as ibuild
        from dvc_data.index.checkout import apply, compare
        from dvc_data.index.index import DataIndex, DataIndexEntry, FileStorage, ObjectStorage
        from dvc_data.index.save import md5 as imd5
        from dvc_data.index.update import update

        name = ALGOS[algo]
        self.ncs = getattr(self, "ncs", 0) + 1
        top = os.path.join(self.dir, f"cs{self.ncs}")
        src, ws = os.path.join(top, "src"), os.path.join(top, "ws")
        os.makedirs(src)
        os.makedirs(ws)
        odb = ops.make_odb("local", os.path.join(top, "cache"), state=self.state, hash_name=name,
                           type=list(links))
        stage = ops.make_odb("local", os.path.join(top, "stage"), state=self.state, hash_name=name)
        oids = {}
        for nm in self.CS_FILES:
            for k, data in enumerate(self.CS_VERS[nm]):
                sp = os.path.join(src, f"{nm.replace('/', '_')}.{k}")
                gen.write_file(sp, data)
                oids[nm, k] = ref.ref_hash(data, name)
                odb.add(sp, self.fs, oids[nm, k])
        self.labels.add(f"co-switch:links={'+'.join(links)}:{via}")

        def wpath(nm):
            return os.path.join(ws, *nm.split("/"))

        def ws_files():
            out = []
            for root, _dirs, files in os.walk(ws):
                out.extend(os.path.join(root, f) for f in files if os.path.isfile(os.path.join(root, f)))
            return sorted(out)

        # the property's premise, kept for the paths of THIS workspace: a path never shows the same
        # (inode, mtime, size) with other bytes (a recycled inode number + a same-tick timestamp of
        # the real clock would break it; then - and only then - the harness clock moves the file on)
        held = {}

        def settle():
            for _pass in (0, 1):   # hard links / symlinks share their inode with other paths
                for q in ws_files():
                    cur = ref.ref_hash(ref.read(q), "sha256")
                    m = held.setdefault(q, {})
                    t = self.triple(q)
                    if m.get(t, cur) != cur:
                        ns = os.stat(q).st_mtime_ns
                        for _ in range(200_000):
                            ns += 1000
                            os.utime(q, ns=(ns, ns))
                            t = self.triple(q)
                            if m.get(t, cur) == cur:
                                break
                        else:
                            raise HarnessError("settle: could not reach a fresh triple")
                        self.cnt["clock_resteps"] += 1
                        self.labels.add("co-switch:token-collision-restepped")
                    m[t] = cur
                    real = os.path.realpath(q)     # what the machine's own clock() steps away from
                    self.seen.setdefault(real, set()).add(t)
                    self.hist.setdefault(real, []).append(os.stat(q).st_mtime_ns)

        def judge(route, idx, all_files=False):
            n, seen = 0, set()
            for key, e in idx.iteritems():
                if e.meta is not None and e.meta.isdir:
                    continue
                q = os.path.join(ws, *key)
                seen.add(q)
                if e.hash_info:
                    n += 1
                    self.check(route, q, e.hash_info, name)
                elif all_files:
                    self.violate(f"no-hash:{route}", f"{route}: file entry {key} has no hash")
            if all_files and sorted(seen) != ws_files():
                self.violate(f"listing:{route}", f"{route}: entries do not cover exactly the files "
                             f"of the workspace: {sorted(seen ^ set(ws_files()))}")
            return n

        def built():
            self.cnt["queries"] += 1
            idx = imd5(ibuild(ws, self.fs), state=self.state, name=name)
            self.take_hits(name)
            judge("index.md5(checkout2)", idx, all_files=True)
            return idx

        prev = kept = None
        dirty = False
        for si, step in enumerate(steps):
            # -- the user edits the workspace between two checkouts
            for fi, how, content, clock in step["user"]:
                q = wpath(self.CS_FILES[fi % len(self.CS_FILES)])
                if how == "create":
                    if os.path.lexists(q) or not os.path.isdir(os.path.dirname(q)):
                        continue
                    gen.write_file(q, self.bytes_for(content, q))
                    self.clock(q, clock, None)
                    self.after_mutation(q, None, None)
                elif not os.path.isfile(q):
                    continue
                elif how == "delete":
                    os.unlink(q)
                    self.after_mutation(q, None, None)
                elif how == "touch":
                    before, prev_ns = self.triple(q), os.stat(q).st_mtime_ns
                    self.after_mutation(q, before, self.clock(q, clock, prev_ns), content_changed=False)
                else:
                    self.do_atomic_replace(q, content, clock)
                dirty = True
                settle()
                self.labels.add("co-switch:user:" + how)

            # -- the index the caller compares against
            want_old = step["old"]
            prev_ok = (prev is not None and not dirty
                       and ws_files() == sorted(os.path.join(ws, *k) for k, _e in prev.iteritems()))
            if not ws_files() and prev is None:
                old, how_old = None, "none"
            elif want_old == "prev" and prev_ok:
                old, how_old = prev, "prev"
            elif want_old == "updated" and kept is not None:
                self.cnt["queries"] += 1
                new = ibuild(ws, self.fs)
                update(new, kept)
                self.cnt["carried"] += judge("index.update(checkout2)", new)
                old = imd5(new, state=self.state, name=name)
                self.take_hits(name)
                judge("index.update+md5(checkout2)", old, all_files=True)
                how_old = "updated"
            else:
                old, how_old = built(), "built"
            self.labels.add("co-switch:old=" + how_old)

            # -- the version to check out
            target = DataIndex()
            target.storage_map.add_cache(ObjectStorage((), odb))
            tsize = {}
            for nm, k in zip(self.CS_FILES, step["v"]):
                if k < 0:
                    continue
                key = tuple(nm.split("/"))
                data = self.CS_VERS[nm][k % 4]
                target[key] = DataIndexEntry(key=key, meta=Meta(size=len(data)),
                                             hash_info=HashInfo(name, oids[nm, k % 4]))
                tsize[wpath(nm)] = len(data)
            before = {q: (ref.ref_hash(ref.read(q), name), os.path.getsize(q)) for q in ws_files()}
            failed = []
            diff = compare(old, target, relink=step["relink"], delete=step["delete"])
            apply(diff, ws, self.fs, update_meta=step["meta"],
                  state=self.state if step["state"] else None,
                  links=list(links) if via == "links" else None,
                  onerror=lambda *a: failed.append(a))
            target.storage_map.add_data(FileStorage((), self.fs, ws))
            self.mut_count += 1
            self.labels.add(f"co-switch:step{min(si, 2) + 1}:state={int(step['state'])}"
                            f":meta={int(step['meta'])}")
            if step["relink"]:
                self.labels.add("co-switch:relink")
            if failed:
                self.labels.add("co-switch:apply-reported-errors")
                dirty = True
            else:
                dirty = False

            # -- what this step did to the paths (labels / non-triviality only, never a verdict)
            modified = []
            for key, e in target.iteritems():
                q = os.path.join(ws, *key)
                if not os.path.isfile(q):
                    continue
                kind = ("symlink" if os.path.islink(q) else
                        "hardlink" if os.stat(q).st_nlink > 1 else "copy")
                self.labels.add("co-switch:got:" + kind)
                if q in before and before[q][0] != e.hash_info.value:
                    modified.append(q)
                    self.mutated.add(q)
                    self.labels.add(f"co-switch:modify:{kind}:" + (
                        "same-size" if before[q][1] == tsize[q] else "other-size"))
                elif q not in before:
                    self.mutated.add(q)
                    self.labels.add("co-switch:add")
            if modified and si:
                self.nt.add("second-checkout-modify")

            # -- every state-backed channel, every workspace file
            hits0 = self.cnt["hits_after_mutation"]
            if step["meta"]:     # carry-over from the index that was just checked out
                self.cnt["queries"] += 1
                new = ibuild(ws, self.fs)
                update(new, target)
                self.cnt["carried"] += judge("index.update(checkout2)", new)
            settle()
            self.cnt["queries"] += 1
            res = imd5(target, state=self.state, name=name)
            self.take_hits(name)
            judge("index.md5(kept,checkout2)", res)
            files = ws_files()
            given = bool((si + len(files)) % 2)
            for q in files:
                self.r_get(q, given)
            if files:
                self.r_get_many(list(files) + [os.path.join(ws, "never")], "all" if given else "none")
            for q in files:
                self.r_hash_file(q, name, not given)
                self.cnt["queries"] += 1
                _s, _m, obj = obuild(odb, q, self.fs, name, dry_run=True)
                self.take_hits(name)
                self.check("build(file,checkout2)", q, obj.hash_info, name)
            if files:
                self.cnt["queries"] += 1
                _s, _m, obj = obuild(stage, ws, self.fs, name)
                self.take_hits(name)
                listed = set()
                for key, _m2, hi in obj:
                    listed.add(os.path.join(ws, *key))
                    self.check("build(dir,checkout2)", os.path.join(ws, *key), hi, name)
                if sorted(listed) != files:
                    self.violate("listing:build(dir,checkout2)", "staged tree does not list exactly "
                                 f"the files of the workspace: {sorted(listed ^ set(files))}")
            kept = built()
            if modified and si and self.cnt["hits_after_mutation"] > hits0:
                self.labels.add("co-switch:state-hit-after-second-checkout")
            prev = target
        self.state.hits = []

    def plant_row(self, p, kind, bump, rname):
        """A row written by another release of the tool sharing the state directory, with a token
        that matches the file as it is: newer format version (placeholder value - must never be
        served), version-less legacy row (honest value; its md5 key means md5-dos2unix), or a row of
        the current version (honest value) - under any algorithm name."""
        from dvc_data.hashfile.state import _checksum

        info = self.fs.info(p)
        entry = {"checksum": _checksum(info), "size": info["size"]}
        if kind == "newer":
            entry["version"] = State.HASH_VERSION + bump
            entry["hash_info"] = {rname: bogus(rname)}
        elif kind == "legacy":
            honest = "md5-dos2unix" if rname == "md5" else rname
            entry["hash_info"] = {rname: ref.ref_hash(ref.read(p), honest)}
        else:
            entry["version"] = State.HASH_VERSION
            entry["hash_info"] = {rname: ref.ref_hash(ref.read(p), rname)}
        self.plant_raw(p, entry)
        self.labels.add(f"plant:{kind}:{rname}" + (f"+{bump}" if kind == "newer" else ""))

    @rule(slot=qslot_s, kind=st.sampled_from(["newer", "newer", "newer", "legacy", "current"]),
          bump=st.sampled_from([1, 1, 2, 7]), rname=row_algo_s,
          probe=st.sampled_from([None, None, "get", "get+info", "many", "many+infos", "hash_file",
                                 "hash_file+info", "get_hashes", "get_hashes+walk", "build_file",
                                 "build_dir", "build_entries", "index"]),
          same=st.booleans(), algo=algo_s)
    @traced
    def plant(self, slot, kind, bump, rname="md5", probe=None, same=False, algo=0):
        """Plant a foreign row for a live path, then (optionally) look the path up at once, asking
        for the row's own algorithm (same) or a drawn one."""
        p = self.qpath(slot)
        if p is None:
            return
        self.plant_row(p, kind, bump, rname)
        if same and rname in ALGOS:
            algo = ALGOS.index(rname)
        self.probe(p, probe, algo)

    @rule(slot=slot_s, content=content_s, algo=algo_s, given=st.booleans(),
          row=st.sampled_from([None, "current", "current", "newer", "legacy"]), rname=row_algo_s)
    @traced
    def q_nonlocal(self, slot, content, algo, given, row=None, rname="md5"):
        """The same path string on a memory filesystem: never served from the local entries (a row
        of any kind / algorithm with a matching local token may be planted first)."""
        from dvc_objects.fs.memory import MemoryFileSystem

        from dvc_data.hashfile.hash import hash_file

        p = self.existing(slot)
        if p is None:
            return
        if row is not None:
            self.plant_row(p, row, 1, rname)
        name = ALGOS[algo]
        data = self.bytes_for(content, p)
        mfs = MemoryFileSystem(global_store=False)
        mfs.fs.pipe_file(p, data)
        raw_before = self.state.hashes.get(p)
        info = self.fs.info(p) if given else None
        self.cnt["queries"] += 1
        got = self.state.get(p, mfs, info=info)
        if got != (None, None):
            self.violate("nonlocal-hit:State.get", f"State.get on a memory filesystem returned {got[1]}")
        many = list(self.state.get_many([p], mfs, {p: info} if info else {}))
        if many != [(p, None, None)]:
            self.violate("nonlocal-hit:State.get_many",
                         f"State.get_many on a memory filesystem returned {many}")
        _meta, hi = hash_file(p, mfs, name, state=self.state)
        want = ref.ref_hash(data, name)
        if hi.name != name or hi.value != want:
            self.violate("nonlocal-stale:hash_file",
                         f"hash_file on a memory filesystem returned {hi}, its bytes hash to {want}")
        if self.state.hashes.get(p) != raw_before:
            self.violate("nonlocal-saved:hash_file",
                         "hashing a memory-filesystem path rewrote the local entry of that path")
        self.state.hits = []
        self.labels.add("q:nonlocal" + (":entry-present" if raw_before else ""))

    @rule()
    @traced
    def reopen(self):
        self.state.close()
        self.state = SpyState(root_dir=self.ws, tmp_dir=self.st_dir)
        self.labels.add("state-reopened")


def run(ctx):
    n = ctx.n(quick=70, thorough=1000)
    if ctx.scratch_kind == "disk":  # sqlite on ext4 syncs: same budget, fewer histories
        n = max(1, n // 3)
    run_trace_machine(ctx, C13Machine, n, 15)


def replay(case, ctx):
    replay_trace_machine(ctx, C13Machine, case)
