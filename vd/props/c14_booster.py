"""C14 coverage-guided booster (thorough tier, optional): atheris/libFuzzer drives the same run_case
oracle over raw bytes. Hypothesis stays the deciding engine; a booster finding is re-executed through
the normal path (ctx.exec_case) so it is reported, saved and replayed like any other case.

Child mode:  python -m vd.props.c14_booster <runs> <seed> <workdir>
"""

import json
import os
import re
import subprocess
import sys
import time

from . import c14

RUNS = 400000
MAX_TIME_S = 90



def _seed(base, kind, mask, reads, short, content):
    """FuzzedDataProvider takes integers from the end of the input and bytes from the front."""
    ctrl = [base, kind, mask, len(reads) - 1]
    for v in reads:
        ctrl += [v >> 8, v & 0xFF]
    ctrl.append(short)
    return content + bytes(reversed(ctrl))


_L = c14.BASES.index(c14.LEGACY)
_B3 = c14.BASES.index("blake3")
SEEDS = [
    _seed(_L, 0, 0, [0], 0, b"q" * 511 + b"\r\nline\r\n"),
    _seed(_L, 1, 0, [600], 0, b"a\r\nb\nc\rd\x00"),
    _seed(_L, 2, 0, [1500], 0, b"q" * 600 + b"\r\n\x00"),
    _seed(0, 0, 3, [5, 7, 1], 1, bytes(range(256))),
    _seed(_B3, 1, 1, [0, 300], 2, b"\xc8" * 153 + b"a" * 359 + b"\r\n"),
    _seed(_L, 0, 4, [512], 0, b"\xc8" * 154 + b"a" * 358 + b"\r\n"),
]


def decode(data):
    """Raw fuzzer bytes -> a C14 case (JSON dict) restricted to the in-memory entry points."""
    import atheris

    from . import c14

    fdp = atheris.FuzzedDataProvider(data)
    base = c14.BASES[fdp.ConsumeIntInRange(0, len(c14.BASES) - 1)]
    legacy = base == c14.LEGACY
    kind = fdp.ConsumeIntInRange(0, 2)
    mask = [0, 1, 2, 5, 21, 127][fdp.ConsumeIntInRange(0, 5)]
    reads = []
    for _ in range(fdp.ConsumeIntInRange(1, 4)):
        v = fdp.ConsumeIntInRange(0, 2048)
        if legacy:
            reads.append(512 + v)
        else:
            reads.append(-1 if v == 0 else v)
    short = [[], [1], [3, 700], [512]][fdp.ConsumeIntInRange(0, 3)]
    content = fdp.ConsumeBytes(fdp.remaining_bytes())
    if kind == 2:
        case = {"entry": "fobj", "chunk": max(reads[0], 1), "short": [] if legacy else short}
        mask = 0 if legacy else mask
    else:
        via = "ctor" if kind == 0 else "factory"
        if legacy and via == "factory":
            mask = 0
        case = {"entry": "stream", "via": via, "reads": reads, "short": [] if legacy else short}
    case["algo"] = c14.spell(base, mask)
    case["content"] = ["h:" + content.hex()]
    return case


def child(runs, seed, workdir):
    import atheris

    with atheris.instrument_imports(include=["dvc_data"]):
        import dvc_data.hashfile.hash
        import dvc_data.hashfile.istextfile  # noqa: F401

    from . import c14

    def one(data):
        case = decode(data)
        res = c14.run_case(case, None)
        if res.violations:
            with open(os.path.join(workdir, "finding.json"), "w", encoding="utf-8") as f:
                json.dump({"case": case, "violations": [v.to_json() for v in res.violations]}, f)
            raise RuntimeError("C14 booster: " + "; ".join(v.sig for v in res.violations))

    corpus = os.path.join(workdir, "corpus")
    os.makedirs(corpus, exist_ok=True)
    for i, s in enumerate(SEEDS):
        with open(os.path.join(corpus, f"seed{i}"), "wb") as f:
            f.write(s)
    argv = [sys.argv[0], f"-runs={runs}", f"-seed={seed}", f"-max_total_time={MAX_TIME_S}", "-max_len=4096",
            f"-artifact_prefix={workdir}/", "-print_final_stats=1", corpus]
    atheris.Setup(argv, one)
    atheris.Fuzz()


def run(ctx):
    """Parent side: run the child, account for it in ctx, re-execute a finding through ctx.exec_case."""
    from . import c14

    workdir = os.path.join(ctx.root, "booster")
    os.makedirs(workdir, exist_ok=True)
    t0 = time.time()
    try:
        p = subprocess.run(  # noqa: S603
            [sys.executable, "-m", "vd.props.c14_booster", str(RUNS), str(ctx.seed), workdir],
            capture_output=True, text=True, timeout=MAX_TIME_S + 120, check=False,
        )
        out = p.stdout + p.stderr
        rc = p.returncode
    except subprocess.TimeoutExpired:
        out, rc = "", -1
    m = re.search(r"stat::number_of_executed_units:\s*(\d+)", out) or re.search(r"Done (\d+) runs", out)
    ctx.counters["booster_runs"] += int(m.group(1)) if m else 0
    ctx.counters["booster_wall_s"] += int(time.time() - t0)
    finding = os.path.join(workdir, "finding.json")
    if os.path.exists(finding):
        with open(finding, encoding="utf-8") as f:
            rec = json.load(f)
        ctx.counters["booster_findings"] += 1
        ctx.exec_case(rec["case"], c14.run_case)  # raises Failure if it reproduces (normal reporting path)
        ctx.notes.append("atheris booster reported a finding that did not reproduce in-process")
    elif rc != 0:
        ctx.notes.append(f"atheris booster exited {rc} without a finding (ignored): {out[-300:]}")
        ctx.counters["booster_errors"] += 1
    else:
        ctx.notes.append(f"atheris booster: {m.group(1) if m else '?'} executions, no finding")


if __name__ == "__main__":
    child(int(sys.argv[1]), int(sys.argv[2]), sys.argv[3])
