"""C16 - concurrent writers cannot corrupt a shared store or state database."""

import os
import stat
import time

from hypothesis import strategies as st

from .. import gen, ref, sched
from ..ctx import HarnessError, Result, Viol, product_frame

LEVEL = "exploration"
WORKERS = {"quick": 8, "thorough": 16}
BUDGET_S = {"quick": 50, "thorough": 700}
RULE = (
    "Hypothesis draws 2-4 writers, each with a tree over one small shared content pool (identical files "
    "and identical whole directories are frequent), each doing build + transfer(shallow=False) into the "
    "same LocalHashFileDB path with a state database in one directory (own State/store objects per "
    "writer, or one shared State object), and a schedule: a list of thread indices consumed at the "
    "harness's yield points (every mutating audit event, a mid-copy event, every os.stat/lstat under the "
    "scratch root); exactly one writer runs at a time, so the run is a function of the schedule. A second "
    "arm forks the writers as separate processes that sleep drawn micro-delays at the same yield points. "
    "About three thread cases in ten additionally yield at every Python call into drawn dvc_data modules (state, cache, "
    "db, build/hash, or all), so interleavings between statements that involve no filesystem operation are "
    "reached; half of those cases are guided: writers 0 and 1 are held at drawn call labels (vocabulary = calls "
    "observed in a warm-up workload, frequent ones likelier) until both stand there and are then released in a "
    "drawn order. In a third of the cases the store starts with unprotected truncated leftovers of an interrupted add under "
    "some of the writers' object names; in a quarter all contents hash into one fan-out directory. "
    "Oracle (schedule-independent): no writer raised / reported failed ids; each writer's directory object "
    "is present with bytes == the reference listing of its manifest and every listed file present with "
    "reference-correct bytes; full store audit clean and every object protected; state rows truthful. "
    "Non-trivial = >=2 writers sharing >=1 content and >=3 actual switches between writers (threads), or "
    ">=2 processes sharing content; distinct = SHA-1 of the case JSON."
)
ASSUMPTIONS = [
    "thread interleavings are explored only at the harness's yield points (filesystem-operation boundaries and, "
    "in the call-granularity arm, Python calls into dvc_data); races between two bytecodes inside one function "
    "or inside sqlite are not forced",
    "the multi-process arm is perturbed, not controlled: its verdict comes from the post-run audit only",
    "diskcache/sqlite are trusted to serialise access to the state database",
]


@st.composite
def cases(draw, big_ok=False):
    n = draw(st.sampled_from([2, 2, 3, 3, 4]))
    content = gen.small_contents()
    fanout = draw(st.integers(0, 3)) == 0
    if fanout:
        # every object lands in ONE fan-out directory of the store (md5 starts with "00"): temporary
        # names, leftovers and final names of different writers' objects are siblings
        from .c12 import zeros

        content = st.sampled_from(["h:" + z.hex() for z in zeros()[:6]])
    base = draw(gen.trees(max_files=4, max_depth=2, content=content))
    trees = []
    for _ in range(n):
        k = draw(st.integers(0, 3))
        if k == 0:
            trees.append(base)  # identical whole directory
        else:
            trees.append(draw(gen.trees(max_files=4, max_depth=2, content=content)))
    if draw(st.integers(0, 5 if big_ok else 11)) == 0:
        # >= 2 files above the 1 MiB threshold per writer: the library's own parallel hashing pool
        bigs = [draw(gen.large_content()), draw(gen.large_content())]
        trees = [dict(t, **{"big0": bigs[0], "big1": bigs[draw(st.integers(0, 1))]}) for t in trees]
    return {
        "arm": draw(st.sampled_from(["threads", "threads", "threads", "threads", "procs"])),
        "trees": trees,
        "shared_state": draw(st.booleans()),
        # what each writer does: stage+transfer a directory; index build->md5->save of its workspace;
        # transfer from its own (pre-populated) cache into the shared store as a remote
        "work": draw(st.sampled_from(["stage", "stage", "isave", "xfer"])),
        "hardlink": draw(st.sampled_from([False, False, True])),
        "store_verify": draw(st.sampled_from([False, False, True])),
        # (thread, run length) pairs flattened: long runs park the other writers across several operations
        "schedule": [t for t, k in draw(st.lists(st.tuples(st.integers(0, 3), st.sampled_from([1, 1, 1, 2, 3, 5, 8, 21, 55])),
                                                 min_size=0, max_size=80)) for _ in range(k)][:600],
        "delays": draw(st.lists(st.integers(0, 6), min_size=4, max_size=24)),
        # leftovers of an earlier interrupted add in the shared store: unprotected files under an object's
        # final name holding a proper prefix of its bytes (indices into the sorted file ids of all writers)
        # thread arm only: additionally yield at every Python call into these dvc_data modules
        # (function-call granularity), in about 3 cases of 10
        "trace": draw(st.sampled_from([None] * 6 + [["state.py", "hash_info.py", "json_compat.py", "meta.py"],
                                                   ["state.py", "hash_info.py", "json_compat.py", "meta.py"],
                                                    ["state.py", "cache.py"], ["db/__init__.py", "db/local.py"],
                                                    ["build.py", "hash.py", "tree.py"], ["transfer.py", "status.py"],
                                                    []])),
        # guided search (call-granularity cases only): writers 0 and 1 are held at drawn call labels until both
        # stand there, then released in a drawn order (indices into the label vocabulary of the traced modules)
        "rv": draw(st.one_of(st.none(), st.fixed_dictionaries({
            "la": st.integers(0, 400), "lb": st.integers(0, 400), "first": st.integers(0, 1),
            "steps": st.sampled_from([1, 1, 2, 3, 5])}), st.fixed_dictionaries({
            "la": st.integers(0, 400), "lb": st.integers(0, 400), "first": st.integers(0, 1),
            "steps": st.sampled_from([1, 1, 2, 3, 5])}))),
        "leftovers": draw(st.lists(st.integers(0, 11), max_size=3)) if draw(st.integers(0, 2)) <= fanout else [],
        # process arm only: one writer is descheduled for a bounded time inside its first state-database
        # transactions, between the last statement and COMMIT (a large batch, a slow fsync, a busy machine): the
        # others must wait for it - the library opens the database with a 60 s busy timeout - not give up
        "stall": draw(st.sampled_from([None, None, [0, 150], [1, 400], [2, 250]])),
    }


def writer_fn(case, d, i, shared_state=None):
    from dvc_objects.fs.local import LocalFileSystem

    from dvc_data.hashfile.build import build
    from dvc_data.hashfile.db.local import LocalHashFileDB
    from dvc_data.hashfile.state import State
    from dvc_data.hashfile.transfer import transfer

    def fn():
        import dvc_data.hashfile.build as _b
        from dvc_data.hashfile.hash_info import HashInfo

        _shape_pool(_b, case)
        from dvc_data.index.build import build as ibuild
        from dvc_data.index.save import md5, save

        fs = LocalFileSystem()
        state = shared_state or State(root_dir=d, tmp_dir=os.path.join(d, "tmp"))
        work = case.get("work", "stage")
        try:
            # a store opened with verify=True (untrusted remotes are configured so): transfer() passes an explicit
            # verify=False per call, save()/add() leave it to the store's setting
            odb = LocalHashFileDB(fs, os.path.join(d, "store"), state=state,
                                  **({"verify": True} if case.get("store_verify") else {}))
            if work == "isave":
                idx = ibuild(os.path.join(d, f"wsroot{i}"), fs)
                idx = md5(idx, state=state)
                save(idx, odb=odb)
                return idx[("data",)].hash_info.value, []
            if work == "xfer":
                cache = LocalHashFileDB(fs, os.path.join(d, f"cache{i}"), state=state)
                with open(os.path.join(d, f"request{i}.txt"), encoding="utf-8") as f:
                    ids = [ln.strip() for ln in f if ln.strip()]
                res = transfer(cache, odb, {HashInfo("md5", x) for x in ids}, shallow=False)
                return ids[0], sorted(h.value for h in res.failed)
            staging, _, obj = build(odb, os.path.join(d, f"ws{i}"), fs, "md5")
            res = transfer(staging, odb, {obj.hash_info}, shallow=False, hardlink=case["hardlink"])
            return obj.hash_info.value, sorted(h.value for h in res.failed)
        finally:
            if shared_state is None:
                state.close()

    return fn


def prepare_writer(case, d, i, tree):
    """Materialise writer i's inputs (harness-side, before any scheduling). Returns {relpath: bytes}."""
    from vd import ops

    work = case.get("work", "stage")
    if work == "isave":
        return gen.materialise(tree, os.path.join(d, f"wsroot{i}", "data"))
    flat = gen.materialise(tree, os.path.join(d, f"ws{i}"))
    if work == "xfer":
        cache = ops.make_odb("local", os.path.join(d, f"cache{i}"))
        _, obj, _ = ops.stage_transfer(cache, os.path.join(d, f"ws{i}"))
        with open(os.path.join(d, f"request{i}.txt"), "w", encoding="utf-8") as f:
            f.write(obj.hash_info.value + "\n")
    return flat


_POOL_PATCHED = [False]
_POOL_DELAYS = [[0]]


def _shape_pool(_b, case):
    """Delay large-file hashing jobs by drawn amounts so that the pool's completion order differs from
    its submission order (schedule shaping only - the oracle does not depend on timing)."""
    _POOL_DELAYS[0] = case.get("delays") or [0]
    if _POOL_PATCHED[0]:
        return
    orig = _b.hash_file
    count = [0]

    def hash_file(path, fs, name, state=None, callback=None, info=None):
        size = (info or {}).get("size") or 0
        if size > 2**20:
            count[0] += 1
            delays = _POOL_DELAYS[0]
            ms = delays[count[0] % len(delays)] if count[0] % 2 else 0
            if ms:
                time.sleep(ms * 0.004)
        return orig(path, fs, name, state=state, callback=callback, info=info)

    _b.hash_file = hash_file
    _POOL_PATCHED[0] = True


_WARM = False
_VOCAB = {}  # file suffix -> {label: count} observed in the warm-up workloads


def _collect_vocab(fn):
    import sys

    def prof(frame, event, _arg):
        if event == "call":
            f = frame.f_code.co_filename
            if "/dvc_data/" in f and not f.endswith("callbacks.py"):
                d = _VOCAB.setdefault(f.split("/dvc_data/", 1)[1], {})
                lab = "call:" + frame.f_code.co_name
                d[lab] = d.get(lab, 0) + 1

    sys.setprofile(prof)
    try:
        return fn()
    finally:
        sys.setprofile(None)


def vocabulary(parts):
    """Labels of the traced modules, each repeated ~sqrt(frequency) times (frequent calls are likelier picks)."""
    out = []
    for f in sorted(_VOCAB):
        if not parts or f.endswith(tuple(parts)):
            for lab, cnt in sorted(_VOCAB[f].items()):
                out += [lab] * max(1, int(cnt ** 0.5))
    return out


def warm_up(ctx):
    """Resolve every lazy import with one unscheduled workload (import locks + parked threads deadlock)."""
    global _WARM  # noqa: PLW0603
    if _WARM:
        return
    with ctx.tmpdir() as d:
        case = {"hardlink": False}
        gen.materialise({"a": "p:A", "sub": {"b": "p:B"}}, os.path.join(d, "ws0"))
        _collect_vocab(writer_fn(case, d, 0))
        case = {"hardlink": True}
        gen.materialise({"a": "p:A", "c": "p:C"}, os.path.join(d, "ws1"))
        writer_fn(case, d, 1)()
        prepare_writer({"work": "isave"}, d, 2, {"a": "p:A", "s": {"b": "p:B"}})
        writer_fn({"work": "isave", "hardlink": False}, d, 2)()
        prepare_writer({"work": "xfer"}, d, 3, {"a": "p:A", "s": {"b": "p:B"}})
        writer_fn({"work": "xfer", "hardlink": False}, d, 3)()
    _WARM = True


def _install_stall(ms, limit=3):
    """This process sleeps `ms` inside its first `limit` diskcache transactions, just before COMMIT."""
    import contextlib

    import diskcache

    orig = diskcache.Cache.transact
    left = [limit]

    @contextlib.contextmanager
    def transact(self, retry=False):
        with orig(self, retry=retry):
            yield
            if left[0] > 0:
                left[0] -= 1
                time.sleep(ms / 1000.0)

    diskcache.Cache.transact = transact


def run_procs(case, d):
    """Fork one process per writer; each sleeps drawn micro-delays at the yield points."""
    import pickle

    n = len(case["trees"])
    pids = []
    for i in range(n):
        r, w = os.pipe()
        pid = os.fork()
        if pid == 0:
            code = 0
            try:
                os.close(r)
                delays = case["delays"]
                k = [i]

                class P:
                    root = os.path.realpath(d)

                    def yield_point(self, what=None):
                        k[0] += 1
                        us = delays[(k[0] * (i + 1)) % len(delays)] * 150
                        if us:
                            time.sleep(us / 1e6)

                sched.install()
                sched.activate(P())
                stall = case.get("stall")
                if stall and stall[0] % n == i:
                    _install_stall(stall[1])
                try:
                    out = ("ok", writer_fn(case, d, i)())
                except BaseException as exc:  # noqa: BLE001
                    import traceback

                    fr = product_frame(exc)
                    out = ("exc", type(exc).__name__, str(exc), fr,
                           "".join(traceback.format_exception(exc))[-1500:])
                sched.activate(None)
                os.write(w, pickle.dumps(out))
            except BaseException:  # noqa: BLE001
                code = 3
            finally:
                os._exit(code)
        os.close(w)
        pids.append((pid, r))
    import select
    import signal

    def cpu_ticks(pid):
        try:
            with open(f"/proc/{pid}/stat") as f:
                parts = f.read().rsplit(")", 1)[1].split()
            return int(parts[11]) + int(parts[12])  # utime + stime
        except (OSError, IndexError, ValueError):
            return None

    results = []
    for pid, r in pids:
        chunks = []
        hung = False
        quiet_since = None  # (time, cpu ticks) of the last observation without progress
        t0 = time.monotonic()
        while True:
            ready, _, _ = select.select([r], [], [], 5.0)
            if ready:
                b = os.read(r, 65536)
                if not b:
                    break
                chunks.append(b)
                continue
            # nothing for 5 s: a writer that is merely slow burns CPU, a deadlocked one does not. Only a child
            # that has consumed NO cpu time at all for 30 s (after a 30 s grace period) is declared hung.
            now, ticks = time.monotonic(), cpu_ticks(pid)
            if now - t0 < 30 or ticks is None:
                continue
            if quiet_since is None or ticks != quiet_since[1]:
                quiet_since = (now, ticks)
            elif now - quiet_since[0] >= 30:
                hung = True
                break
            if now - t0 > 900:
                os.kill(pid, signal.SIGKILL)
                os.close(r)
                os.waitpid(pid, 0)
                raise HarnessError(f"process writer {pid} still busy after 900 s")
        if hung:
            os.kill(pid, signal.SIGKILL)
        os.close(r)
        os.waitpid(pid, 0)
        if hung:
            results.append(("exc", "Hung", "writer process made no progress and used no cpu for 30 s (deadlock)",
                            ("process", "hung"), ""))
            continue
        try:
            results.append(pickle.loads(b"".join(chunks)))  # noqa: S301
        except Exception:  # noqa: BLE001
            results.append(("exc", "ChildDied", "no result from child", None, ""))
    return results


def state_lies(d, paths):
    from dvc_objects.fs.local import LocalFileSystem

    from dvc_data.hashfile.state import State

    fs = LocalFileSystem()
    st_ = State(root_dir=d, tmp_dir=os.path.join(d, "tmp"))
    lies = []
    try:
        for p in paths:
            if not os.path.isfile(p):
                continue
            _, hi = st_.get(p, fs)
            if hi is None or not hi.value or hi.name != "md5":
                continue
            want = ref.ref_hash(ref.read(p))
            if hi.value.split(".")[0] != want:
                lies.append((os.path.relpath(p, d), hi.value, want))
    finally:
        st_.close()
    return lies


def run_case(case, ctx):  # noqa: C901, PLR0912
    from dvc_data.hashfile.state import State

    warm_up(ctx)
    with ctx.tmpdir() as d:
        n = len(case["trees"])
        flats, mans = [], []
        for i, t in enumerate(case["trees"]):
            flat = prepare_writer(case, d, i, t)
            flats.append(flat)
            mans.append(ref.tree_manifest(flat))
        viols = []
        counters = {}
        switches = 0
        rv_hits = None
        by_oid = {}
        for i in range(n):
            for rel, foid in mans[i].items():
                by_oid[foid] = flats[i][rel]
        n_left = 0
        for idx in case.get("leftovers") or []:
            foid = sorted(by_oid)[idx % len(by_oid)]
            data = by_oid[foid]
            if data:
                gen.write_file(os.path.join(d, "store", foid[:2], foid[2:]), data[: len(data) // 2])
                n_left += 1
        if case["arm"] == "threads":
            shared = State(root_dir=d, tmp_dir=os.path.join(d, "tmp")) if case["shared_state"] else None
            try:
                fns = [writer_fn(case, d, i, shared) for i in range(n)]
                rv = None
                if case.get("rv") and case.get("trace") is not None:
                    voc = vocabulary(case["trace"])
                    if voc:
                        rv = {"labels": {0: voc[case["rv"]["la"] % len(voc)], 1: voc[case["rv"]["lb"] % len(voc)]},
                              "first": case["rv"]["first"], "steps": case["rv"]["steps"]}
                s, results = sched.run_scheduled(d, case["schedule"], fns, trace=case.get("trace"), rendezvous=rv)
                rv_hits = s.rendezvous_hits if rv else None
            finally:
                if shared is not None:
                    shared.close()
            if s.deadlocked:
                raise HarnessError(f"scheduler watchdog: no progress (results={results})")
            switches = s.switches
            counters = {"yield_points": s.yields, "switches": s.switches, "token_takeovers": s.steals}
            outs = []
            for i, r in enumerate(results):
                if r[0] == "ok":
                    outs.append(r[1])
                else:
                    exc = r[1]
                    fr = product_frame(exc) if isinstance(exc, BaseException) else None
                    if fr is None and not isinstance(exc, OSError):
                        raise HarnessError(f"writer {i} raised outside the code under test: {exc!r}")
                    where = f"{fr[0]}:{fr[1]}" if fr else "os"
                    viols.append(Viol(f"writer-raised:{type(exc).__name__}:{where}",
                                      f"writer {i} raised {type(exc).__name__}: {exc}"))
                    outs.append(None)
        else:
            results = run_procs(case, d)
            outs = []
            for i, r in enumerate(results):
                if r[0] == "ok":
                    outs.append(r[1])
                else:
                    _, tname, msg, fr, tb = r
                    if fr is None and tname not in ("OSError", "FileNotFoundError", "FileExistsError",
                                                    "PermissionError", "Timeout"):
                        raise HarnessError(f"process writer {i}: {tname}: {msg}\n{tb}")
                    where = f"{fr[0]}:{fr[1]}" if fr else "os"
                    viols.append(Viol(f"writer-raised:{tname}:{where}", f"process writer {i} raised {tname}: {msg}"))
                    outs.append(None)
            counters = {"process_runs": 1}

        store = os.path.join(d, "store")
        problems, contents = ref.audit_local_store(store, require_protected=True)
        for kind, oid, why in problems[:2]:
            viols.append(Viol(f"audit:{kind}", why))
        for i, out in enumerate(outs):
            if out is None:
                continue
            oid, failed = out
            if failed:
                viols.append(Viol("writer-failed-ids", f"writer {i} reported failed ids {failed}"))
            want_oid = ref.ref_tree_oid(mans[i])
            if oid != want_oid:
                viols.append(Viol("writer-wrong-oid", f"writer {i} staged {oid}, reference {want_oid}"))
            if contents.get(want_oid) != ref.ref_tree_bytes(mans[i]):
                viols.append(Viol("dir-object-missing-or-wrong",
                                  f"writer {i}: directory object {want_oid} absent or not the reference listing"))
            for rel, foid in mans[i].items():
                if contents.get(foid) != flats[i][rel]:
                    viols.append(Viol("file-object-missing-or-wrong",
                                      f"writer {i}: object {foid} for {rel!r} absent or holds wrong bytes"))
                    break
        paths = [os.path.join(r, f) for r, _d, fs_ in os.walk(store) for f in fs_]
        for i in range(n):
            paths += [os.path.join(r, f) for r, _d, fs_ in os.walk(os.path.join(d, f"ws{i}")) for f in fs_]
        for rel, got, want in state_lies(d, paths)[:1]:
            viols.append(Viol("state-vouches-wrong-hash", f"state says {rel} has {got}, bytes hash to {want}"))

        allc = [set(m.values()) for m in mans]
        share = any(allc[i] & allc[j] for i in range(n) for j in range(i + 1, n))
        same_dir = any(mans[i] == mans[j] for i in range(n) for j in range(i + 1, n))
        if case["arm"] == "threads":
            nontrivial = share and switches >= 3
        else:
            nontrivial = share
        cl = [f"arm={case['arm']}", f"writers={n}", f"work={case.get('work', 'stage')}"]
        if share:
            cl.append("shared-content")
        if same_dir:
            cl.append("identical-directories")
        if case["shared_state"] and case["arm"] == "threads":
            cl.append("shared-State-object")
        if case["hardlink"]:
            cl.append("hardlink")
        if switches >= 10:
            cl.append("switches>=10")
        if switches >= 50:
            cl.append("switches>=50")
        if case["arm"] == "threads" and case.get("rv") and case.get("trace") is not None:
            cl.append("rendezvous-armed")
            if rv_hits:
                cl.append("rendezvous-reached")
        if case.get("trace") is not None and case["arm"] == "threads":
            cl.append("yield-at-calls:" + (",".join(case["trace"]) or "all-dvc_data"))
        if n_left:
            cl.append("store-has-interrupted-add-leftover")
        if len({k[:2] for k in by_oid}) == 1 and len(by_oid) >= 2:
            cl.append("all-objects-in-one-fan-out-dir")
        if any("big0" in t for t in case["trees"]):
            cl.append("hash-pool(>1MiB files)")
        if case.get("stall") and case["arm"] == "procs":
            cl.append("one-writer-stalls-inside-state-transactions")
        return Result(viols, nontrivial, cl, counters)


def run(ctx):
    ctx.run_given(cases(big_ok=ctx.tier == "thorough"), run_case, ctx.n(quick=120, thorough=900))


def replay(case, ctx):
    ctx.exec_case(case, run_case)
