"""C09 - index checkout (compare + apply) converges to the target from any workspace state."""

import os
import stat
import warnings

from hypothesis import strategies as st

from .. import gen, ops, ref
from ..ctx import HarnessError, Result, Viol, product_frame

LEVEL = "exploration"
WORKERS = {"quick": 8, "thorough": 16}
BUDGET_S = {"quick": 50, "thorough": 650}
RULE = (
    "Hypothesis draws a target T (nested tree over a small content pool, also deep chains of directories "
    "that hold only directories; isexec flags, explicit empty directories), a target form (explicit: a "
    "directory entry for every parent; implicit: file entries only, no entry for any parent, or mixed with "
    "a drawn subset of the parents explicit; lazy: .dir objects loaded lazily at drawn directory nodes incl. "
    "the root, the parents around them explicit or implicit), a prior workspace = T after drawn edits "
    "(modify, delete, add nested file / empty nested directories, file->directory and directory->file "
    "replacement at any depth - also a target file, optionally one of the deepest, whose place holds a directory "
    "with a nested tree of workspace-only files and an empty nested directory -, remove subtree, chmod, wipe; dangling symlinks and symlinks to files outside "
    "the workspace at new paths or in place of any target file or directory), materialised as plain files or "
    "through a first index checkout with the same link type; every form with every link list (copy, "
    "hardlink, symlink, reflink+copy, hardlink+copy, symlink+copy; passed to apply or configured on the "
    "cache), delete on/off, old=None for an empty workspace; cache class, relink, update_meta, state on/off, "
    "source role (cache ObjectStorage, or a FileStorage at role data/remote holding the target tree as plain "
    "files, apply(storage=role), explicit/implicit forms), links passed or not passed at all (links=None), "
    "0-2 further cache storages registered at drawn target keys (each object lives only in the store its key "
    "resolves to), cache objects removed (source unavailable; not combined with further storages; optionally "
    "a non-raising index.onerror collector; afterwards the objects are restored and compare/apply is retried "
    "with the SAME target index object, which must converge completely). old = DataIndex of "
    "build_entries(compute_hash=True) over the workspace, optionally with .dir hashes on the directory "
    "entries that the target gives as .dir objects, or (first compare only) index.build.build() without "
    "hashes. Oracle: os.walk of the workspace vs the flat model of T (files, bytes read through links, "
    "directories, x bits), a second compare(fresh old, freshly constructed target) with empty "
    "files_create/files_delete/dirs_create/dirs_delete (implicit directories included), survival of prior "
    "files and directories outside T when delete is off - including every file (same bytes), directory and "
    "symlink that a prior directory holds whose path is a FILE in the target (the target has nothing below a "
    "file, so all of it is outside the target; signature suffix :below-target-file; judged also when that "
    "file's source is unavailable and after the retry) -, every unavailable source reported to the error "
    "callback, and (delete off) every target entry below a prior file that occupies the place of a directory "
    "the index has no entry for reported to the error callback. Non-trivial = prior non-empty and != T, "
    "holding a path T lacks (something to delete) and (a file<->directory kind change or a directory to "
    "remove that contains a directory); distinct = SHA-1 of the case JSON."
)
ASSUMPTIONS = [
    "the old index is the workspace built with hashes (build_entries(compute_hash=True)); in the old_hashes=False "
    "arm the first compare gets the hash-less index.build.build() index (every file compares as modified and is "
    "re-created), the second compare always uses hashes",
    "the second compare uses a freshly constructed target (apply(update_meta=True) mutates the one it got)",
    "a directory the index has no entry for is required to exist only through the files/directories below it",
    "unavailable sources are exercised with link lists that do not start with symlink (a symlink to a missing "
    "object is created dangling without an error)",
    "outside the statement (inputs are still generated): after the callback was called for an unavailable "
    "source, apply() may let the FileNotFoundError of re-statting that destination escape from "
    "_create_files/_chmod_files (update_meta, state, chmod of an isexec entry); only the reports made up to "
    "then are judged for that case",
    "outside the statement (inputs are still generated): delete off and a prior non-directory (file, dangling "
    "link) sits where the target needs a directory that has no entry of its own - nothing tells apply to remove "
    "it, the sources are available, so none of the three clauses applies to what lies below it. Both outcomes "
    "are accepted: every entry below it placed or reported to the callback, or NotADirectoryError / "
    "FileExistsError / FileNotFoundError escaping from apply() out of _create_dirs/_create_files/_chmod_files (a "
    "loud failure); after such an escape only clause (2) is judged (nothing outside the target removed or "
    "altered); a normal return that leaves such an entry neither placed nor reported is a violation. With "
    "delete on, and for every other exception, the exc: rule applies",
    "nothing is asserted inside the subtree of an entry whose source is unavailable (except, delete off, the "
    "survival of what a prior directory at the path of such a FILE entry holds, see below), nor (delete off) "
    "below a prior file that occupies the place of a directory the index has no entry for - there only the "
    "error reports are asserted",
    "delete off and a target file whose path is occupied by a non-empty prior directory: the statement promises "
    "only that nothing outside the target is removed, so the one thing asserted at and below that path is that "
    "everything the directory held (files with their bytes, nested and empty directories, symlinks) is still "
    "there. What becomes of the path itself is accepted as HEAD does it (rmdir fails on the non-empty "
    "directory, it stays a directory, the file that cannot be placed goes to the error callback; temporary "
    "copies left inside are not judged); it is left out of the workspace comparison and the second compare",
    "odd prior entries are dangling symlinks (documented in safe_walk/build_entries) and symlinks to outside "
    "files, placed anywhere; symlinks to directories are not generated: the quantifier is over trees of files "
    "and directories",
    "files inside lazily loaded .dir objects carry no isexec flag and such objects hold no empty directories",
]

LINKS = [["copy"], ["hardlink"], ["symlink"], ["reflink", "copy"], ["hardlink", "copy"], ["symlink", "copy"]]
SEG = ["a", "b", "c", "sub", "x.y", "sp ace", "Ünï", "a.dir", "{b}", "d"]


# ------------------------------------------------------------------------------------------
# flat model of a workspace / target
# ------------------------------------------------------------------------------------------
class Model:
    """files: {key tuple: bytes}; execs: set of keys; dirs: set of keys (closed under parent, no root)."""

    def __init__(self):
        self.files = {}
        self.execs = set()
        self.dirs = set()
        # odd prior-workspace entries: key -> None (dangling symlink) | bytes (symlink to a file that
        # lives outside the workspace and holds these bytes). Never part of a target.
        self.links = {}

    def copy(self):
        m = Model()
        m.files = dict(self.files)
        m.execs = set(self.execs)
        m.dirs = set(self.dirs)
        m.links = dict(self.links)
        return m

    def remove_subtree(self, key):
        n = len(key)
        for k in [k for k in self.links if k[:n] == key]:
            del self.links[k]
        for k in [k for k in self.files if k[:n] == key]:
            del self.files[k]
            self.execs.discard(k)
        for k in [k for k in self.dirs if k[:n] == key]:
            self.dirs.discard(k)

    def _mkparents(self, key, upto):
        for i in range(1, upto):
            p = key[:i]
            self.links.pop(p, None)
            if p in self.files:
                del self.files[p]
                self.execs.discard(p)
            self.dirs.add(p)

    def put_file(self, key, data, isexec=False):
        if not key:
            return
        self._mkparents(key, len(key))
        if key in self.dirs:
            self.remove_subtree(key)
        self.links.pop(key, None)
        self.files[key] = data
        self.execs.discard(key)
        if isexec:
            self.execs.add(key)

    def put_dir(self, key):
        if not key:
            return
        self._mkparents(key, len(key) + 1)

    def put_link(self, key, data):
        if not key:
            return
        self._mkparents(key, len(key))
        self.remove_subtree(key)
        self.links[key] = data

    def sorted_files(self):
        return sorted(self.files)

    def sorted_dirs(self):
        return sorted(self.dirs)

    def same(self, other):
        return (self.files == other.files and self.dirs == other.dirs and self.execs == other.execs
                and self.links == other.links)


def _flat(tree, prefix=()):
    for name in tree:
        v = tree[name]
        if isinstance(v, dict):
            yield from _flat(v, (*prefix, name))
        else:
            yield (*prefix, name), gen.content_bytes(v)


def target_model(case):
    """-> (Model of the effective target, sorted list of lazy directory keys)."""
    m = Model()
    for key, data in _flat(case["tree"]):
        m.put_file(key, data)
    files = m.sorted_files()
    for i in case["exec"]:
        if files:
            m.execs.add(files[i % len(files)])
    for path in case["empty_dirs"]:
        key = tuple(path)
        if any(key[:i] in m.files for i in range(1, len(key) + 1)):
            continue
        m.put_dir(key)
    lazy = []
    if case["form"] == "lazy":
        cands = [d for d in m.sorted_dirs() if any(k[:len(d)] == d for k in m.files)]
        picked = set()
        for i in case["lazy"] if m.files else []:
            picked.add(() if (i >= 10 or not cands) else cands[i % len(cands)])
        picked = sorted(picked)
        for d in picked:  # keep only the top-most nodes
            if not any(d[:len(o)] == o and o != d for o in picked):
                lazy.append(d)
        for d in lazy:  # a .dir object holds neither x bits nor empty directories
            n = len(d)
            for k in [k for k in m.execs if k[:n] == d]:
                m.execs.discard(k)
            for e in [e for e in m.dirs if e[:n] == d and not any(k[:len(e)] == e for k in m.files)]:
                m.dirs.discard(e)
    return m, lazy


def apply_edits(model, edits):
    m = model.copy()
    for ed in edits:
        op = ed[0]
        files, dirs = m.sorted_files(), [()] + m.sorted_dirs()
        if op == "mod" and files:
            k = files[ed[1] % len(files)]
            m.files[k] = gen.content_bytes(ed[2])
        elif op == "del" and files:
            m.remove_subtree(files[ed[1] % len(files)])
        elif op == "add":
            base = dirs[ed[1] % len(dirs)]
            m.put_file((*base, *ed[2]), gen.content_bytes(ed[3]), bool(ed[4]))
        elif op == "mkdir":
            base = dirs[ed[1] % len(dirs)]
            m.put_dir((*base, *ed[2]))
        elif op == "f2d" and files:
            k = files[ed[1] % len(files)]
            m.remove_subtree(k)
            m.put_dir(k)
            for sub, content in ed[2]:
                m.put_file((*k, *sub), gen.content_bytes(content))
        elif op == "f2d_tree" and files:
            # a target file (the deepest ones when ed[4]) is a directory that holds a nested tree of files the
            # target does not have and, optionally, an empty nested directory
            cands = sorted(files, key=lambda k: (-len(k), k))[:2] if ed[4] else files
            k = cands[ed[1] % len(cands)]
            m.remove_subtree(k)
            m.put_dir(k)
            for sub, data in _flat(ed[2]):
                m.put_file((*k, *sub), data)
            if ed[3]:
                m.put_dir((*k, *ed[3]))
        elif op == "d2f" and len(dirs) > 1:
            k = dirs[1 + ed[1] % (len(dirs) - 1)]
            m.put_file(k, gen.content_bytes(ed[2]))
        elif op == "d2f_deep" and len(dirs) > 1:
            # prefers directories that hold only directories, then the deepest ones
            only_sub = lambda k: (not any(f[:-1] == k for f in m.files)  # noqa: E731
                                  and any(e[:-1] == k for e in m.dirs))
            deep = sorted(dirs[1:], key=lambda k: (not only_sub(k), -len(k), k))
            m.put_file(deep[ed[1] % min(len(deep), 2)], gen.content_bytes(ed[2]))
        elif op == "rmtree" and len(dirs) > 1:
            m.remove_subtree(dirs[1 + ed[1] % (len(dirs) - 1)])
        elif op == "chmod" and files:
            k = files[ed[1] % len(files)]
            (m.execs.add if ed[2] else m.execs.discard)(k)
        elif op == "dangle":
            base = dirs[ed[1] % len(dirs)]
            m.put_link((*base, *ed[2]), None)
        elif op == "dangle_at" and (files or len(dirs) > 1):
            at = files + dirs[1:]  # replace a prior file or directory by a dangling symlink
            m.put_link(at[ed[1] % len(at)], None)
        elif op == "dangle_dir" and len(dirs) > 1:
            m.put_link(dirs[1 + ed[1] % (len(dirs) - 1)], None)  # a directory becomes a dangling symlink
        elif op == "outlink":
            base = dirs[ed[1] % len(dirs)]
            m.put_link((*base, *ed[2]), gen.content_bytes(ed[3]))
        elif op == "outlink_at" and files:
            k = files[ed[1] % len(files)]
            # same bytes as the file it replaces (ed[2] is None) or other bytes
            m.put_link(k, m.files[k] if ed[2] is None else gen.content_bytes(ed[2]))
        elif op == "wipe":
            m = Model()
    return m


# ------------------------------------------------------------------------------------------
# strategies
# ------------------------------------------------------------------------------------------
# strategies are built once: re-creating them per draw dominated the run time
CONTENT = st.one_of(gen.small_contents(), gen.small_contents(), gen.contents(max_size=24))
NAME = st.one_of(st.sampled_from(SEG), st.sampled_from(SEG[:4]), gen.names())
SEGS13 = st.lists(NAME, min_size=1, max_size=3)
SEGS23 = st.lists(NAME, min_size=2, max_size=3)
IDX = st.integers(0, 40)
_WIDTH = [st.sampled_from(w) for w in ([1, 2, 2, 3, 3, 4], [1, 1, 2, 2, 3], [1, 1, 2], [1])]
NEST = st.sampled_from([True, False, False])


NEST_DEEP = st.sampled_from([True, True, False])


@st.composite
def _tree(draw, depth=0, nest=NEST):
    """Nested name -> content | subtree, nesting more often than gen.trees (depth <= 4)."""
    out = {}
    for _ in range(draw(_WIDTH[depth])):
        name = draw(NAME)
        if name in out:
            continue
        if depth < 3 and draw(nest):
            out[name] = draw(_tree(depth + 1, nest))
        else:
            out[name] = draw(CONTENT)
    return out


TREE = _tree()
TREE_DEEP = _tree(0, NEST_DEEP)  # chains of directories that hold only directories
with warnings.catch_warnings():  # gen.trees tests its `content` argument for truth
    warnings.simplefilter("ignore")
    SMALL_TREE = gen.trees(max_files=3, max_depth=2, content=gen.small_contents())
EDIT = st.one_of(
    st.tuples(st.just("mod"), IDX, CONTENT),
    st.tuples(st.just("del"), IDX),
    st.tuples(st.just("add"), IDX, SEGS13, CONTENT, st.booleans()),
    st.tuples(st.just("add"), IDX, SEGS23, CONTENT, st.just(False)),
    st.tuples(st.just("mkdir"), IDX, SEGS13),
    st.tuples(st.just("f2d"), IDX, st.lists(st.tuples(SEGS13, CONTENT), min_size=0, max_size=2)),
    st.tuples(st.just("f2d_tree"), IDX, SMALL_TREE, st.one_of(st.just([]), SEGS13), st.booleans()),
    st.tuples(st.just("d2f"), IDX, CONTENT),
    st.tuples(st.just("d2f_deep"), IDX, CONTENT),
    st.tuples(st.just("rmtree"), IDX),
    st.tuples(st.just("chmod"), IDX, st.booleans()),
    st.tuples(st.just("dangle"), IDX, SEGS13),
    st.tuples(st.just("dangle_at"), IDX),
    st.tuples(st.just("dangle_dir"), IDX),
    st.tuples(st.just("outlink"), IDX, SEGS13, CONTENT),
    st.tuples(st.just("outlink_at"), IDX, st.one_of(st.none(), CONTENT)),
)
SEL16 = st.sampled_from(range(16))
FORM = st.sampled_from(["explicit"] * 4 + ["implicit"] * 4 + ["lazy"] * 4)
MIXED = st.sampled_from([0, 0, 1, 2]).flatmap(lambda n: st.lists(st.integers(0, 12), min_size=n, max_size=n))
NEDITS = st.sampled_from([0, 1, 1, 2, 2, 2, 3, 3, 3, 4, 4, 5, 6])
ONE_IN_25 = st.sampled_from([False] * 24 + [True])
ONE_IN_4 = st.sampled_from([False] * 3 + [True])
ONE_IN_6 = st.sampled_from([False] * 5 + [True])
MISSING = st.lists(st.integers(0, 30), min_size=1, max_size=3)
EXEC = st.lists(st.integers(0, 20), max_size=2)
# names where one sibling directory is a string prefix of the other (joined-path prefix tests go wrong there)
PREFIX_SIBLINGS = st.sampled_from([
    [["a"], ["a.dir"]], [["sub"], ["sub2"]], [["b"], ["b-v2"]], [["x.y", "d"], ["x.y", "d old"]],
    [["a", "c"], ["a", "c.1"]],
])
EMPTY_DIRS = st.one_of(st.lists(SEGS13, max_size=2), st.lists(SEGS13, max_size=2),
                       st.lists(SEGS13, max_size=2), PREFIX_SIBLINGS)
SOURCE = st.sampled_from(["cache"] * 3 + ["remote", "data"])
LAZY = st.lists(st.sampled_from(list(range(10)) * 3 + [10, 11]), min_size=1, max_size=3)
PRIOR_MODE = st.sampled_from(["plain", "plain", "checkout"])
ONE_IN_3 = st.sampled_from([False, False, True])
TWO_IN_3 = st.sampled_from([True, True, False])
STORE = st.sampled_from(ops.STORE_KINDS)
DELETE = st.sampled_from([True, True, True, False])
DELETE_LAZY = st.sampled_from([True, True, False, False])
OLD_HASHES = st.sampled_from([True, True, False])
STORES = st.sampled_from([0, 0, 0, 1, 1, 2]).flatmap(
    lambda n: st.lists(st.integers(0, 30), min_size=n, max_size=n))
LINKS_ANY = st.sampled_from(LINKS)


def _jsonable(x):
    if isinstance(x, (tuple, list)):
        return [_jsonable(v) for v in x]
    return x


@st.composite
def cases(draw):
    # selectors are drawn with sampled_from: one_of over repeated branches does not weight them
    sel = draw(SEL16)
    if sel == 0:
        tree = {}
    elif sel < 4:
        tree = draw(SMALL_TREE)
    elif sel < 9:
        tree = draw(TREE_DEEP)
    else:
        tree = draw(TREE)
    form = draw(FORM)
    links = draw(LINKS_ANY)
    edits = [draw(EDIT) for _ in range(draw(NEDITS))]
    if draw(ONE_IN_25):
        edits = [("wipe",)]
    # a FileStorage addresses files by key; .dir objects live in object stores
    source = "cache" if form == "lazy" else draw(SOURCE)
    missing = []
    update_meta = draw(st.booleans())
    if source == "cache" and links[0] != "symlink" and draw(ONE_IN_4):
        missing = draw(MISSING)
        update_meta = draw(ONE_IN_6)
    return {
        "tree": tree,
        "exec": draw(EXEC),
        "empty_dirs": draw(EMPTY_DIRS),
        "form": form,
        "lazy": draw(LAZY) if form == "lazy" else [],
        "edits": _jsonable(edits),
        "prior_mode": draw(PRIOR_MODE),
        "links": links,
        "via_odb": draw(ONE_IN_3) if source == "cache" else False,
        "store": draw(STORE),
        "delete": draw(DELETE_LAZY if form == "lazy" else DELETE),
        "mixed": draw(MIXED) if form in ("implicit", "lazy") else [],
        "lazy_implicit": draw(st.booleans()) if form == "lazy" else False,
        "relink": draw(ONE_IN_4),
        "update_meta": update_meta,
        "state": draw(st.booleans()),
        "missing": missing,
        "old_none": draw(st.booleans()),
        "old_hashes": draw(OLD_HASHES),
        "stores": [] if (missing or source != "cache") else draw(STORES),
        "source": source,
        "links_none": draw(ONE_IN_3),
        "collect": draw(st.booleans()),
        "old_dirhash": draw(TWO_IN_3) if form == "lazy" else False,
    }


# ------------------------------------------------------------------------------------------
# materialisation, target construction, observation
# ------------------------------------------------------------------------------------------
def _join(root, key):
    return os.path.join(root, *key) if key else root


def _rel(key):
    return "/".join(key) if key else "."


def put_object(odb, store, oid, data):
    p = odb.oid_to_path(oid)
    os.makedirs(os.path.dirname(p), exist_ok=True)
    if os.path.lexists(p):
        return
    with open(p, "wb") as f:
        f.write(data)
    if store == "local":
        os.chmod(p, 0o444)


def drop_object(odb, oid):
    p = odb.oid_to_path(oid)
    if os.path.lexists(p):
        os.unlink(p)  # no chmod: a hard-linked workspace file shares the inode


def lazy_listing(model, node):
    n = len(node)
    return {"/".join(k[n:]): ref.ref_hash(b) for k, b in model.files.items() if k[:n] == node}


def dir_entry_keys(case, model, lazy):
    """The directories of the target that get an entry of their own. explicit: every directory;
    implicit: only those that hold nothing (they would not exist otherwise) plus the drawn `mixed`
    subset of the parents; lazy: explicit, or implicit around the lazy nodes when `lazy_implicit`."""
    form = case["form"]
    dirs = model.sorted_dirs()
    if form == "explicit" or (form == "lazy" and not case.get("lazy_implicit")):
        return set(dirs)
    holds = lambda d: (any(k[:len(d)] == d for k in model.files)  # noqa: E731
                       or any(e[:len(d)] == d and e != d for e in model.dirs))
    parents = [d for d in dirs if holds(d)]
    keys = {d for d in dirs if not holds(d)}
    for i in case.get("mixed", []):
        if parents:
            keys.add(parents[i % len(parents)])
    return keys


def make_target(model, dir_entries, lazy, odb, extra=(), file_source=None):
    """A freshly constructed target index for the model. `dir_entries`: directory keys that get an explicit
    Meta(isdir=True) entry (all others are implicit: the index has entries below them only); `lazy`:
    directory keys given as unloaded .dir objects; `extra` = [(key, odb)]: further cache storages registered
    at a file's own key or at a directory key (the storage map resolves by longest prefix)."""
    from dvc_data.hashfile.hash_info import HashInfo
    from dvc_data.hashfile.meta import Meta
    from dvc_data.index import DataIndex, DataIndexEntry, ObjectStorage

    idx = DataIndex()
    covered = lambda k: any(k[:len(d)] == d and (k != d) for d in lazy)  # noqa: E731
    for d in lazy:
        oid = ref.ref_tree_oid(lazy_listing(model, d))
        idx.add(DataIndexEntry(key=d, meta=Meta(isdir=True), hash_info=HashInfo("md5", oid)))
    for d in model.sorted_dirs():
        if d in lazy or covered(d) or d not in dir_entries:
            continue
        idx.add(DataIndexEntry(key=d, meta=Meta(isdir=True), loaded=True))
    for k in model.sorted_files():
        if covered(k):
            continue
        data = model.files[k]
        idx.add(DataIndexEntry(key=k, meta=Meta(size=len(data), isexec=k in model.execs),
                               hash_info=HashInfo("md5", ref.ref_hash(data))))
    if file_source is not None:
        # the target's data as plain files addressed by key (worktree-style remote / data storage)
        from dvc_objects.fs.local import LocalFileSystem

        from dvc_data.index import FileStorage

        role, path = file_source
        getattr(idx.storage_map, f"add_{role}")(FileStorage((), LocalFileSystem(), path))
        return idx
    idx.storage_map.add_cache(ObjectStorage((), odb))
    for key, xodb in extra:
        idx.storage_map.add_cache(ObjectStorage(key, xodb))
    return idx


def build_old(root, state=None, root_entry=False, hashes=True, dirhash_keys=()):
    """The caller's view of the workspace: build_entries with hashes, or (hashes=False, first compare
    only) the public index.build.build(), which records no hashes - every file then compares as
    modified and is re-created, which must converge all the same. When the target has an entry for the
    checkout root itself (a .dir object at key ()), the caller's index has one too (DVC builds the
    entry of an output with build_entry and the entries below it with build_entries)."""
    from dvc_objects.fs.local import LocalFileSystem

    from dvc_data.index import DataIndex
    from dvc_data.index.build import build, build_entries, build_entry

    fs = LocalFileSystem()
    if not hashes:
        idx = build(root, fs)
        if root_entry:
            entry = build_entry(root, fs)
            entry.key = ()
            idx.add(entry)
        return idx
    idx = DataIndex()
    if root_entry:
        entry = build_entry(root, fs, compute_hash=True, state=state)
        entry.key = ()
        idx.add(entry)
    for entry in build_entries(root, fs, compute_hash=True, state=state):
        idx.add(entry)
    # directory entries that carry the .dir hash of what is below them, as a caller that tracks the
    # directory as one object has them (DVC: build_entry/build_entries, then build_tree per output)
    from dvc_data.index.save import build_tree

    for key in dirhash_keys:
        entry = idx.get(key) if (key or root_entry) else None
        if entry is None or not entry.meta or not entry.meta.isdir:
            continue
        meta, tree = build_tree(idx, key)
        if not meta.nfiles:
            continue
        entry.meta, entry.hash_info, entry.loaded = meta, tree.hash_info, True
        idx.add(entry)
    return idx


def materialise(model, root):
    for d in model.sorted_dirs():
        os.makedirs(_join(root, d), exist_ok=True)
    for k in model.sorted_files():
        p = _join(root, k)
        with open(p, "wb") as f:
            f.write(model.files[k])
        os.chmod(p, 0o755 if k in model.execs else 0o644)


def materialise_links(model, root, outside):
    """Odd entries of the prior workspace: dangling symlinks and symlinks to files outside of it."""
    os.makedirs(outside, exist_ok=True)
    for n, k in enumerate(sorted(model.links)):
        data = model.links[k]
        os.makedirs(os.path.dirname(_join(root, k)), exist_ok=True)
        if data is None:
            os.symlink(os.path.join(outside, f"nowhere{n}"), _join(root, k))
        else:
            with open(os.path.join(outside, f"f{n}"), "wb") as f:
                f.write(data)
            os.symlink(os.path.join(outside, f"f{n}"), _join(root, k))


def walk(root):
    """-> (files {key: bytes | None for unreadable}, dirs set, x-bit set), read through links."""
    files, dirs, xbits = {}, set(), set()
    for r, ds, fs_ in os.walk(root):
        base = () if r == root else tuple(os.path.relpath(r, root).split(os.sep))
        for d in list(ds):
            p = os.path.join(r, d)
            if os.path.islink(p):  # a symlink to a directory: report as a (strange) file
                files[(*base, d)] = None
                ds.remove(d)
            else:
                dirs.add((*base, d))
        for f in fs_:
            p = os.path.join(r, f)
            try:
                with open(p, "rb") as fh:
                    files[(*base, f)] = fh.read()
                if os.stat(p).st_mode & stat.S_IXUSR:
                    xbits.add((*base, f))
            except OSError:
                files[(*base, f)] = None
    return files, dirs, xbits


def under(key, roots):
    return any(key[:len(r)] == r for r in roots)


# ------------------------------------------------------------------------------------------
# oracle
# ------------------------------------------------------------------------------------------
def check_workspace(tag, root, want, affected=(), blocked=(), exact=True, optional_dirs=()):
    """Walk `root` and compare with the model `want`, ignoring everything at/below `affected` keys and
    (delete off) at/below `blocked` keys. exact=False: extra files/directories are not judged."""
    viols = []
    files, dirs, xbits = walk(root)
    skip = list(affected) + list(blocked)
    for k in want.sorted_files():
        if under(k, skip):
            continue
        if k not in files:
            what = "dir-in-the-way" if k in dirs else "absent"
            viols.append(Viol(f"{tag}missing-file:{what}",
                              f"target file {_rel(k)} was not created ({what})"))
        elif files[k] != want.files[k]:
            got = "unreadable" if files[k] is None else f"{files[k][:20]!r}"
            viols.append(Viol(f"{tag}wrong-bytes", f"{_rel(k)} holds {got}, target has "
                                                   f"{want.files[k][:20]!r}"))
        elif k in want.execs and k not in xbits:
            viols.append(Viol(f"{tag}not-executable", f"isexec entry {_rel(k)} has no x bit"))
    for d in want.sorted_dirs():
        if under(d, skip) or d in optional_dirs:
            # optional: a directory the index has no entry for exists because of what is below it
            continue
        if d not in dirs:
            viols.append(Viol(f"{tag}missing-dir", f"target directory {_rel(d)} does not exist"))
    if exact:
        for k in sorted(files):
            if k in want.files or under(k, skip):
                continue
            kind = "tmp-leak" if ref.TMP_RE.match(k[-1]) else "not-in-target"
            viols.append(Viol(f"{tag}extra-file:{kind}", f"{_rel(k)} is left in the workspace "
                                                         f"but is not in the target"))
        for d in sorted(dirs):
            if d in want.dirs or under(d, skip):
                continue
            nested = "nested" if any(e[:len(d)] == d and e != d for e in dirs) else "leaf"
            viols.append(Viol(f"{tag}extra-dir:{nested}", f"directory {_rel(d)} is left in the "
                                                          f"workspace but is not in the target"))
    return viols


def run_case(case, ctx):  # noqa: C901, PLR0912, PLR0915
    from dvc_objects.fs.local import LocalFileSystem

    from dvc_data.index.checkout import apply, compare

    T, lazy = target_model(case)
    prior = apply_edits(T, case["edits"])
    # Odd prior entries: dangling symlinks (safe_walk/build_entries document them) and symlinks to
    # outside files, at new paths or in place of any target file or directory - including a directory
    # entry without a hash (explicit, or created while a .dir object is loaded), which did not converge
    # before /repo e8fce0e. Symlinks to directories are outside the property's quantifier.
    form, links, delete = case["form"], list(case["links"]), case["delete"]
    dir_entries = dir_entry_keys(case, T, lazy)
    # directories of the target the index has no entry for (entries exist below them only)
    implicit_dirs = {e for e in T.dirs if e not in dir_entries and e not in lazy
                     and not any(e[:len(n)] == n for n in lazy)}
    old_hashes = case.get("old_hashes", True)  # absent in cases saved before the dimension existed

    viols, classes = [], []
    with ctx.tmpdir() as d:
        fs = LocalFileSystem()
        ws = os.path.join(d, "ws")
        os.mkdir(ws)
        config = {"type": list(links)} if case["via_odb"] else {}
        odb = ops.make_odb(case["store"], os.path.join(d, "cache"), **config)

        def links_arg():
            return None if (case["via_odb"] or case.get("links_none")) else list(links)

        source = case.get("source", "cache")
        file_source = None
        if source != "cache":
            srcdir = os.path.join(d, "src")
            os.mkdir(srcdir)
            for k, data in T.files.items():
                os.makedirs(os.path.dirname(_join(srcdir, k)), exist_ok=True)
                with open(_join(srcdir, k), "wb") as f:
                    f.write(data)
            file_source = (source, srcdir)

        # ---- cache contents -----------------------------------------------------------------
        # further cache storages at drawn target keys; an object lives only in the store its key
        # resolves to (longest registered prefix). Not combined with the unavailable-source arm, so
        # that "unavailable" stays "absent from the store the key resolves to".
        extra = []
        if not case["missing"]:
            cands = T.sorted_files() + T.sorted_dirs()
            for i in case.get("stores", []):
                if cands and cands[i % len(cands)] not in [k for k, _ in extra]:
                    k = cands[i % len(cands)]
                    extra.append((k, ops.make_odb(case["store"], os.path.join(d, f"cache-x{len(extra)}"),
                                                  **({"type": list(links)} if case["via_odb"] else {}))))

        def odb_for(key):
            best, blen = odb, -1
            for sk, xodb in extra:
                if key[:len(sk)] == sk and len(sk) > blen:
                    best, blen = xodb, len(sk)
            return best

        needed = {}  # oid -> bytes, the objects the target needs
        for k, data in T.files.items():
            needed[ref.ref_hash(data)] = data
            put_object(odb_for(k), case["store"], ref.ref_hash(data), data)
        for node in lazy:
            listing = lazy_listing(T, node)
            needed[ref.ref_tree_oid(listing)] = ref.ref_tree_bytes(listing)
            put_object(odb_for(node), case["store"], ref.ref_tree_oid(listing), ref.ref_tree_bytes(listing))

        # ---- prior workspace ----------------------------------------------------------------
        if case["prior_mode"] == "checkout" and (prior.files or prior.dirs):
            odb0 = odb
            if extra:  # keep the target's stores exclusive: the prior comes from a store of its own
                odb0 = ops.make_odb(case["store"], os.path.join(d, "cache-prior"),
                                    **({"type": list(links)} if case["via_odb"] else {}))
            for data in prior.files.values():
                put_object(odb0, case["store"], ref.ref_hash(data), data)
            idx0 = make_target(prior, set(prior.dirs), [], odb0)
            errs0 = []
            apply(compare(None, idx0), ws, fs, update_meta=False, links=links_arg(),
                  onerror=lambda *a: errs0.append(a))
            v0 = check_workspace("initial:", ws, prior)
            if v0:
                return Result(v0, False, ["initial-checkout-failed"])
            classes.append("prior=checkout")
        else:
            materialise(prior, ws)
            classes.append("prior=plain")
        # ---- unavailable sources ------------------------------------------------------------
        gone = set()
        if case["missing"] and needed:
            oids = sorted(needed)
            gone = {oids[i % len(oids)] for i in case["missing"]}
            for oid in gone:
                drop_object(odb, oid)
        materialise_links(prior, ws, os.path.join(d, "outside"))
        pf, pd, px = walk(ws)
        if pf != {**prior.files, **prior.links} or pd != prior.dirs or not prior.execs <= px:
            raise HarnessError("prior workspace does not match its model")
        failed_dirs = [n for n in lazy if ref.ref_tree_oid(lazy_listing(T, n)) in gone]
        gone_files = [k for k in T.sorted_files() if ref.ref_hash(T.files[k]) in gone]
        affected = failed_dirs + gone_files

        def needs_create(k):
            # relink also re-creates unchanged files, but which ones it treats as unchanged depends on
            # the x bits found in the workspace; only the files that certainly must be created count
            return prior.files.get(k, prior.links.get(k)) != T.files[k]  # bytes are read through links

        expect_reported = {_join(ws, n) for n in failed_dirs}
        expect_reported |= {_join(ws, k) for k in gone_files
                            if needs_create(k) and not under(k, failed_dirs)}

        # delete off: a target file whose path holds a non-empty prior directory cannot be placed
        blocked = []
        in_the_way = []
        expect_blocked_reported = set()
        if not delete:
            for k in T.sorted_files():
                if k in prior.dirs and (any(f[:len(k)] == k for f in prior.files)
                                        or any(f[:len(k)] == k for f in prior.links)
                                        or any(e[:len(k)] == k and e != k for e in prior.dirs)):
                    blocked.append(k)
            # ... and a prior file (or link) at the place of a directory the index has no entry for stays
            # in the way: nothing tells apply to replace it. The files below must then be reported.
            in_the_way = [e for e in sorted(implicit_dirs) if e in prior.files or e in prior.links]
            in_the_way = [e for e in in_the_way if not any(e[:len(o)] == o and o != e for o in in_the_way)]
            blocked += in_the_way
            if not gone:
                expect_blocked_reported = {_join(ws, k) for k in T.sorted_files() if under(k, in_the_way)}
                expect_blocked_reported |= {_join(ws, e) for e in dir_entries
                                            if under(e, in_the_way) and e not in in_the_way}

        # ---- compare + apply ----------------------------------------------------------------
        state = ops.make_state(ws, os.path.join(d, "state")) if case["state"] else None
        try:
            old = None
            if not (case["old_none"] and not prior.files and not prior.dirs and not prior.links):
                old = build_old(ws, state, root_entry=() in lazy, hashes=old_hashes,
                                dirhash_keys=lazy if case.get("old_dirhash") else ())
                if case.get("old_dirhash") and old_hashes and any(
                        old.get(n) is not None and old[n].hash_info for n in lazy if n or () in lazy):
                    classes.append("old-dir-hashes")
            else:
                classes.append("old=None")
            target = make_target(T, dir_entries, lazy, odb, extra, file_source)
            load_errors = []
            if case.get("collect"):
                # a non-raising handler, as applications install to report all problems at once
                target.onerror = lambda entry, exc: load_errors.append(entry.key)
                classes.append("index-onerror-collector")
            reported = []

            def tolerated_escape(exc):
                """Errors escaping from apply() that lie outside the statement (everything else is judged):
                * a source is unavailable: FileNotFoundError out of _create_files/_chmod_files, raised when
                  the destination that could not be created is stat'ed again after the callback was called;
                * delete off and a prior non-directory sits where the target needs a directory that has no
                  entry of its own: NotADirectoryError / FileExistsError / FileNotFoundError out of
                  _create_dirs/_create_files/_chmod_files - a loud failure, not a silent skip."""
                frame = product_frame(exc)
                func = frame[1] if frame else None
                if in_the_way and isinstance(exc, (NotADirectoryError, FileExistsError, FileNotFoundError)):
                    return func in ("_create_dirs", "_create_files", "_chmod_files")
                if affected and isinstance(exc, FileNotFoundError):
                    return func in ("_create_files", "_chmod_files")
                return False

            diff = compare(old, target, delete=delete, relink=case["relink"])
            raised = None
            try:
                apply(diff, ws, fs, update_meta=case["update_meta"], state=state, links=links_arg(),
                      onerror=lambda *a: reported.append(a), storage=source)
            except OSError as exc:
                if not tolerated_escape(exc):
                    raise
                raised = exc
                classes.append("apply-raised:blocked-path" if in_the_way else "apply-raised-after-report")
            reported_paths = {a[1] for a in reported if len(a) > 1}

            def survival(tag, aff):
                """delete off: nothing outside the target was removed or altered."""
                out = []
                if delete:
                    return out
                after_files, after_dirs, _ax = walk(ws)

                def below_target_file(k):
                    # the path of a target file holds a directory in the workspace and this entry lies in it.
                    # The target has nothing below a file, so the entry is outside the target as well: the
                    # directory is not emptied for the sake of the file that should replace it.
                    return any(k[:i] in T.files for i in range(1, len(k)))

                # an unavailable source takes the listing of a directory out of judgement, but a target file
                # whose object is gone has nothing below it either way
                aff_dirs = [a for a in aff if a not in T.files]

                def unjudged(k):
                    return under(k, aff_dirs if below_target_file(k) else aff)

                for e in prior.sorted_dirs():
                    if e in T.files or e in T.dirs or unjudged(e) or e in after_dirs:
                        continue
                    where = ":below-target-file" if below_target_file(e) else ""
                    out.append(Viol(f"{tag}delete-off:removed-outside-target{where}",
                                    f"prior directory {_rel(e)} is outside the target but was removed"))
                for k in prior.sorted_files():
                    if k in T.files or k in T.dirs or unjudged(k):
                        continue
                    where = ":below-target-file" if below_target_file(k) else ""
                    if after_files.get(k) != prior.files[k]:
                        out.append(Viol(f"{tag}delete-off:removed-outside-target{where}",
                                        f"prior file {_rel(k)} is outside the target but was "
                                        f"{'removed' if k not in after_files else 'altered'}"))
                for k in sorted(prior.links):
                    # odd entries are judged only inside such a directory: elsewhere a link at a target path
                    # has to make way, and the existing arms say what happens to the others
                    if not below_target_file(k) or unjudged(k):
                        continue
                    if k not in after_files or after_files[k] != prior.links[k]:
                        out.append(Viol(f"{tag}delete-off:removed-outside-target:below-target-file",
                                        f"prior symlink {_rel(k)} is outside the target but was "
                                        f"{'removed' if k not in after_files else 'altered'}"))
                return out

            def judge(tag, aff, cb):
                """Workspace oracle + delete-off survival + second compare, ignoring what lies at/below
                the keys in `aff` (entries whose source is unavailable in this round)."""
                out = check_workspace(tag, ws, T, affected=aff, blocked=blocked, exact=delete,
                                      optional_dirs=implicit_dirs)
                if cb and out and not aff:
                    out[0].msg += f"; error callback saw {[(a[1], repr(a[2])) for a in cb][:2]}"
                out += survival(tag, aff)
                # second compare: fresh old index with hashes, freshly constructed target
                old2 = build_old(ws, state, root_entry=() in lazy)
                target2 = make_target(T, dir_entries, lazy, odb, extra, file_source)
                diff2 = compare(old2, target2, delete=delete)
                for name in ("files_create", "files_delete", "dirs_create", "dirs_delete"):
                    left = []
                    for entry in getattr(diff2, name):
                        k = tuple(entry.key)
                        if under(k, aff) or under(k, blocked):
                            continue
                        left.append(k)
                    if left:
                        out.append(Viol(f"{tag}second-compare:{name}",
                                        f"after apply a second compare still has {name}="
                                        f"{[_rel(k) for k in sorted(left)][:4]}"))
                return out

            # ---- oracle: first round --------------------------------------------------------
            if raised is not None and in_the_way:
                viols += survival("", affected)  # after a loud failure only clause (2) is judged
            if raised is None:
                viols += judge("", affected, reported)
                now_files, now_dirs, _nx = walk(ws)
                for n in failed_dirs:
                    # tests/index/test_checkout.py::test_checkout_broken_dir: a directory that failed to
                    # load is excluded, not created empty
                    if n and n not in prior.dirs and n not in prior.files and (n in now_dirs or n in now_files):
                        viols.append(Viol("failed-dir-created",
                                          f"{_rel(n)}: its .dir object is not in the cache, yet the "
                                          f"path was created in the workspace"))
            # (when apply let a re-stat error escape, later storage groups were not processed at all)
            placed = set()
            if expect_blocked_reported and raised is None:
                got_files, got_dirs, _gx = walk(ws)  # "not silently skipped": placed after all, or reported
                placed = {_join(ws, k) for k in T.files if got_files.get(k) == T.files[k]}
                placed |= {_join(ws, e) for e in got_dirs}
            for p in sorted(expect_blocked_reported - reported_paths - placed) if raised is None else ():
                viols.append(Viol("delete-off:file-in-the-way-unreported",
                                  f"{os.path.relpath(p, ws)}: a prior file occupies the place of its parent "
                                  f"directory (delete off); it was neither placed nor reported to the "
                                  f"error callback"))
            # (after a loud failure over a blocked path apply stopped before it got to the files)
            for p in sorted(expect_reported - reported_paths) if not (raised is not None and in_the_way) else ():
                kind = "dir" if p in {_join(ws, n) for n in failed_dirs} else "file"
                viols.append(Viol(f"unreported-missing-source:{kind}",
                                  f"{os.path.relpath(p, ws)}: its source is not in the cache but the "
                                  f"error callback was not called for it"))

            # ---- history: the sources come back, the checkout is retried with the SAME target -----
            # (not after update_meta=True: that apply re-points the index it was given at the workspace)
            if gone and not case["update_meta"] and not viols:
                for oid in sorted(gone):
                    put_object(odb, case["store"], oid, needed[oid])
                reported2 = []
                diff3 = compare(build_old(ws, state, root_entry=() in lazy), target, delete=delete,
                                relink=case["relink"])
                try:
                    apply(diff3, ws, fs, update_meta=False, state=state, links=links_arg(),
                          onerror=lambda *a: reported2.append(a))
                    viols += judge("retry:", [], reported2)
                except OSError as exc:
                    if not in_the_way or not tolerated_escape(exc):  # a file still in the way
                        raise
                    viols += survival("retry:", [])
                classes.append("retry-after-restore")
                if failed_dirs:
                    classes.append("retry-after-restore:failed-dir")
        finally:
            if state is not None:
                state.close()

    # ---- classification (on the executed case) ------------------------------------------------
    f2d = [k for k in prior.files if k in T.dirs]
    d2f = [k for k in prior.dirs if k in T.files]
    kind_change = bool(f2d or d2f)
    gone_dirs = [e for e in prior.dirs if e not in T.dirs]
    nested_rm = any(e[:len(g)] == g and e != g for g in gone_dirs for e in prior.dirs)
    to_delete = bool(gone_dirs or [k for k in prior.files if k not in T.files]
                     or [k for k in prior.links if k not in T.files])
    nonempty = bool(prior.files or prior.dirs or prior.links)
    nontrivial = bool(nonempty and not prior.same(T) and to_delete and (kind_change or nested_rm))
    classes += [f"form={form}", "links=" + "+".join(links), "delete=" + ("on" if delete else "off"),
                f"store={case['store']}"]
    if source != "cache":
        classes.append(f"source=FileStorage:{source}")
        if implicit_dirs and any(e not in prior.dirs for e in implicit_dirs):
            classes.append("FileStorage:implicit-parent-missing-in-workspace")
    if case.get("links_none") and not case["via_odb"]:
        classes.append("links-not-passed")
    for flag in ("relink", "update_meta", "state", "via_odb"):
        if case[flag]:
            classes.append(flag)
    for k, v in prior.links.items():
        kind = "dangling-link" if v is None else "outside-file-link"
        where = ("at-target-file" if k in T.files else "at-lazy-dir" if k in lazy
                 else "at-hashless-dir:inside-lazy" if k in T.dirs and under(k, lazy)
                 else "at-implicit-dir" if k in implicit_dirs
                 else "at-hashless-dir:explicit" if k in T.dirs else "not-in-target")
        classes.append(f"prior:{kind}:{where}")
    if extra:
        classes.append(f"extra-stores={len(extra)}")
        if any(k in T.files for k, _ in extra):
            classes.append("store-at-file-key")
        owner = {k: id(odb_for(k)) for k in T.files}
        if any(a[:-1] == b[:-1] and owner[a] != owner[b] for a in owner for b in owner):
            classes.append("siblings-in-different-stores")
    if not old_hashes:
        classes.append("old-without-hashes")
        if f2d:
            classes.append("old-without-hashes:file->hashless-dir")
    if f2d:
        classes.append("kind:file->dir")
    if d2f:
        classes.append("kind:dir->file")
    if any(len(k) >= 2 for k in f2d + d2f):
        classes.append("kind-change-depth>=2")
    if nested_rm:
        classes.append("nested-dir-to-remove")
    if any(not any(k[:len(g)] == g for k in prior.files) for g in gone_dirs):
        classes.append("empty-dir-to-remove")
    if any(k in prior.files and prior.files[k] != T.files[k] for k in T.files):
        classes.append("modified-file")
    if any(k in prior.files and prior.files[k] == T.files[k] and (k in T.execs) != (k in prior.execs)
           for k in T.files):
        classes.append("chmod-only")
    if T.execs:
        classes.append("exec-entry")
    if any(not any(k[:len(e)] == e for k in T.files) for e in T.dirs):
        classes.append("target-empty-dir")
    if lazy:
        classes.append("lazy-root" if () in lazy else "lazy-node")
        if any(len(n) >= 2 for n in lazy):
            classes.append("lazy-depth>=2")
        if any(len(k) - len(n) >= 2 for n in lazy for k in T.files if k[:len(n)] == n):
            classes.append("lazy-holds-nested")
    if failed_dirs:
        classes.append("missing-dir-source")
    if expect_reported - {_join(ws, n) for n in failed_dirs}:
        classes.append("missing-file-source")
    if blocked:
        classes.append("delete-off:blocked-file")
    d2f_off = set()
    for t in [k for k in blocked if k in T.files]:
        # a directory -> file change with deletion off: what the directory holds lies outside the target
        n = len(t)
        if any(f[:n] == t for f in prior.files):
            d2f_off.add("delete-off:dir->file:holds-files")
        if any(f[:n] == t and len(f) > n + 1 for f in prior.files):
            d2f_off.add("delete-off:dir->file:holds-nested-files")
        if any(e[:n] == t and e != t and not any(f[:len(e)] == e for f in prior.files) for e in prior.dirs):
            d2f_off.add("delete-off:dir->file:holds-empty-dir")
        if any(f[:n] == t for f in prior.links):
            d2f_off.add("delete-off:dir->file:holds-link")
        if n >= 2:
            d2f_off.add("delete-off:dir->file:depth>=2")
        if under(t, affected):
            d2f_off.add("delete-off:dir->file:source-unavailable")
    classes += sorted(d2f_off)
    if in_the_way:
        classes.append("delete-off:file-at-implicit-dir")
    if not delete and any((e in prior.files or e in prior.links) and e not in lazy and under(e, lazy)
                          for e in T.dirs):
        classes.append("delete-off:file-at-dir-inside-lazy")
        if any((e in prior.files or e in prior.links) and e not in lazy and under(e, lazy)
               and not any(f[:-1] == e for f in T.files) for e in T.dirs):
            classes.append("delete-off:file-at-subdir-only-dir-inside-lazy")
    if implicit_dirs:
        classes.append("implicit-dirs:" + ("all" if not (T.dirs & dir_entries) - set(lazy) else "mixed"))
        if any(len(e) >= 2 for e in implicit_dirs):
            classes.append("implicit-dir-depth>=2")
    if not nonempty:
        classes.append("prior-empty")
    elif prior.same(T):
        classes.append("prior==T")
    if not T.files and not T.dirs:
        classes.append("target-empty")
    if nontrivial:
        classes.append("NONTRIVIAL")
    return Result(viols, nontrivial, classes)


def run(ctx):
    ctx.run_given(cases(), run_case, ctx.n(quick=350, thorough=1500))


def replay(case, ctx):
    ctx.exec_case(case, run_case)
