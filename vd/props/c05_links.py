"""C05, link clean-up half: a history machine over a State rooted at a scratch directory.

The model is a flat table slot -> {recorded, touched, why, sig}; "recorded" is set only by the
machine's own record rules (State.save_link or a relinking checkout that returned) together with
the record-time snapshot `sig` = (inode, {file: (mtime, bytes)}); "touched"/"why" by every user rule.
An entry counts as modified when its snapshot now differs from the record-time one (a history that
restores the exact recorded state - add a file then delete it, rename there and back - is not a
modification).  The harness owns the clock: after every user mutation the mtime of each written file is set
with os.utime to `previous + drawn delta`, moved on in 1 us steps until the (float) mtime was never
seen before for that path, and the stat triple (inode, mtime, size) is verified to differ from the
one before the mutation (except for the explicit "replace, keep mtime" case where only the inode
changes - that is the point of that case).
"""

import os
import shutil

from hypothesis import strategies as st
from hypothesis.stateful import rule

from .. import gen, ops, ref
from ..ctx import HarnessError, Result
from ..machine import TraceMachine, traced
from .c05 import T0_NS, cache_snapshot, snapshot

SLOTS = ["foo", "data", "grp/sp ace", "Ünï"]
BYSTANDERS = ["keep", "grp/keep2", "notes.txt", "foo.bak"]
# files inside recorded directories: nested 2-3 levels, the same basename in several sub-directories
INNER = ["labels", "train/labels", "val/labels", "val/deep/labels", "f1", "train/f1", "val/f1",
         "a'b", "z"]
SUBDIRS = ["", "train", "val", "val/deep", "other"]

slot_s = st.integers(0, 11)
content_s = st.one_of(gen.small_contents(), gen.contents(pool_weight=1, max_size=16))
delta_s = st.one_of(
    st.integers(1, 999), st.integers(-999, -1),               # sub-millisecond
    st.integers(1_000, 900_000), st.integers(-900_000, -1_000),  # sub-second
    st.integers(1_000_000, 10_000_000_000), st.integers(-10_000_000_000, -1_000_000),
)  # micro-seconds
tree_s = st.one_of(
    st.dictionaries(st.sampled_from(INNER), content_s, min_size=1, max_size=4),
    st.dictionaries(st.sampled_from(INNER[:4]), content_s, min_size=2, max_size=4),  # same-named files
)


def _triple(p):
    s = os.lstat(p)
    return (s.st_ino, s.st_mtime, s.st_size)


class LinksMachine(TraceMachine):
    def case(self):
        return {"half": "links", "steps": list(self.trace)}

    # ---- setup / teardown --------------------------------------------------------------------
    def on_setup(self):
        from dvc_objects.fs.local import LocalFileSystem

        self.fs = LocalFileSystem()
        self.root = os.path.join(self.dir, "root")
        os.mkdir(self.root)
        self.cpath = os.path.join(self.dir, "cache")
        self.state = ops.make_state(self.root, os.path.join(self.dir, "st"))
        self.model = {s: {"recorded": False, "touched": False, "why": None, "sig": None, "tok": None}
                      for s in SLOTS}
        self.seen = {}        # abs path -> set of float mtimes ever observed/assigned
        self.k = 0
        self.labels = set()
        self.n_cleanups = 0
        self.n_removed = 0
        self.n_guarded = 0
        self.n_touch_recorded = 0
        self.n_records = 0
        self.nontrivial = False
        self.nsrc = 0

    def on_cleanup(self):
        self.state.close()

    def on_summary(self):
        return Result([], self.nontrivial, sorted(self.labels),
                      {"cleanups": self.n_cleanups, "links_removed": self.n_removed,
                       "link_histories": 1, "link_steps": len(self.trace),
                       "cleanups_with_guarded_modified": self.n_guarded,
                       "records": self.n_records, "user_ops_on_recorded": self.n_touch_recorded})

    # ---- helpers -----------------------------------------------------------------------------
    def p(self, rel):
        return os.path.join(self.root, *rel.split("/"))

    def files_of(self, path):
        if os.path.isdir(path) and not os.path.islink(path):
            out = []
            for r, _d, fl in os.walk(path):
                out.extend(os.path.join(r, f) for f in fl)
            return sorted(out)
        return [path] if os.path.lexists(path) else []

    def sig(self, path):
        """Everything observable about an entry: its inode and, per file, (mtime, bytes)."""
        if not os.path.lexists(path):
            return None
        files = {}
        for f in self.files_of(path):
            files[os.path.relpath(f, path)] = (os.stat(f).st_mtime, ref.read(f))
        return (os.lstat(path).st_ino, files)

    def tok(self, path):
        """What the link record of a *file* entry can see: (inode of the path, mtime of the file)."""
        if os.path.isdir(path) and not os.path.islink(path):
            return None
        return (os.lstat(path).st_ino, os.stat(path).st_mtime)

    def same_names(self, path):
        names = [os.path.basename(f) for f in self.files_of(path)]
        return len(names) != len(set(names))

    def observe(self, path):
        """Remember the mtimes an entry's files carry right now (called at record time)."""
        if os.path.isdir(path) and self.same_names(path):
            self.labels.add("record:dir-with-same-named-files")
        for f in self.files_of(path):
            self.seen.setdefault(f, set()).add(os.stat(f).st_mtime)

    def stamp(self, f, delta_us, base_ns=None, before=None):
        """Harness clock: mtime := base + delta, stepped on until never seen for this path."""
        if base_ns is None:
            self.k += 1
            base_ns = T0_NS + self.k * 7_000_000_000
        ns = base_ns + delta_us * 1000
        seen = self.seen.setdefault(f, set())
        for _ in range(10_000):
            os.utime(f, ns=(ns, ns))
            m = os.stat(f).st_mtime
            if m not in seen:
                break
            ns += 1000
        else:
            raise HarnessError("clock: could not find a fresh mtime")
        seen.add(m)
        if before is not None and _triple(f) == before:
            raise HarnessError(f"clock: stat triple of {f} did not change")

    def write_new(self, f, data, delta_us):
        """unlink + create (never through a link), then stamp."""
        before = _triple(f) if os.path.lexists(f) else None
        base = os.lstat(f).st_mtime_ns if before and not os.path.islink(f) else None
        if before:
            os.unlink(f)
        os.makedirs(os.path.dirname(f), exist_ok=True)
        with open(f, "xb") as fh:
            fh.write(data)
        self.stamp(f, delta_us, base_ns=base, before=before)

    def existing(self, slot, dirs_only=False):
        """Resolve a drawn index to an entry that exists now (modulo the current population)."""
        pop = [s for s in SLOTS if os.path.lexists(self.p(s))
               and (not dirs_only or (os.path.isdir(self.p(s)) and not os.path.islink(self.p(s))))]
        # recorded, still untouched entries are where the guard matters: list them twice
        pop = pop + [s for s in pop if self.model[s]["recorded"] and not self.model[s]["touched"]]
        return pop[slot % len(pop)] if pop else None

    def missing(self, slot):
        pop = [s for s in SLOTS if not os.path.lexists(self.p(s))]
        return pop[slot % len(pop)] if pop else None

    def touch(self, slot, why):
        m = self.model[slot]
        if m["recorded"]:
            self.n_touch_recorded += 1
        m["touched"] = True
        m["why"] = why

    # ---- rules: the tool records links -------------------------------------------------------
    @rule(slot=slot_s, kind=st.sampled_from(["file", "dir"]), content=content_s, tree=tree_s,
          delta=delta_s)
    @traced
    def record(self, slot, kind, content, tree, delta):
        """State.save_link on the path (created first if missing)."""
        rel = SLOTS[slot % len(SLOTS)]
        path = self.p(rel)
        if not os.path.lexists(path):
            if kind == "file":
                self.write_new(path, gen.content_bytes(content), delta)
            else:
                for name, c in sorted(tree.items()):
                    self.write_new(os.path.join(path, *name.split("/")), gen.content_bytes(c), delta)
        self.state.save_link(path, self.fs)
        self.observe(path)
        self.model[rel] = {"recorded": True, "touched": False, "why": None, "sig": self.sig(path),
                           "tok": self.tok(path)}
        self.n_records += 1
        self.labels.add("record:save_link:" + ("dir" if os.path.isdir(path) else "file"))

    @rule(slot=slot_s, kind=st.sampled_from(["file", "dir"]), content=content_s, tree=tree_s,
          link=st.sampled_from(["copy", "copy", "hardlink", "symlink"]))
    @traced
    def record_checkout(self, slot, kind, content, tree, link):
        """A relinking checkout with state records the link (only onto a missing path)."""
        from dvc_data.hashfile.checkout import checkout

        rel = self.missing(slot)
        if rel is None:
            return
        path = self.p(rel)
        self.nsrc += 1
        src = os.path.join(self.dir, f"src{self.nsrc}")
        if kind == "file":
            gen.write_file(src, gen.content_bytes(content))
        else:
            gen.materialise({}, src)
            for name, c in sorted(tree.items()):
                gen.write_file(os.path.join(src, *name.split("/")), gen.content_bytes(c))
        odb = ops.make_odb("local", self.cpath, type=[link], state=self.state)
        _, obj, _ = ops.stage_transfer(odb, src)
        shutil.rmtree(src) if os.path.isdir(src) else os.unlink(src)
        os.makedirs(os.path.dirname(path), exist_ok=True)
        checkout(path, self.fs, obj, odb, relink=True, state=self.state)
        self.observe(path)
        self.model[rel] = {"recorded": True, "touched": False, "why": None, "sig": self.sig(path),
                           "tok": self.tok(path)}
        self.n_records += 1
        self.labels.add(f"record:checkout:{link}:" + ("dir" if kind == "dir" else "file"))

    # ---- rules: the user changes things ------------------------------------------------------
    @traced
    def user_modify(self, slot, sub, content, inplace, delta):
        rel = self.existing(slot)
        if rel is None:
            return
        files = self.files_of(self.p(rel))
        if not files:
            return
        f = files[sub % len(files)]
        data = gen.content_bytes(content)
        st_ = os.lstat(f)
        is_link = os.path.islink(f) or st_.st_nlink > 1
        if inplace and not is_link:
            before = _triple(f)
            base = st_.st_mtime_ns
            os.chmod(f, 0o644)
            with open(f, "r+b") as fh:   # same inode
                fh.truncate(0)
                fh.write(data)
            self.stamp(f, delta, base_ns=base, before=before)
            self.touch(rel, "modified-in-place")
        else:
            self.write_new(f, data, delta)
            self.touch(rel, "modified-recreated")

    @traced
    def user_replace(self, slot, content, keep_mtime, delta, recycle=False):
        """Replace by a new inode (temp sibling + rename); a file may keep its old mtime.

        recycle (files, with keep_mtime): a second replacement brings the *original* inode back with
        other bytes and the kept mtime - what inode-number recycling does by itself on ext4 (two
        successive replacements), provoked here by parking the old file aside so that it also
        happens on tmpfs.  If the resulting (inode, mtime) equals the record-time pair the change is
        invisible to the recorded token: outside the property, the entry counts as unmodified.
        """
        rel = self.existing(slot)
        if rel is None:
            return
        path = self.p(rel)
        tmp = path + ".user-tmp"
        aside = path + ".user-old"
        old_ino = os.lstat(path).st_ino
        recycled = False
        if os.path.isdir(path) and not os.path.islink(path):
            os.mkdir(tmp)
            for f in self.files_of(path):
                r = os.path.relpath(f, path)
                gen.write_file(os.path.join(tmp, r), ref.read(f))
            os.rename(path, aside)
            os.rename(tmp, path)
            shutil.rmtree(aside)
            for f in self.files_of(path):
                self.stamp(f, delta)
            self.touch(rel, "replaced-dir")
        else:
            old = os.stat(path)
            plain = not os.path.islink(path) and os.lstat(path).st_nlink == 1
            data = gen.content_bytes(content)
            if recycle and keep_mtime and plain:
                os.rename(path, aside)                      # the old inode stays alive, parked
                gen.write_file(tmp, data)
                os.replace(tmp, path)                       # first replacement: new inode
                with open(aside, "r+b") as fh:              # never a link: plain file, nlink == 1
                    fh.truncate(0)
                    fh.write(data + b"#2")
                os.replace(aside, path)                     # second replacement: the old inode is back
                os.utime(path, ns=(old.st_mtime_ns, old.st_mtime_ns))
                recycled = True
                self.touch(rel, "replaced-same-mtime")
            else:
                gen.write_file(tmp, data)
                os.replace(tmp, path)
                if keep_mtime:
                    os.utime(path, ns=(old.st_mtime_ns, old.st_mtime_ns))
                    self.touch(rel, "replaced-same-mtime")
                else:
                    self.stamp(path, delta, base_ns=old.st_mtime_ns)
                    self.touch(rel, "replaced")
            m = self.model[rel]
            if m["recorded"] and m["tok"] is not None and self.tok(path) == m["tok"]:
                # (inode, mtime) is exactly what was recorded (inode number recycled by the file
                # system or brought back above, mtime kept): token-preserving, counts as unmodified
                m["sig"] = self.sig(path)
                self.labels.add("inode-recycled-token-preserved")
        if not recycled and os.lstat(path).st_ino == old_ino:
            raise HarnessError("replace did not produce a new inode")

    @traced
    def user_remove(self, slot):
        rel = self.existing(slot)
        if rel is None:
            return
        path = self.p(rel)
        if os.path.isdir(path) and not os.path.islink(path):
            shutil.rmtree(path)
        else:
            os.unlink(path)
        self.touch(rel, "removed")

    @traced
    def user_create(self, slot, kind, content, tree, delta):
        """The user creates something at a (possibly formerly recorded) path."""
        rel = self.missing(slot)
        if rel is None:
            return
        path = self.p(rel)
        if kind == "file":
            self.write_new(path, gen.content_bytes(content), delta)
        else:
            for name, c in sorted(tree.items()):
                self.write_new(os.path.join(path, *name.split("/")), gen.content_bytes(c), delta)
        self.touch(rel, "user-created")

    @traced
    def user_add_file_in_dir(self, slot, name, content, delta):
        rel = self.existing(slot, dirs_only=True)
        if rel is None:
            return
        path = self.p(rel)
        f = os.path.join(path, *name.split("/"))
        if os.path.lexists(f) or os.path.isfile(os.path.dirname(f)):
            return
        self.write_new(f, gen.content_bytes(content), delta)
        self.touch(rel, "file-added-in-dir")

    @traced
    def user_rename_in_dir(self, slot, sub, name):
        """Move a file inside a recorded directory: mtimes stay, the path set changes."""
        rel = self.existing(slot, dirs_only=True)
        if rel is None:
            return
        path = self.p(rel)
        files = self.files_of(path)
        dst = os.path.join(path, *name.split("/"))
        if not files or os.path.lexists(dst) or os.path.isfile(os.path.dirname(dst)):
            return
        src = files[sub % len(files)]
        m = os.stat(src).st_mtime
        if m in self.seen.get(dst, ()):
            return  # would re-create a (path, mtime) pair seen before, e.g. renaming back: not a change
        self.seen.setdefault(dst, set()).add(m)
        os.makedirs(os.path.dirname(dst), exist_ok=True)
        os.rename(src, dst)
        self.touch(rel, "file-renamed-in-dir")

    @traced
    def user_move_in_dir(self, slot, sub, dest):
        """Move a file to another sub-directory of a recorded directory: basename and mtime stay."""
        rel = self.existing(slot, dirs_only=True)
        if rel is None:
            return
        path = self.p(rel)
        files = self.files_of(path)
        if not files:
            return
        src = files[sub % len(files)]
        dst = os.path.join(path, *[x for x in dest.split("/") if x], os.path.basename(src))
        if dst == src or os.path.lexists(dst):
            return
        m = os.stat(src).st_mtime
        if m in self.seen.get(dst, ()):
            return  # would re-create a (path, mtime) pair seen before (moving back): not a change
        self.seen.setdefault(dst, set()).add(m)
        os.makedirs(os.path.dirname(dst), exist_ok=True)
        os.rename(src, dst)
        self.touch(rel, "file-moved-between-subdirs")

    @traced
    def user_delete_in_dir(self, slot, sub):
        rel = self.existing(slot, dirs_only=True)
        if rel is None:
            return
        path = self.p(rel)
        files = self.files_of(path)
        if len(files) < 2:
            return
        os.unlink(files[sub % len(files)])
        self.touch(rel, "file-deleted-in-dir")

    @traced
    def bystander(self, i, content, delta):
        """A user file the state never recorded."""
        self.write_new(self.p(BYSTANDERS[i]), gen.content_bytes(content), delta)
        self.labels.add("bystander")

    # ---- one dispatcher rule (declared twice) keeps the rule mix at record / user / cleanup ------
    USER_OPS = (["modify"] * 4 + ["replace"] * 5 + ["add_in_dir"] * 2 + ["rename_in_dir"] * 2 + ["move_in_dir"] * 2
                + ["delete_in_dir", "remove", "create", "bystander"])

    def _user(self, what, slot, sub, content, flag, delta, name, kind, tree, then_cleanup, recycle, dest):
        if what == "modify":
            self.user_modify(slot=slot, sub=sub, content=content, inplace=flag, delta=delta)
        elif what == "replace":
            self.user_replace(slot=slot, content=content, keep_mtime=flag, delta=delta, recycle=recycle)
        elif what == "add_in_dir":
            self.user_add_file_in_dir(slot=slot, name=name, content=content, delta=delta)
        elif what == "rename_in_dir":
            self.user_rename_in_dir(slot=slot, sub=sub, name=name)
        elif what == "move_in_dir":
            self.user_move_in_dir(slot=slot, sub=sub, dest=dest)
        elif what == "delete_in_dir":
            self.user_delete_in_dir(slot=slot, sub=sub)
        elif what == "remove":
            self.user_remove(slot=slot)
        elif what == "create":
            self.user_create(slot=slot, kind=kind, content=content, tree=tree, delta=delta)
        else:
            self.bystander(i=slot % len(BYSTANDERS), content=content, delta=delta)
        if then_cleanup is not None and then_cleanup is not False and not self.failed:
            self.cleanup(mask=0 if then_cleanup is True else then_cleanup, ghost=False)

    _USER_ARGS = dict(  # noqa: C408
        what=st.sampled_from(USER_OPS), slot=slot_s, sub=st.integers(0, 11), content=content_s,
        flag=st.sampled_from([True, True, False]), delta=delta_s,
        name=st.sampled_from(INNER + ["new", "renamed"]), kind=st.sampled_from(["file", "dir"]), tree=tree_s,
        then_cleanup=st.sampled_from([None, 0, 0, 0, 0, 2 ** len(SLOTS) - 1]), recycle=st.sampled_from([False, False, True]),
        dest=st.sampled_from(SUBDIRS))

    @rule(**_USER_ARGS)
    def user_a(self, **kw):
        self._user(**kw)

    @rule(**_USER_ARGS)
    def user_b(self, **kw):
        self._user(**kw)

    # ---- rule: clean-up ----------------------------------------------------------------------
    @rule(mask=st.one_of(st.just(0), st.sampled_from([1, 2, 4, 8]), st.integers(0, 2 ** len(SLOTS) - 1)),
          ghost=st.booleans())
    @traced
    def cleanup(self, mask, ghost):
        self._cleanup(mask, ghost)

    def _cleanup(self, mask, ghost):
        used_rel = [s for i, s in enumerate(SLOTS) if mask >> i & 1]
        used = [os.path.join(self.root, rel) for rel in used_rel]
        if ghost:
            used.append(os.path.join(self.root, "not-existing-file"))
        before, _ = snapshot(self.root)
        cache_before, _ = cache_snapshot(self.cpath)
        exists = {s: os.path.lexists(self.p(s)) for s in SLOTS}

        allowed, guarded = set(), {}
        for s, m in self.model.items():
            if not (m["recorded"] and exists[s]):
                continue
            if s in used_rel:
                guarded[s] = "in-use"
            elif self.sig(self.p(s)) != m["sig"]:
                # differs from the record-time snapshot in inode, file set, an mtime or bytes
                guarded[s] = m["why"] or "changed"
            else:
                if m["touched"]:
                    self.labels.add("restored-to-recorded-state")
                allowed.add(s)

        unused = list(self.state.get_unused_links(used, self.fs))
        self.state.remove_links(unused, self.fs)

        after, _ = snapshot(self.root)
        cache_after, _ = cache_snapshot(self.cpath)
        self.n_cleanups += 1

        for u in sorted(unused):
            if u in allowed:
                continue
            if u not in self.model or not self.model[u]["recorded"]:
                self.violate("cleanup-returned:not-recorded",
                             f"get_unused_links returned {u!r}, which the state never recorded "
                             f"(or whose record was already dropped)")
            why = guarded.get(u, "missing")
            kind = "dir" if os.path.isdir(self.p(u)) or any(k.startswith(u + "/") for k in before) else "file"
            self.violate(f"cleanup-returned:{why}:{kind}",
                         f"get_unused_links(used={used_rel}) returned {u!r} although it is {why}")
        gone = sorted(k for k, v in before.items() if after.get(k) != v)
        for k in gone:
            owner = next((u for u in unused if k == u or k.startswith(u + "/")), None)
            if owner is None:
                if k in after:
                    self.violate("cleanup-altered", f"clean-up changed the bytes of {k!r}")
                self.violate("cleanup-removed-unreturned",
                             f"clean-up removed {k!r}, which is not under any returned path {unused}")
        if cache_after != cache_before:
            self.violate("cleanup-touched-cache", "clean-up changed the cache directory "
                         f"({sorted(set(cache_before) ^ set(cache_after))})")

        for u in unused:
            self.model[u] = {"recorded": False, "touched": False, "why": None, "sig": None, "tok": None}
        self.n_removed += len(unused)

        # coverage bookkeeping
        for s, why in guarded.items():
            self.labels.add("guarded:" + why)
            if why != "in-use" and os.path.isdir(self.p(s)) and self.same_names(self.p(s)):
                self.labels.add("guarded:dir-with-same-named-files")
        if any(w not in ("in-use", "removed") for w in guarded.values()):
            self.nontrivial = True
            self.n_guarded += 1
        if unused:
            self.labels.add("cleanup-removed>=1")
        if allowed - set(unused):
            self.labels.add("eligible-but-kept")
        if any(self.model[s]["recorded"] and not exists[s] for s in SLOTS):
            self.labels.add("recorded-path-missing")
