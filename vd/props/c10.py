"""C10 - object checkout converges, is idempotent, honours link types and spares the cache."""

import hashlib
import json
import os
import stat

from hypothesis import strategies as st

from .. import gen, ops, ref
from ..ctx import HarnessError, Result, Viol

LEVEL = "exploration"
WORKERS = {"quick": 8, "thorough": 16}
BUDGET_S = {"quick": 50, "thorough": 650}
RULE = (
    "Hypothesis draws a cached target (nested tree over a small content pool: duplicates, empty files; or a "
    "single file), extra cached objects, store class, state on/off, the link type L1 of a first checkout, "
    "kind-preserving workspace edits (modify = unlink+create with cached/uncached content, delete with optional "
    "pruning of emptied directories, add file, touch of independent copies, replace a file by a hard/symbolic "
    "link to an outside file with the same or other content) with harness-owned mtimes (os.utime(ns=...) from "
    "drawn deltas, stat triple verified to change), the configured type L2 in {[copy],[hardlink],[symlink],"
    "[reflink,copy]} (after a same-bytes foreign link, half the time the type of that very kind of link), cache history steps between checkouts (an object re-created through the store's add path: same "
    "oid and bytes, new inode; an object missing during an earlier checkout attempt and added afterwards - the "
    "harness's own re-creation lies outside every before/after snapshot pair) and a plan (forced checkout, repeat, relinking checkout, repeat | forced relinking checkout, "
    "repeat, plain checkout). Oracle: os.walk snapshot (bytes, mode) of every cache object equal before/after "
    "every call; forced checkout => workspace files == target exactly; repeated plain checkout returns None and "
    "changes no lstat field of any workspace path; after a relinking checkout every file is of type L2 by "
    "lstat/readlink/inode against the cache object (copy: own inode, nlink 1, not read-only for the local class; "
    "hardlink: same inode, empty files independent; symlink: resolves to the cache path), also after a second "
    "one; with state, links[rel] == (inode, mtime token recomputed by the harness) whenever the call saved a record. "
    "History dimension (every single-file target, two thirds of the trees): after the plan, 2-8 further forced checkouts of the "
    "same unchanged object, each at the workspace path or at a second path ws2, with its own drawn configured type "
    "(links to the cache drawn more often than copies) and relink on/off, so that the object gains and loses hard "
    "links and symlinks elsewhere before a path is relinked (the only way a single-file object gets nlink > 1); after "
    "every step the same per-call clauses apply at the step's path (no refusal, cache snapshot equal, files and bytes "
    "== target, link record), after a relinking step every file there is of the step's type by the same "
    "lstat/readlink/inode test, and the files and bytes below the other path are as before the step. "
    "A plain history step onto a path that already holds exactly the target's files and bytes must itself return None and "
    "change no lstat field there (the 'second checkout reports nothing to do' clause at every such step). "
    "Target provenance dimension (drawn per case; every checkout of the case, history steps included, receives the target "
    "in that form): loaded from the cache by its hash / the object build() returned, transferred whole / a sub-tree (or "
    "single file) taken with Tree.load(big).get_obj(odb, prefix) out of a bigger cached tree built from "
    "<prefix>/<target> plus drawn sibling files - the sub-tree's own <hash>.dir object was never added to the cache / "
    "the built tree whose file objects were transferred one by one while its own .dir object was withheld. In every "
    "provenance all file objects of the target are cached (verified), for the last two the harness verifies that the "
    "target's .dir object is absent from the cache; all clauses (convergence, second checkout returns None and changes "
    "nothing, link types, cache snapshot, link record) apply unchanged. "
    "Non-trivial = >=1 modified and >=1 added/removed file executed and effective L1 != L2; distinct = SHA-1 of case JSON."
)
ASSUMPTIONS = [
    "prior workspace paths agree in kind with the target (edits never turn a file into a directory or back)",
    "the harness never writes through a hard/symbolic link; a touch is applied to independent copies only",
    "reflink is unavailable here: [reflink, copy] is covered as its copy fallback",
    "history steps never edit the workspace: each step meets the target's own files at its path (as left by earlier "
    "steps, any link type) or a free path; a plain (non-relinking) step is only held to files/bytes, not to a link type",
    "'cached target object' means: every file object the target names is in the cache. A directory target's own .dir "
    "object need not be stored there (Tree.get_obj sub-trees as used for checking out part of a directory, in-memory "
    "trees from build()): checkout only reads the tree entries of the object it is handed; HEAD's _diff explicitly "
    "keeps such an unchanged directory entry out of the work list",
    "'hard link' is judged by inode identity with the cache object, whatever other hard links the object has elsewhere",
    "the link-record token is recomputed by the harness from the documented rule of get_mtime_and_size "
    "(md5 of the sorted {path: mtime} JSON for a directory, rounded ns for a file)",
]

TYPE_LISTS = {"copy": ["copy"], "hardlink": ["hardlink"], "symlink": ["symlink"], "reflink+copy": ["reflink", "copy"]}
EFF = {"copy": "copy", "hardlink": "hardlink", "symlink": "symlink", "reflink+copy": "copy"}
TYPE_NAMES = ["hardlink", "copy", "symlink", "reflink+copy", "copy", "symlink", "hardlink"]
# link types of history steps: the two kinds of link to the cache object interact (both are read through stat),
# so they are drawn more often than the independent copy
HIST_TYPES = ["hardlink", "symlink", "copy", "hardlink", "symlink", "reflink+copy", "hardlink", "symlink"]
PROVS = ["loaded", "subtree", "withheld", "built", "loaded", "subtree", "withheld", "loaded"]
DT = st.one_of(
    st.integers(1_000, 5_000).map(lambda x: x),               # microseconds
    st.integers(1_000_000, 10_000_000_000),
    st.integers(-10_000_000_000, -1_000),
)


@st.composite
def edits(draw, is_tree):
    kinds = ["modify", "ln", "delete", "add", "touch", "ln", "add", "delete", "modify"]
    if not is_tree:
        kinds = ["modify", "delete", "touch", "ln", "modify"]
    out = []
    lead = []
    if is_tree and draw(st.sampled_from([True, False, True])):
        # most tree histories open with a modification and an addition/removal (the non-triviality rule)
        lead = ["modify", draw(st.sampled_from(["delete", "add", "delete"]))]
        if draw(st.booleans()):
            lead.reverse()
    if is_tree:
        n = draw(st.sampled_from([2, 1, 3, 4, 0, 5, 6, 3, 2]))
    else:
        # a single-file target is often relinked as it stands (still the L1 link), or after one edit
        n = draw(st.sampled_from([0, 1, 0, 2, 0]))
    for j in range(max(n, len(lead))):
        k = lead[j] if j < len(lead) else draw(st.sampled_from(kinds))
        e = {"op": k, "i": draw(st.integers(0, 30)), "dt": draw(DT)}
        if k in ("modify", "add", "ln"):
            e["content"] = draw(st.one_of(gen.small_contents(), gen.small_contents(), gen.contents(max_size=24)))
        if k == "add":
            e["name"] = draw(st.lists(gen.names(), min_size=1, max_size=3))
        if k == "delete":
            e["prune"] = draw(st.booleans())
        if k == "ln":
            e["how"] = draw(st.sampled_from(["hard", "sym"]))
            e["same"] = draw(st.sampled_from([True, False, True]))
        out.append(e)
    return out


@st.composite
def cases(draw, max_files=8):
    shape = draw(st.sampled_from(["tree", "file", "tree", "tree", "file", "tree", "tree"]))
    case = {"shape": shape}
    if shape == "tree":
        content = draw(st.sampled_from([gen.small_contents(), gen.small_contents(), gen.contents(max_size=32)]))
        case["tree"] = draw(gen.trees(max_files=max_files, max_depth=3, content=content))
    else:
        case["content"] = draw(st.one_of(gen.small_contents(), gen.contents(max_size=32)))
    case["extra"] = draw(st.lists(gen.small_contents(), max_size=2))
    case["kind"] = draw(st.sampled_from(["generic", "local", "local", "generic"]))
    case["state"] = draw(st.sampled_from([True, False, True]))
    case["l1"] = draw(st.sampled_from(TYPE_NAMES))
    case["l2"] = draw(st.sampled_from(TYPE_NAMES[::-1]))
    if EFF[case["l1"]] == EFF[case["l2"]]:
        case["l2"] = draw(st.sampled_from(TYPE_NAMES[2:] + TYPE_NAMES[:2]))  # second chance for a real type change
    case["plan"] = draw(st.sampled_from(["relink-first", "force-first", "force-first"]))
    case["edits"] = draw(edits(shape == "tree"))
    # history steps on the cache between checkouts: an object re-created (same oid and bytes, new inode, added
    # through the store's add path) or missing during an earlier checkout attempt and added afterwards
    case["cache_ops"] = []
    for _ in range(draw(st.sampled_from([0, 1, 0, 2, 1, 0]))):
        case["cache_ops"].append({
            "op": draw(st.sampled_from(["recreate", "missing", "recreate"])),
            "i": draw(st.sampled_from([1, 0, 2, 0, 5, 0, 3])),   # 0 = the object shared by most files
            "when": draw(st.sampled_from(["pre1", "pre3", "mid", "pre3", "pre1"])),
        })
    if any(o["op"] == "recreate" for o in case["cache_ops"]) and draw(st.sampled_from([True, False, True])):
        # a replaced object matters most to files that are hard links to the old inode
        case["l1"] = "hardlink"
        if draw(st.booleans()):
            case["l2"] = "hardlink"
    # a file replaced by a link to an outside file with the same bytes matters most when the configured type is
    # that very kind of link (it must not pass for a link to the cache object)
    foreign = [e["how"] for e in case["edits"] if e["op"] == "ln" and e["same"]]
    if foreign and draw(st.sampled_from([True, False])):
        case["l2"] = "symlink" if foreign[-1] == "sym" else "hardlink"
    # further checkouts of the same (unchanged) object at the workspace path and at a second one, each with its own
    # configured link type, relinking or plain: the object acquires extra hard links / symlinks elsewhere before
    # a path is relinked. A single-file target always gets such a history (it is cheap), a tree often.
    if shape == "file":
        n = draw(st.sampled_from([4, 6, 5, 8, 3, 7]))
    else:
        n = draw(st.sampled_from([0, 3, 0, 4, 2, 5]))
    case["hist"] = [
        {"at": draw(st.sampled_from([1, 0, 0, 1])),
         "type": draw(st.sampled_from(HIST_TYPES)),
         "relink": draw(st.sampled_from([True, False, True, True]))}
        for _ in range(n)
    ]
    # provenance of the target object handed to checkout: loaded from the cache by its hash / the object build()
    # returned, transferred whole / a sub-tree (or file) taken with Tree.get_obj(prefix) out of a bigger cached tree
    # (its own .dir object was never added to the cache) / the built tree whose files were transferred without its
    # own .dir object. In every provenance all FILE objects of the target are cached.
    case["prov"] = draw(st.sampled_from(PROVS))
    if case["prov"] == "withheld" and shape == "file":
        case["prov"] = "built"   # a single file has no directory object to withhold
    if case["prov"] == "subtree":
        case["prefix"] = draw(st.lists(gen.names(), min_size=1, max_size=2))
        case["siblings"] = [
            list(t) for t in draw(st.lists(st.tuples(gen.names(), gen.small_contents()), max_size=2,
                                           unique_by=lambda t: t[0]))
            if t[0] != case["prefix"][0]
        ]
    return case


# ------------------------------------------------------------------------------------------
# observation
# ------------------------------------------------------------------------------------------
def snap_ws(root):
    """{rel: record} for every path below root (root itself as '' when it is not a directory); lstat based."""
    out = {}

    def rec(p, rel):
        lst = os.lstat(p)
        r = {"ino": lst.st_ino, "mtime_ns": lst.st_mtime_ns, "size": lst.st_size, "mode": stat.S_IMODE(lst.st_mode),
             "nlink": lst.st_nlink}
        if stat.S_ISLNK(lst.st_mode):
            r["kind"] = "symlink"
            r["target"] = os.readlink(p)
            try:
                tst = os.stat(p)
                r["bytes"] = ref.read(p) if stat.S_ISREG(tst.st_mode) else None
                r["t_ino"], r["t_mtime_ns"] = tst.st_ino, tst.st_mtime_ns
            except OSError:
                r["bytes"] = None
        elif stat.S_ISREG(lst.st_mode):
            r["kind"] = "file"
            r["bytes"] = ref.read(p)
        elif stat.S_ISDIR(lst.st_mode):
            r["kind"] = "dir"
        else:
            r["kind"] = "other"
        out[rel] = r

    if not os.path.lexists(root):
        return out
    if os.path.islink(root) or not os.path.isdir(root):
        rec(root, "")
        return out
    for r, dnames, fnames in os.walk(root):
        base = "" if r == root else r[len(root) + 1:]
        for n in dnames + fnames:
            rec(os.path.join(r, n), f"{base}/{n}" if base else n)
    return out


def files_of(snap):
    return {rel: r["bytes"] for rel, r in snap.items() if r["kind"] in ("file", "symlink")}


def snap_cache(path):
    out = {}
    for oid, p in ref.walk_store(path)[0].items():
        out[oid] = (ref.read(p), stat.S_IMODE(os.lstat(p).st_mode))
    return out


def cache_diff(before, after, local):
    """-> (sig detail, message) or None"""
    gone = sorted(set(before) - set(after))
    if gone:
        return "object-removed", f"cache object(s) {gone[:3]} disappeared"
    for oid in sorted(before):
        if before[oid][0] != after[oid][0]:
            return "bytes", f"cache object {oid}: {len(before[oid][0])} bytes before, {len(after[oid][0])} after, contents differ"
        if local and before[oid][1] != after[oid][1]:
            return "mode", f"cache object {oid}: mode {oct(before[oid][1])} -> {oct(after[oid][1])}"
    new = sorted(set(after) - set(before))
    if new:
        return "object-added", f"checkout created cache object(s) {new[:3]}"
    return None


def mtime_token(ws):
    """The documented link-record token, recomputed: directory = md5 of sorted {file path: mtime}; file = ns."""
    if not os.path.isdir(ws):
        return str(round(os.stat(ws).st_mtime * 1_000_000_000))
    mt = {}
    for r, _d, fnames in os.walk(ws):
        for n in fnames:
            p = f"{os.path.normpath(r)}{os.sep}{n}"
            try:
                mt[p] = os.stat(p).st_mtime
            except FileNotFoundError:
                continue
    return hashlib.md5(json.dumps(mt, sort_keys=True).encode("utf-8")).hexdigest()  # noqa: S324


def observed_type(r, cache_path):
    """Classify a workspace record against its cache object."""
    if r["kind"] == "symlink":
        ok = os.path.realpath(os.path.join(os.path.dirname(cache_path), r["target"])) == os.path.realpath(cache_path) \
            if not os.path.isabs(r["target"]) else os.path.realpath(r["target"]) == os.path.realpath(cache_path)
        return "symlink" if ok else "symlink-elsewhere"
    if r["kind"] != "file":
        return r["kind"]
    cst = os.lstat(cache_path)
    if r["ino"] == cst.st_ino:
        return "hardlink"
    if r["nlink"] > 1:
        return "hardlink-elsewhere"
    return "copy"


# ------------------------------------------------------------------------------------------
def run_case(case, ctx):
    from dvc_objects.fs.local import LocalFileSystem

    from dvc_data.hashfile import load as oload
    from dvc_data.hashfile.build import build
    from dvc_data.hashfile.checkout import CheckoutError, LinkError, PromptError, checkout
    from dvc_data.hashfile.transfer import transfer
    from dvc_data.hashfile.tree import Tree

    fs = LocalFileSystem()
    is_tree = case["shape"] == "tree"
    prov = case.get("prov", "loaded")
    if prov == "withheld" and not is_tree:
        prov = "built"
    local = case["kind"] == "local"
    l1, l2 = EFF[case["l1"]], EFF[case["l2"]]
    viols = []
    classes = [f"kind={case['kind']}", f"state={'on' if case['state'] else 'off'}", f"{l1}->{l2}",
               f"plan={case['plan']}", f"shape={case['shape']}", f"L2list={case['l2']}", f"prov={prov}"]
    done = {"modify": 0, "delete": 0, "add": 0, "touch": 0, "ln": 0}

    with ctx.tmpdir() as d:
        state = None
        try:
            if case["state"]:
                state = ops.make_state(d, os.path.join(d, "tmp"))
            cache_dir = os.path.join(d, "cache")

            def odb_for(tname):
                cfg = {"type": list(TYPE_LISTS[tname])}
                if state is not None:
                    cfg["state"] = state
                return ops.make_odb(case["kind"], cache_dir, **cfg)

            odb1 = odb_for(case["l1"])
            prefix = tuple(case.get("prefix", ())) if prov == "subtree" else ()
            build_root = os.path.join(d, "src")
            src = os.path.join(build_root, *prefix)   # subtree: the target's files live below <bigger tree>/<prefix>
            if is_tree:
                flat = gen.materialise(case["tree"], src)
            else:
                flat = {"": gen.content_bytes(case["content"])}
                gen.write_file(src, flat[""])
            if prov == "subtree":
                for name, c in case.get("siblings", []):
                    if name != prefix[0]:
                        gen.write_file(os.path.join(build_root, name), gen.content_bytes(c))
            manifest = ref.tree_manifest(flat)
            staging, _meta, obj = build(odb1, build_root, fs, "md5")
            if prov == "withheld":
                # only the files are transferred: the tree's own .dir object stays out of the cache
                res = transfer(staging, odb1, {hi for _k, _m, hi in obj}, shallow=False)
            else:
                res = transfer(staging, odb1, {obj.hash_info}, shallow=False)
            if res.failed:
                raise HarnessError(f"setup transfer failed: {res.failed}")

            def target_for(odb):
                """The target object of this case's provenance, as seen through `odb`."""
                if prov == "loaded":
                    return oload(odb, obj.hash_info)
                if prov in ("built", "withheld"):
                    return obj
                sub = Tree.load(odb, obj.hash_info).get_obj(odb, prefix)
                if sub is None or isinstance(sub, Tree) != is_tree:
                    raise HarnessError(f"get_obj({prefix!r}) did not return the sub-object: {sub!r}")
                return sub
            for i, c in enumerate(case["extra"]):
                p = os.path.join(d, f"extra{i}")
                gen.write_file(p, gen.content_bytes(c))
                ops.stage_transfer(odb1, p)
            cache0 = snap_cache(cache_dir)
            cached_bytes = {b for b, _m in cache0.values()}
            for rel, oid in manifest.items():
                if oid not in cache0 or cache0[oid][0] != flat[rel]:
                    raise HarnessError(f"setup: object for {rel!r} not cached correctly")
            if local:
                bad = [o for o, (_b, m) in cache0.items() if m != 0o444]
                if bad:
                    viols.append(Viol("setup-unprotected", f"objects {bad[:2]} not 0o444 after transfer into a LocalHashFileDB"))
                    return Result(viols, False, classes)

            if is_tree:
                # the premise of the two new provenances: a genuine directory object, every file cached, whose own
                # .dir object is not stored in the cache
                root_oid = target_for(odb1).hash_info.value
                if not root_oid.endswith(".dir"):
                    raise HarnessError(f"directory target without a .dir hash: {root_oid!r}")
                absent = not os.path.lexists(os.path.join(cache_dir, root_oid[:2], root_oid[2:]))
                if absent != (prov in ("subtree", "withheld")):
                    raise HarnessError(f"prov={prov}: target's own .dir object {'absent from' if absent else 'present in'} the cache")
                if absent:
                    classes.append("root-dir-object-not-cached")

            ws = ws1 = os.path.join(d, "ws")

            def cpath(oid):
                return os.path.join(cache_dir, oid[:2], oid[2:])

            # ---- one observed call ---------------------------------------------------------
            def call(label, odb, target, at=None, **kw):
                """Run checkout; apply the per-call clauses (exceptions, cache snapshot, link record)."""
                ws, rel_ws = (at, os.path.basename(at)) if at else (ws1, "ws")
                before = snap_cache(cache_dir)
                try:
                    ret = checkout(ws, fs, target, odb, state=state, **kw)
                except (CheckoutError, LinkError, PromptError) as exc:
                    viols.append(Viol(f"raised:{label}:{type(exc).__name__}",
                                      f"{label} checkout raised {type(exc).__name__}: "
                                      f"{getattr(exc, 'paths', getattr(exc, 'path', ''))}"))
                    return "raised"
                cd = cache_diff(before, snap_cache(cache_dir), local)
                if cd:
                    viols.append(Viol(f"cache-changed:{cd[0]}:{label}", f"{label} checkout: {cd[1]}"))
                if state is not None and (kw.get("relink") or ret):
                    # this call saved a link record: it must describe the workspace as it is now
                    if rel_ws not in state.links:
                        viols.append(Viol(f"link-record-missing:{label}", f"{label} checkout saved no link record"))
                    else:
                        got = tuple(state.links[rel_ws])
                        want = (os.lstat(ws).st_ino, mtime_token(ws))
                        if got != want:
                            which = "inode" if got[0] != want[0] else "mtime-token"
                            viols.append(Viol(f"link-record:{which}:{label}",
                                              f"{label} checkout saved link record {got}, workspace is {want}"))
                return ret

            def check_equal(label, at=None):
                got = files_of(snap_ws(at or ws))
                missing = sorted(set(flat) - set(got))
                extra = sorted(set(got) - set(flat))
                if missing:
                    viols.append(Viol(f"missing:{label}", f"after {label} checkout the workspace lacks {missing[:3]}"))
                if extra:
                    viols.append(Viol(f"extra:{label}", f"after {label} checkout the workspace still has {extra[:3]}"))
                wrong = sorted(k for k in set(got) & set(flat) if got[k] != flat[k])
                if wrong:
                    viols.append(Viol(f"bytes:{label}", f"after {label} checkout {wrong[0]!r} does not hold the target's bytes"))

            cache_touched = [False]

            def check_types(label, want, at=None):
                snap = snap_ws(at or ws)
                seen = set()
                for rel in sorted(flat):
                    r = snap.get(rel)
                    if r is None:
                        continue  # reported by check_equal
                    got = observed_type(r, cpath(manifest[rel]))
                    ok = got == want or (want == "hardlink" and got == "copy" and len(flat[rel]) == 0)
                    if not ok and (want, got) not in seen:
                        seen.add((want, got))
                        viols.append(Viol(f"linktype:want={want}:got={got}:{label}",
                                          f"after {label} checkout {rel!r} is a {got} (nlink={r['nlink']}), configured type is {want}"))
                    # (not judged once the harness replaced a cache object: a former hard link to the replaced
                    # object is an independent file that still carries the old object's mode)
                    if ok and want == "copy" and local and r["mode"] == 0o444 and "ro" not in seen \
                            and not cache_touched[0]:
                        seen.add("ro")
                        viols.append(Viol(f"copy-readonly:{label}", f"after {label} checkout the copy {rel!r} is read-only (0o444)"))

            aux = os.path.join(d, "aux")
            os.mkdir(aux)
            naux = [0]
            refs = {}
            for _rel, _oid in manifest.items():
                refs[_oid] = refs.get(_oid, 0) + 1
            oids = sorted(refs, key=lambda o: (-refs[o], o))  # index 0 = the most shared object

            def drop_object(i):
                cache_touched[0] = True
                oid = oids[i % len(oids)]
                p = cpath(oid)
                data, old_ino = ref.read(p), os.lstat(p).st_ino
                os.unlink(p)
                return oid, data, old_ino

            def add_object(odb, oid, data):
                naux[0] += 1
                tmp = os.path.join(aux, f"re{naux[0]}")
                with open(tmp, "xb") as f:
                    f.write(data)
                odb.add(tmp, fs, oid)  # the store's own add path: same oid, new file, protected
                if ref.read(cpath(oid)) != data:
                    raise HarnessError("re-added cache object does not hold its bytes")

            def cache_ops(when, odb, tgt):
                for o in case.get("cache_ops", []):
                    if o["op"] == "recreate" and when == ("pre3" if o["when"] == "pre1" else o["when"]):
                        oid, data, old_ino = drop_object(o["i"])
                        add_object(odb, oid, data)
                        classes.append(f"cache-object-recreated:{when}")
                        if any(r["kind"] == "file" and r["ino"] == old_ino and r["nlink"] > 1
                               for r in snap_ws(ws).values()):
                            classes.append("ws-hardlinks-share-replaced-object")
                    elif o["op"] == "missing" and when == ("pre3" if o["when"] == "mid" else o["when"]):
                        # a checkout attempt while one object is missing (a refusal / partial result is allowed),
                        # then the object is added and the judged checkouts follow
                        oid, data, _ = drop_object(o["i"])
                        before = snap_cache(cache_dir)
                        try:
                            checkout(ws, fs, tgt, odb, state=state, force=True)
                            classes.append(f"attempt-with-missing-object:{when}:returned")
                        except (CheckoutError, FileNotFoundError) as exc:
                            # the premise "cached target" does not hold for this attempt: any refusal is accepted
                            # (with symlinks, or a single-file target under state, the failure surfaces as
                            # FileNotFoundError instead of CheckoutError - noted, not judged)
                            classes.append(f"attempt-with-missing-object:{when}:{type(exc).__name__}")
                        except (LinkError, PromptError) as exc:
                            viols.append(Viol(f"raised:attempt:{type(exc).__name__}",
                                              f"checkout attempt with a missing object raised {type(exc).__name__}"))
                        cd_ = cache_diff(before, snap_cache(cache_dir), local)
                        if cd_:
                            viols.append(Viol(f"cache-changed:{cd_[0]}:attempt", f"attempt with a missing object: {cd_[1]}"))
                        add_object(odb, oid, data)

            # ---- phase 1: first checkout with L1 -----------------------------------------
            target1 = obj if prov != "subtree" else target_for(odb1)
            cache_ops("pre1", odb1, target1)
            if viols:
                return Result(viols, False, classes)
            # after an attempt that found an object missing the workspace may be partial: converge with force
            if call("initial", odb1, target1, **({"force": True} if cache_touched[0] else {})) == "raised":
                return Result(viols, False, classes)
            check_equal("initial")
            if viols:
                return Result(viols, False, classes)

            # ---- phase 2: edits under the harness clock ----------------------------------
            t_paths = sorted(flat)
            t_dirs = set()
            for rel in flat:
                parts = rel.split("/")
                for i in range(1, len(parts)):
                    t_dirs.add("/".join(parts[:i]))

            def full(rel):
                return os.path.join(ws, *rel.split("/")) if rel else ws

            def triple(p):
                try:
                    s = os.stat(p)
                except OSError:
                    return None
                return (s.st_ino, s.st_mtime_ns, s.st_size)

            def stamp(p, before, dt, base=None):
                """Harness-owned clock: set mtime from the drawn delta and verify the stat triple changed."""
                ref_ns = before[1] if before else (base if base is not None else 1_700_000_000_000_000_000)
                ns = max(1_000_000_000, ref_ns + dt)
                os.utime(p, ns=(ns, ns))
                if before is not None and triple(p) == before:
                    raise HarnessError("clock step did not change the stat triple")

            for e in case["edits"]:
                op = e["op"]
                if op == "add":
                    parts = list(e["name"])
                    rel = "/".join(parts)
                    prefixes = ["/".join(parts[:i]) for i in range(1, len(parts))]
                    p = full(rel)
                    if rel in flat or rel in t_dirs or any(x in flat for x in prefixes):
                        continue  # would disagree in kind with the target
                    if os.path.lexists(p) or any(os.path.lexists(full(x)) and not os.path.isdir(full(x)) for x in prefixes):
                        continue
                    os.makedirs(os.path.dirname(p), exist_ok=True)
                    with open(p, "xb") as f:
                        f.write(gen.content_bytes(e["content"]))
                    stamp(p, None, e["dt"])
                    done["add"] += 1
                    if gen.content_bytes(e["content"]) in cached_bytes:
                        classes.append("added-cached-content")
                    continue
                rel = t_paths[e["i"] % len(t_paths)]
                p = full(rel)
                if not os.path.lexists(p):
                    continue
                before = triple(p)
                if op == "modify":
                    data = gen.content_bytes(e["content"])
                    if data == flat[rel]:
                        continue
                    os.unlink(p)
                    with open(p, "xb") as f:
                        f.write(data)
                    stamp(p, before, e["dt"])
                    done["modify"] += 1
                elif op == "delete":
                    os.unlink(p)
                    done["delete"] += 1
                    if e["prune"] and rel:
                        q = os.path.dirname(p)
                        while q != ws and not os.listdir(q):
                            os.rmdir(q)
                            q = os.path.dirname(q)
                elif op == "touch":
                    lst = os.lstat(p)
                    if stat.S_ISLNK(lst.st_mode) or lst.st_nlink > 1:
                        continue  # would reach into the cache
                    stamp(p, before, e["dt"])
                    done["touch"] += 1
                elif op == "ln":
                    data = flat[rel] if e["same"] else gen.content_bytes(e["content"])
                    naux[0] += 1
                    a = os.path.join(aux, f"f{naux[0]}")
                    with open(a, "xb") as f:
                        f.write(data)
                    stamp(a, None, e["dt"], base=before[1] if before else None)
                    os.unlink(p)
                    if e["how"] == "hard":
                        os.link(a, p)
                    else:
                        os.symlink(a, p)
                    if before is not None and triple(p) == before:
                        raise HarnessError("clock step did not change the stat triple")
                    done["ln"] += 1
                    classes.append(f"ln-{e['how']}-{'same' if e['same'] else 'other'}")
                    if data != flat[rel]:
                        done["modify"] += 1
            cd = cache_diff(cache0, snap_cache(cache_dir), local)
            if cd:
                raise HarnessError(f"harness edits changed the cache: {cd}")

            # ---- phase 3: configured type L2 ---------------------------------------------
            odb2 = odb_for(case["l2"])
            target = target_for(odb2)
            if not is_tree and os.path.lexists(ws):
                r0 = snap_ws(ws).get("")
                if r0 and r0.get("bytes") == flat[""] and (r0["kind"] == "symlink" or r0["nlink"] > 1):
                    # the root entry of a single-file target carries no stat meta in the diff
                    classes.append("single-file-still-linked")
                    if case["l2"] == "copy" and not local:
                        classes.append("single-file-still-linked:[copy]:generic")
            cache_ops("pre3", odb2, target)
            if viols:
                return Result(viols, False, classes)
            def note_foreign_symlinks(snap):
                # for the histogram: a tree entry that holds the target's bytes through a symlink to an outside file
                if is_tree and any(r["kind"] == "symlink" and r.get("bytes") == flat[rel]
                                   and observed_type(r, cpath(manifest[rel])) == "symlink-elsewhere"
                                   for rel, r in snap.items() if rel in flat):
                    classes.append(f"tree-entry-symlink-elsewhere-same-bytes:L2={l2}")

            if case["plan"] == "force-first":
                r = call("forced", odb2, target, force=True)
                if r != "raised":
                    check_equal("forced")
                if not viols:
                    s0 = snap_ws(ws)
                    r = call("repeat", odb2, target, force=True)
                    if r not in (None, "raised"):
                        viols.append(Viol("repeat-not-noop", f"second checkout returned {r!r}, expected None (nothing to do)"))
                    _same_snapshot(viols, s0, snap_ws(ws), "repeat")
                if not viols:
                    cache_ops("mid", odb2, target)
                    # precondition of observation 6.2 #7, for the histogram
                    snap = snap_ws(ws)
                    if any(r["kind"] == "symlink" and os.stat(full(rel)).st_nlink > 1 for rel, r in snap.items()
                           if rel in flat):
                        classes.append("symlink-to-multilinked-object")
                    note_foreign_symlinks(snap)
                    if call("relink", odb2, target, relink=True) != "raised":
                        check_equal("relink")
                        check_types("relink", l2)
                if not viols:
                    if call("relink2", odb2, target, relink=True) != "raised":
                        check_equal("relink2")
                        check_types("relink2", l2)
            else:
                note_foreign_symlinks(snap_ws(ws))
                if call("forced-relink", odb2, target, force=True, relink=True) != "raised":
                    check_equal("forced-relink")
                    check_types("forced-relink", l2)
                if not viols:
                    if call("relink2", odb2, target, force=True, relink=True) != "raised":
                        check_equal("relink2")
                        check_types("relink2", l2)
                if not viols:
                    cache_ops("mid", odb2, target)
                    s0 = snap_ws(ws)
                    r = call("repeat", odb2, target, force=True)
                    if r not in (None, "raised"):
                        viols.append(Viol("repeat-not-noop", f"plain checkout after relinking returned {r!r}, expected None"))
                    _same_snapshot(viols, s0, snap_ws(ws), "repeat")

            # ---- phase 4: a history of further checkouts of the same object at two paths ----
            # every step: forced checkout of the unchanged target at ws or ws2 with a drawn configured type,
            # relinking or plain. The same object thereby gains and loses hard links / symlinks elsewhere
            # before a path is relinked (a single-file object has no other way to get nlink > 1).
            ws2 = os.path.join(d, "ws2")
            for k, stp in enumerate(case.get("hist", []) if not viols else []):
                at = ws2 if stp["at"] else ws1
                other = ws1 if stp["at"] else ws2
                want = EFF[stp["type"]]
                odb_h = odb_for(stp["type"])
                tgt_h = target_for(odb_h)
                label = "hist-relink" if stp["relink"] else "hist-plain"
                pre = snap_ws(at)
                pre_types = {observed_type(pre[rel], cpath(manifest[rel])) for rel in flat if rel in pre}
                if not pre:
                    pre_types = {"absent"}
                multilinked = any(os.lstat(cpath(o)).st_nlink > 1 for o in oids)
                if k == 0:
                    classes.append("hist")
                if stp["relink"]:
                    for t in sorted(pre_types):
                        classes.append(f"hist:{t}->{want}")
                    if "symlink" in pre_types and multilinked:
                        classes.append("hist:symlink-to-multilinked-object")
                        if want == "hardlink":
                            classes.append(f"hist:symlink-to-multilinked-object->hardlink:{case['shape']}")
                    if "copy" in pre_types and multilinked:
                        classes.append("hist:copy-of-multilinked-object")
                o_before = files_of(snap_ws(other))
                r_h = call(label, odb_h, tgt_h, at=at, force=True, relink=stp["relink"])
                if r_h == "raised":
                    break
                check_equal(label, at=at)
                if not stp["relink"] and files_of(pre) == flat:
                    # a plain checkout onto a path that already holds exactly the target: nothing to do
                    classes.append("hist-plain:already-equal")
                    if r_h is not None:
                        viols.append(Viol("repeat-not-noop:hist", f"plain checkout at {os.path.basename(at)!r}, which already "
                                          f"held exactly the target, returned {r_h!r}, expected None (nothing to do)"))
                    _same_snapshot(viols, pre, snap_ws(at), "hist-plain")
                if stp["relink"]:
                    check_types(label, want, at=at)
                if files_of(snap_ws(other)) != o_before:
                    viols.append(Viol(f"other-path-changed:{label}",
                                      f"{label} checkout at {os.path.basename(at)!r} changed files/bytes below "
                                      f"{os.path.basename(other)!r}, where the same object is checked out too"))
                if viols:
                    break
        finally:
            if state is not None:
                state.close()

    for k, v in done.items():
        if v:
            classes.append(f"edit-{k}")
    vals = list(flat.values())
    if len(set(vals)) < len(vals):
        classes.append("dup-content")
    if b"" in vals:
        classes.append("empty-file")
    if any("/" in k for k in flat):
        classes.append("nested")
    nontrivial = bool(done["modify"] and (done["add"] or done["delete"]) and l1 != l2)
    return Result(viols, nontrivial, classes)


def _same_snapshot(viols, a, b, label):
    if set(a) != set(b):
        viols.append(Viol(f"repeat-changed-paths:{label}", f"{label} checkout changed the set of paths: "
                                                            f"{sorted(set(a) ^ set(b))[:3]}"))
        return
    for rel in sorted(a):
        for fld in ("kind", "ino", "mtime_ns", "size", "mode", "target", "bytes"):
            if a[rel].get(fld) != b[rel].get(fld):
                viols.append(Viol(f"repeat-changed:{fld}:{label}",
                                  f"{label} checkout (nothing to do) changed {fld} of {rel!r}: "
                                  f"{_short(a[rel].get(fld))} -> {_short(b[rel].get(fld))}"))
                return


def _short(v):
    return f"<{len(v)} bytes>" if isinstance(v, bytes) else repr(v)


def run(ctx):
    mf = 8 if ctx.tier == "quick" else 16
    ctx.run_given(cases(max_files=mf), run_case, ctx.n(quick=160, thorough=1200))


def replay(case, ctx):
    ctx.exec_case(case, run_case)
