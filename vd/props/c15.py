"""C15 - a crash at any filesystem mutation leaves the store valid, and re-running recovers."""

import os
import shutil
import stat

from hypothesis import strategies as st

from .. import crash, gen, ref
from ..ctx import Failure, Result, Viol, digest

LEVEL = "fault_enumeration"
WORKERS = {"quick": 8, "thorough": 16}
BUDGET_S = {"quick": 110, "thorough": 800}
RULE = (
    "Hypothesis draws a scenario (S1 stage+transfer into a LocalHashFileDB with state, hardlink on/off; "
    "S2 index build->md5->save of nested directories with state, hardlink on/off (odb.add with the existence "
    "filter on; optionally a sub-directory of the data reached through a second filesystem object, so that one "
    "cache is fed in two batches); S3 store->store transfer local cache -> "
    "local remote, closed or expanded request, with/without destination index; S4 upload staging "
    "build(upload=True)+transfer) and a small tree (2-6 files, nested, duplicates, empty file). Run 0 "
    "(forked child, no kill) counts the N filesystem-mutating audit events (open-for-write, rename/replace, "
    "chmod, link, symlink, mkdir, unlink, rmdir, plus one explicit mid-copy point per copy) and gives the "
    "reference final store; then EVERY crash index n in 1..N is executed: child killed with os._exit before "
    "the n-th event, parent audits store+state, child re-runs the operation to completion, parent audits "
    "again. Evaluations = crash points executed. Non-trivial = crash point strictly inside the operation "
    "(1 < n <= N; the first event is the first mutation); distinct = (SHA-1 of scenario JSON, n)."
)
ASSUMPTIONS = [
    "crash points are Python-level mutating calls (CPython audit events) plus one mid-copy point per copy; "
    "a kill inside a single write(2) or inside sqlite's journalling is not modelled (sqlite atomic commit trusted)",
    "files whose names have the tmp_fname() shape are the 'temporary names' the statement allows: counted, never judged",
    "store contents = set of well-formed object ids; reference = the uninterrupted run of the same scenario",
]

SCENARIOS = ["S1", "S1", "S2", "S2", "S3", "S4"]


@st.composite
def cases(draw):
    content = st.one_of(gen.small_contents(), gen.small_contents(), gen.contents(max_size=40))
    tree = draw(gen.trees(max_files=5, max_depth=2, content=content, min_files=1))
    return {
        "scenario": draw(st.sampled_from(SCENARIOS)),
        "tree": tree,
        "hardlink": draw(st.booleans()),
        "index": draw(st.booleans()),
        "form": draw(st.sampled_from(["closed", "expand"])),
        # the target store already holds an overlapping tree (objects shared with the new data)
        "pre": draw(st.sampled_from([False, False, True])),
        # S3 only: a second directory sharing files with the first, transferred in the same call
        "tree2": draw(st.one_of(st.none(), st.none(), gen.trees(max_files=3, max_depth=1, content=gen.small_contents()))),
        "only_n": None,
        "only_m": None,
        "bulk": 0,
        # transfers / adds run with verification on (target store configured verify=True and verify=True passed)
        "verify": draw(st.sampled_from([False, False, True])),
        # S2 only: a sub-directory of the data is mounted through a second filesystem object
        "two_fs": draw(st.sampled_from([False, False, True])),
    }


# ------------------------------------------------------------------------------------------
# the operation (runs in the forked child)
# ------------------------------------------------------------------------------------------
def operation(case, run):
    from dvc_objects.fs.local import LocalFileSystem

    from dvc_data.hashfile.build import build
    from dvc_data.hashfile.db.index import ObjectDBIndex
    from dvc_data.hashfile.db.local import LocalHashFileDB
    from dvc_data.hashfile.hash_info import HashInfo
    from dvc_data.hashfile.state import State
    from dvc_data.hashfile.transfer import transfer
    from dvc_data.index.build import build as ibuild
    from dvc_data.index.save import md5, save

    fs = LocalFileSystem()
    ws = os.path.join(run, "ws")
    sc = case["scenario"]
    vf = bool(case.get("verify"))
    state = State(root_dir=ws, tmp_dir=os.path.join(run, "tmp"))
    try:
        if sc in ("S1", "S4"):
            odb = LocalHashFileDB(fs, os.path.join(run, "cache"), state=state, verify=vf or None)
            staging, _, obj = build(odb, os.path.join(ws, "data"), fs, "md5", upload=(sc == "S4"))
            res = transfer(staging, odb, {obj.hash_info}, shallow=False, verify=vf,
                           hardlink=case["hardlink"] and sc == "S1")
            if res.failed:
                raise RuntimeError(f"transfer failed: {res.failed}")
        elif sc == "S2":
            odb = LocalHashFileDB(fs, os.path.join(run, "cache"), state=state, verify=vf or None)
            idx = ibuild(ws, fs)
            if case.get("two_fs"):
                # the files below the first sub-directory of the data are reached through a SECOND filesystem
                # object (an imported / separately mounted sub-directory): save() groups its work per (cache,
                # filesystem), so one cache is fed in two batches
                from dvc_data.index import FileStorage

                sub = sorted(k for k, v in case["tree"].items() if isinstance(v, dict))
                if sub:
                    idx.storage_map.add_data(FileStorage(("data", sub[0]), LocalFileSystem(),
                                                         os.path.join(ws, "data", sub[0])))
            idx = md5(idx, state=state)
            # hardlink=True reaches odb.add(..., hardlink=True) with the existence filter on (as `dvc add` with
            # a hardlink cache type does); absent key in older cases = copy
            save(idx, odb=odb, **({"hardlink": True} if case.get("hardlink") else {}))
        elif sc == "S3":
            cache = LocalHashFileDB(fs, os.path.join(run, "cache"), state=state)
            remote = LocalHashFileDB(fs, os.path.join(run, "remote"), verify=vf or None)
            with open(os.path.join(run, "request.txt"), encoding="utf-8") as f:
                req = {HashInfo("md5", ln.strip()) for ln in f if ln.strip()}
            kw = {}
            index = None
            if case["index"]:
                index = ObjectDBIndex(os.path.join(run, "idx"), "remote")
                kw["dest_index"] = index
            try:
                res = transfer(cache, remote, req, shallow=case["form"] != "expand", verify=vf, **kw)
            finally:
                if index is not None:
                    index.close()
            if res.failed:
                raise RuntimeError(f"transfer failed: {res.failed}")
    finally:
        state.close()


def make_template(case, tpl):
    """Initial on-disk state, built by the parent once per case."""
    from vd import ops

    ws = os.path.join(tpl, "ws")
    flat = gen.materialise(case["tree"], os.path.join(ws, "data"))
    for j in range(case.get("bulk") or 0):
        # many further small files: status queries, listings and add batches cross their page / batch sizes
        data = b"bulk file %d\n" % j
        gen.write_file(os.path.join(ws, "data", "bulk", f"f{j}"), data)
        flat[f"bulk/f{j}"] = data
    if case["scenario"] == "S2":
        gen.write_file(os.path.join(ws, "top"), b"top-level file\n")
    if case["scenario"] == "S3":
        cache = ops.make_odb("local", os.path.join(tpl, "cache"))
        _, obj, _ = ops.stage_transfer(cache, os.path.join(ws, "data"))
        man = ref.tree_manifest(flat)
        ids = [obj.hash_info.value]
        if case["form"] == "closed":
            ids += sorted(set(man.values()))
        if case.get("tree2"):
            # shares at least one file with the first directory
            t2 = dict(case["tree2"])
            first = sorted(gen.flatten_case(case["tree"]).items())[0]
            t2["shared-with-first"] = "h:" + first[1].hex()
            flat2 = gen.materialise(t2, os.path.join(tpl, "ws2"))
            _, obj2, _ = ops.stage_transfer(cache, os.path.join(tpl, "ws2"))
            ids.append(obj2.hash_info.value)
            if case["form"] == "closed":
                ids += sorted(set(ref.tree_manifest(flat2).values()))
            ids = sorted(set(ids))
        with open(os.path.join(tpl, "request.txt"), "w", encoding="utf-8") as f:
            f.write("\n".join(ids) + "\n")
    if case.get("pre"):
        items = sorted(case["tree"].items())
        pre_tree = dict(items[: max(1, len(items) // 2)])
        pre_tree["zz-extra"] = "p:hello"
        gen.materialise(pre_tree, os.path.join(tpl, "pre-src"))
        tgt = ops.make_odb("local", os.path.join(tpl, "remote" if case["scenario"] == "S3" else "cache"))
        ops.stage_transfer(tgt, os.path.join(tpl, "pre-src"))
    return flat


def target_store(case, run):
    return os.path.join(run, "remote" if case["scenario"] == "S3" else "cache")


# ------------------------------------------------------------------------------------------
# audits (parent)
# ------------------------------------------------------------------------------------------
def state_lies(run, paths):
    """State rows that still validate yet name a hash different from the file's bytes."""
    from dvc_objects.fs.local import LocalFileSystem

    from dvc_data.hashfile.state import State

    tmp = os.path.join(run, "tmp")
    if not os.path.isdir(tmp):
        return []
    fs = LocalFileSystem()
    st_ = State(root_dir=os.path.join(run, "ws"), tmp_dir=tmp)
    lies = []
    try:
        for p in paths:
            if not os.path.isfile(p):
                continue
            _, hi = st_.get(p, fs)
            if hi is None or not hi.value:
                continue
            want = ref.ref_hash(ref.read(p), "md5")
            if hi.name == "md5" and hi.value.split(".")[0] != want:
                lies.append((p, hi.value, want))
    finally:
        st_.close()
    return lies


def all_files(root):
    out = []
    for r, _d, fs_ in os.walk(root):
        for f in fs_:
            out.append(os.path.join(r, f))
    return out


def audit_after_kill(case, run, n, event_hint=""):
    viols = []
    store = target_store(case, run)
    objs, temps, _stray = ref.walk_store(store)
    contents = {}
    mismatching = []
    for oid, p in sorted(objs.items()):
        data = ref.read(p)
        contents[oid] = data
        why = ref.audit_object(oid, data)
        if why:
            mismatching.append(oid)
            mode = stat.S_IMODE(os.lstat(p).st_mode)
            if mode == 0o444:
                viols.append(Viol("kill:protected-mismatch",
                                  f"after kill at event {n}: {why} and the file is write-protected (0o444)"))
    # (c) every intact directory object has all listed ids present
    for oid, data in contents.items():
        if oid.endswith(".dir") and oid not in mismatching:
            lst = ref.parse_listing(data) or []
            missing = sorted({e.get("md5") for e in lst} - set(contents))
            if missing:
                viols.append(Viol("kill:open-directory",
                                  f"after kill at event {n}: directory {oid} present without {missing}"))
    # (b) state rows
    paths = [p for p in objs.values()] + all_files(os.path.join(run, "ws"))
    if case["scenario"] == "S3":
        paths += all_files(os.path.join(run, "cache"))
    for p, got, want in state_lies(run, paths)[:1]:
        viols.append(Viol("kill:state-vouches-wrong-hash",
                          f"after kill at event {n}: state says {os.path.relpath(p, run)} has {got}, bytes hash to {want}"))
    # (d) the next integrity check discards mismatching objects (on a copy of the store)
    if mismatching and not viols:
        from dvc_objects.errors import ObjectFormatError
        from dvc_objects.fs.local import LocalFileSystem

        from dvc_data.hashfile.db.local import LocalHashFileDB

        cp = os.path.join(run, "store-copy")
        shutil.copytree(store, cp, symlinks=True)
        odb = LocalHashFileDB(LocalFileSystem(), cp)
        for oid in mismatching:
            try:
                odb.check(oid)
                viols.append(Viol("kill:check-accepts-mismatch",
                                  f"after kill at event {n}: check() accepts mismatching object {oid}"))
            except (ObjectFormatError, FileNotFoundError):
                if os.path.exists(odb.oid_to_path(oid)):
                    viols.append(Viol("kill:check-keeps-mismatch",
                                      f"after kill at event {n}: check() rejected {oid} but left the file"))
        shutil.rmtree(cp, ignore_errors=True)
    # (e) ... also when that "next integrity check" is the one a transfer runs on its SENDER: the crashed
    # store is used as the source of a store->store transfer of everything it names (closed request);
    # nothing mismatching may arrive in the receiving store
    if mismatching and not viols:
        cp = os.path.join(run, "store-as-sender")
        shutil.copytree(store, cp, symlinks=True)
        recv = os.path.join(run, "receiver")
        ids = sorted(objs)

        def push_on():
            from dvc_objects.fs.local import LocalFileSystem

            from dvc_data.hashfile.db.local import LocalHashFileDB
            from dvc_data.hashfile.hash_info import HashInfo
            from dvc_data.hashfile.state import State
            from dvc_data.hashfile.transfer import transfer

            st_ = State(root_dir=run, tmp_dir=os.path.join(run, "tmp-recv"))
            try:
                fs = LocalFileSystem()
                transfer(LocalHashFileDB(fs, cp), LocalHashFileDB(fs, recv, state=st_),
                         {HashInfo("md5", x) for x in ids}, shallow=True)
            finally:
                st_.close()

        status, _, _ = crash.run_child(push_on, run)
        if not status.startswith(("done", "error")):
            viols.append(Viol("kill:sender-transfer-died", f"after kill at event {n}: follow-up transfer: {status[:200]}"))
        for oid, pth in sorted(ref.walk_store(recv)[0].items()):
            why = ref.audit_object(oid, ref.read(pth))
            if why:
                viols.append(Viol("kill:leftover-sent-on",
                                  f"after kill at event {n}: the store was used as the sender of a transfer and "
                                  f"the receiver now holds a mismatching object: {why}"))
                break
        shutil.rmtree(cp, ignore_errors=True)
        shutil.rmtree(recv, ignore_errors=True)
    return viols, len(temps), len(mismatching)


def audit_final(case, run, ref_ids, label):
    viols = []
    store = target_store(case, run)
    objs, temps, _ = ref.walk_store(store)
    for oid, p in sorted(objs.items()):
        data = ref.read(p)
        why = ref.audit_object(oid, data)
        if why:
            viols.append(Viol(f"{label}:mismatch", f"{label}: {why}"))
        mode = stat.S_IMODE(os.lstat(p).st_mode)
        if mode != 0o444:
            viols.append(Viol(f"{label}:unprotected", f"{label}: object {oid} has mode {oct(mode)}"))
    if ref_ids is not None and set(objs) != ref_ids:
        viols.append(Viol(f"{label}:contents-differ",
                          f"{label}: store holds {sorted(set(objs) - ref_ids)} extra / lacks {sorted(ref_ids - set(objs))} "
                          "compared with the uninterrupted run"))
    paths = list(objs.values()) + all_files(os.path.join(run, "ws"))
    for p, got, want in state_lies(run, paths)[:1]:
        viols.append(Viol(f"{label}:state-vouches-wrong-hash",
                          f"{label}: state says {os.path.relpath(p, run)} has {got}, bytes hash to {want}"))
    return viols, set(objs), len(temps)


def second_level(case, ctx, d, run, n, ref_ids, counters, fail_m):
    """From the state left by the first kill, kill the re-run before each of its events, audit, then let a
    third run finish and audit again."""
    base = os.path.join(d, f"post{n}")
    shutil.copytree(run, base, symlinks=True)
    probe = os.path.join(d, f"post{n}-probe")
    shutil.copytree(base, probe, symlinks=True)
    status, M, _ = crash.run_child(lambda: operation(case, probe), probe)
    shutil.rmtree(probe, ignore_errors=True)
    viols = []
    if status != "done":
        shutil.rmtree(base, ignore_errors=True)
        return viols  # the plain re-run path reports this
    ms = range(1, M + 1) if case.get("only_m") is None else [case["only_m"]]
    if case.get("bulk") and case.get("only_m") is None:
        ms = sorted({m for m in (1, 2, 3, 4, 5, 6, M // 2, M) if 1 <= m <= M})  # sampled, like the first level
    for m in ms:
        if ctx.over_budget() and not ctx.replaying:
            break
        r2 = os.path.join(d, f"post{n}-m{m}")
        shutil.copytree(base, r2, symlinks=True)
        status, _, _ = crash.run_child(lambda r2=r2: operation(case, r2), r2, kill_at=m)
        if status == "killed":
            counters["second_level_crash_points"] = counters.get("second_level_crash_points", 0) + 1
            ctx.evaluations += 1
            v, _t, _m = audit_after_kill(case, r2, f"{n}+{m}")
            if not v:
                status, _, _ = crash.run_child(lambda r2=r2: operation(case, r2), r2)
                if status != "done":
                    v = [Viol("rerun-error", f"third run after kills at events {n} and {m} failed: {status[:600]}")]
                else:
                    v, _, _ = audit_final(case, r2, ref_ids, "rerun")
            if v:
                fail_m[0] = m
                viols = v
        shutil.rmtree(r2, ignore_errors=True)
        if viols:
            break
    shutil.rmtree(base, ignore_errors=True)
    return viols


# ------------------------------------------------------------------------------------------
def run_case(case, ctx):  # noqa: C901
    with ctx.tmpdir() as d:
        tpl = os.path.join(d, "tpl")
        os.makedirs(tpl)
        flat = make_template(case, tpl)
        from vd.ctx import reset_globals

        reset_globals()

        def fresh(name):
            run = os.path.join(d, name)
            shutil.copytree(tpl, run, symlinks=True)
            return run

        # run 0: uninterrupted
        run0 = fresh("run0")
        status, N, trace = crash.run_child(lambda: operation(case, run0), run0, trace=bool(case.get("bulk")))
        if status != "done":
            return Result([Viol("run0-error", f"uninterrupted run failed: {status[:600]}")])
        viols, ref_ids, _ = audit_final(case, run0, None, "uninterrupted")
        # independent expectation for the single-directory scenarios
        man = ref.tree_manifest(flat)
        if case["scenario"] in ("S1", "S3", "S4"):
            want = set(man.values()) | {ref.ref_tree_oid(man)}
            if case.get("pre"):
                want |= ref.store_ids(target_store(case, tpl))
            if case["scenario"] == "S3" and case.get("tree2"):
                want = None  # two directories: the uninterrupted run is the reference
            if want is None:
                pass
            elif ref_ids != want:
                viols.append(Viol("uninterrupted:contents-differ",
                                  f"uninterrupted run left {sorted(ref_ids)} expected {sorted(want)}"))
            want = ref_ids
            if ref_ids != want:
                viols.append(Viol("uninterrupted:contents-differ",
                                  f"uninterrupted run left {sorted(ref_ids)} expected {sorted(want)}"))
        if viols:
            return Result(viols)
        shutil.rmtree(run0, ignore_errors=True)

        counters = {"crash_points": 0, "temp_leftovers": 0, "mismatching_unprotected_after_kill": 0,
                    "events_in_run0": N}
        ns = range(1, N + 1) if case.get("only_n") is None else [case["only_n"]]
        if case.get("bulk") and case.get("only_n") is None:
            # thousands of events: kill around every creation of a non-temporary name (link probes, directory
            # objects, index files), at the first events, in the middle and at the end - not at every event
            hot = [i + 1 for i, ch in enumerate(trace or "") if ch == "O"]
            pick = set()
            for h in hot[:3] + hot[-2:]:
                pick.update((h, h + 1, h + 2))
            pick.update((2, N // 2, N))
            ns = sorted(n for n in pick if 1 <= n <= N)
        sdig = digest({k: v for k, v in case.items() if k not in ("only_n", "only_m")})
        fail_m = [None]
        for n in ns:
            if ctx.over_budget() and not ctx.replaying:
                ctx.skipped += 1
                break
            run = fresh(f"run{n}")
            status, _, _ = crash.run_child(lambda run=run: operation(case, run), run, kill_at=n)
            if status == "done":
                # fewer events than run 0 (thread timing): nothing to audit
                shutil.rmtree(run, ignore_errors=True)
                continue
            if status != "killed":
                return Result([Viol("child-error", f"run killed at {n} failed otherwise: {status[:600]}")],
                              counters=counters)
            counters["crash_points"] += 1
            ctx.evaluations += 1
            if n > 1:
                ctx.digests.add(digest([sdig, n]))
                if len(ctx.samples) < 3 and n in (2, N // 2, N):
                    ctx.samples.append({"scenario": {k: v for k, v in case.items() if k != "only_n"},
                                        "killed_before_event": n, "events_in_uninterrupted_run": N})
            v1, ntemps, nmis = audit_after_kill(case, run, n)
            counters["temp_leftovers"] += ntemps
            counters["mismatching_unprotected_after_kill"] += nmis
            v2 = []
            if not v1 and nmis and case.get("only_m") is None and not ctx.replaying or \
                    (not v1 and case.get("only_m") is not None):
                # a mismatching leftover exists: the re-run's own healing may be interrupted too.
                # Enumerate every crash point m of the RE-RUN from this post-kill state (second-level kills).
                v2 = second_level(case, ctx, d, run, n, ref_ids, counters, fail_m)
            if not v1 and not v2:
                status, _, _ = crash.run_child(lambda run=run: operation(case, run), run)
                if status != "done":
                    v2 = [Viol("rerun-error", f"re-run after kill at event {n} failed: {status[:800]}")]
                else:
                    v2, _, _ = audit_final(case, run, ref_ids, "rerun")
            shutil.rmtree(run, ignore_errors=True)
            if v1 or v2:
                unknown = ctx.split_known(v1 + v2)
                if unknown:
                    fcase = dict(case, only_n=n)
                    if fail_m[0] is not None:
                        fcase["only_m"] = fail_m[0]
                    ctx.failure = {"case": fcase, "violations": [v.to_json() for v in unknown]}
                    ctx.note(case, Result(classes=[f"scenario={case['scenario']}"], counters=counters))
                    raise Failure("; ".join(f"[{v.sig}] {v.msg}" for v in unknown))
        cl = [f"scenario={case['scenario']}"] + gen.tree_traits(case["tree"])
        if case["scenario"] in ("S1", "S2") and case["hardlink"]:
            cl.append("hardlink")
            cl.append("hardlink:" + case["scenario"])
        if case["scenario"] == "S2" and case.get("two_fs") and any(isinstance(v, dict) for v in case["tree"].values()):
            cl.append("S2:data-on-two-filesystem-objects")
        if case.get("pre"):
            cl.append("target-prepopulated")
        if case.get("verify"):
            cl.append("verify-on")
        if case.get("bulk"):
            cl.append("bulk(>1000 files, sampled crash points)")
        if case["scenario"] == "S3" and case.get("tree2"):
            cl.append("two-dirs-sharing-a-file")
        if case["scenario"] == "S3":
            cl += [f"form={case['form']}", "dest-index" if case["index"] else "no-index"]
        # one digest for the scenario itself so samples show up
        return Result([], nontrivial=N > 2, classes=cl, counters=counters)


# canonical scenarios: run first in every tier (sharded over the workers) so that each scenario family
# and the shapes the property names are enumerated even by the small quick tier
_T = {"a": "p:A", "sub": {"b": "p:B", "c": "p:A"}, "e": "p:empty"}
_U = {"a": "p:A", "sub": {"b": "p:B", "c": "p:C"}}
CANON = [
    {"scenario": "S1", "tree": _T, "hardlink": False, "index": False, "form": "closed", "pre": False, "tree2": None},
    {"scenario": "S1", "tree": _T, "hardlink": True, "index": False, "form": "closed", "pre": True, "tree2": None},
    {"scenario": "S2", "tree": _T, "hardlink": False, "index": False, "form": "closed", "pre": False, "tree2": None},
    {"scenario": "S2", "tree": _U, "hardlink": True, "index": False, "form": "closed", "pre": False, "tree2": None},
    {"scenario": "S2", "tree": _U, "hardlink": False, "index": False, "form": "closed", "pre": False, "tree2": None,
     "two_fs": True},
    {"scenario": "S2", "tree": {"d": {"d": {"x": "p:crlf"}}, "y": "p:hello"}, "hardlink": False, "index": False,
     "form": "closed", "pre": True, "tree2": None},
    {"scenario": "S3", "tree": _T, "hardlink": False, "index": True, "form": "expand", "pre": False,
     "tree2": {"z": "p:C"}},
    {"scenario": "S3", "tree": _T, "hardlink": False, "index": False, "form": "closed", "pre": False,
     "tree2": {"z": "p:A", "w": {"q": "p:B"}}},
    {"scenario": "S3", "tree": {"a": "p:A"}, "hardlink": False, "index": True, "form": "closed", "pre": True,
     "tree2": None},
    {"scenario": "S4", "tree": _T, "hardlink": False, "index": False, "form": "closed", "pre": False, "tree2": None},
    # the same four families over a tree WITHOUT an empty file: whichever object an add batch places first,
    # an empty leftover under its final name mismatches (the empty file's own leftover would be "correct")
    {"scenario": "S1", "tree": _U, "hardlink": False, "index": False, "form": "closed", "pre": False, "tree2": None},
    {"scenario": "S2", "tree": _U, "hardlink": False, "index": False, "form": "closed", "pre": False, "tree2": None},
    {"scenario": "S3", "tree": _U, "hardlink": False, "index": True, "form": "closed", "pre": False, "tree2": None},
    {"scenario": "S4", "tree": _U, "hardlink": False, "index": False, "form": "closed", "pre": False, "tree2": None},
    # index save of a directory with two sibling sub-directories (order of file vs directory-object writes)
    {"scenario": "S2", "tree": {"s1": {"a": "p:A"}, "s2": {"b": "p:B", "c": "p:C"}, "top": "p:hello"},
     "hardlink": False, "index": False, "form": "closed", "pre": False, "tree2": None},
    # verification on (the verifying paths answer existence / integrity questions differently)
    {"scenario": "S1", "tree": _U, "hardlink": False, "index": False, "form": "closed", "pre": False, "tree2": None,
     "verify": True},
    {"scenario": "S3", "tree": _U, "hardlink": False, "index": False, "form": "expand", "pre": False, "tree2": None,
     "verify": True},
    # > 1000 files in one directory (page / batch sizes of listings and status queries); crash points sampled
    {"scenario": "S1", "tree": {"a": "p:A"}, "hardlink": False, "index": False, "form": "closed", "pre": False,
     "tree2": None, "bulk": 1003},
]


def run(ctx):
    ctx.evaluations_are_crash_points = True
    from ..ctx import Failure

    for i, c in enumerate(CANON):
        if i % ctx.nworkers == ctx.worker % len(CANON) or ctx.nworkers > len(CANON) and i == ctx.worker % len(CANON):
            try:
                ctx.exec_case(dict(c, only_n=None, only_m=None), run_case)
            except Failure:
                return
    ctx.run_given(cases(), run_case, ctx.n(quick=2, thorough=60))


def replay(case, ctx):
    ctx.exec_case(case, run_case)
