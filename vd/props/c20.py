"""C20 - index and entry serialisation round-trips.

Forms: Meta / HashInfo / DataIndexEntry <-> dict (also through a JSON text), write_json/read_json,
write_db/read_db (diskcache), DataIndex.open(path) -> set -> commit -> close -> reopen (sqltrie's SQLite
trie behind DataIndexTrie), Tree.as_list(with_meta=True) / as_bytes(with_meta=True) -> from_list(hash_name).

The oracle never calls the code's own to_dict(): the expected projection is computed from the generated
spec (constructor arguments) with the documented emission rule, the observed projection is read attribute
by attribute from the objects that come back.
"""

import json
import os

from hypothesis import strategies as st

from .. import gen
from ..ctx import Result, Viol

LEVEL = "exploration"
WORKERS = {"quick": 8, "thorough": 16}
BUDGET_S = {"quick": 50, "thorough": 650}
RULE = (
    "Hypothesis draws 1-8 entry specs: key (0-4 parts for the SQLite form incl. the empty root key, >=1 "
    "for the '/'-joined forms; parts non-empty, '/'- and NUL-free, from a pool with non-ASCII, quotes, "
    "spaces, %, braces, backslash, newline, SQL/str.format fragments, case twins, directory entries on "
    "proper prefixes, duplicates = overwrites), Meta constructor arguments (any subset of the 9 serialised "
    "fields with falsy values: size 0, nfiles 0, isexec/isdir False, empty strings, 2^63-1; sometimes "
    "unserialised fields inode/mtime/nlink), HashInfo (names md5, md5-dos2unix, sha256, etag, checksum, "
    "None/''; values hex, hex.dir, etag-like, ''/None; obj_name), loaded in {None, True, False}, the provenance of the entry object's own key attribute (the mapping key, "
    "None, another existing key, a key stored nowhere; the same entry object stored under a second key; "
    "index[new] = index.pop(old)) - the index must come back under the MAPPING keys; plus "
    "deletions, rewrites of a key with an entry that differs from the stored one ONLY in Meta.remote (the "
    "one field that is serialised but declared eq=False, so both entries compare equal), 'fetch the entry, "
    "mutate one serialised field in place, store it again under its key' steps, the forms to run and, for "
    "SQLite, a split into two sessions (reopen and continue writing; rewrites fall in the same or the next "
    "session); removals of whole subtrees: delete_node on a proper prefix of a key of the history (or on the "
    "key itself) through the handle that stored the keys - model: the key and everything below it is gone - "
    "in the same or the next session than the stores, followed by further stores (the removed node itself, "
    "its direct children, keys elsewhere). "
    "Oracle: expected projection (key, serialised meta fields, {name: value}, loaded) computed from the "
    "spec by the documented rule (size/nfiles when not None, the other fields when truthy) versus the "
    "projection read attribute-wise from what comes back; key sets equal, entries equal one by one; in about half of the SQLite cases the program also takes a view at a drawn prefix "
    "(DataIndex.view: a second handle with its own identity cache on the SAME SQLite connection), writes / "
    "deletes 0-4 entries in a row through it (reserved key names, so no key is STORED through two "
    "handles; the view prefix is drawn or cut from a key of the history, and removals also go across handles: "
    "`del view[k]` of a key the parent handle stored, view.delete_node(n) above keys of either handle, "
    "delete_node through the parent above keys the view stored), issues explicit commits through the parent or the view before / after, and ends each session "
    "with a commit through a drawn handle; every write is thus followed by a commit on some handle of the "
    "connection and must be durable: the reopened index must equal the model and what the open parent "
    "handle reported (by iteration, which does not commit) right before close; in the other "
    "half of the SQLite cases the last session also registers an ObjectStorage over a store holding "
    "hand-written .dir objects, adds 1-2 unloaded directory entries (isdir + .dir hash, loaded None/False), "
    "triggers the lazy load through iteritems / iteritems(prefix) / __getitem__ or info of a child / ls / "
    "load (or leaves it to the final iteration), commits, and the reopened index (no storage) must equal, key "
    "by key incl. the materialised children and the loaded flags, what the open handle reported right before "
    "close; a key removed by any of these routes (exact key, ancestor node, other handle) must stay removed "
    "after commit / close / reopen - same key set as the model and as the open handle reported, so an entry "
    "that only survives in a handle's identity cache must not come back; the "
    "SQLite form is read before close (through the identity cache, by iteration and by lookup) and after "
    "reopen; a listing with metadata (per entry the Meta field named like the hash - md5/etag/checksum - is "
    "drawn absent, equal to or different from the hash value) must parse back (given its hash name) to the "
    "same keys, hashes and metadata, and re-serialise to the same list/bytes. Non-trivial = some surviving entry has >=2 "
    "serialised optional fields or a falsy-valued field, and some key part is outside [A-Za-z0-9]; "
    "distinct = SHA-1 of the canonical case JSON."
)
ASSUMPTIONS = [
    "key parts are non-empty strings without '/' and NUL; sizes are < 2^63 (file sizes; orjson's integer range)",
    "serialised Meta fields are isdir, size, nfiles, isexec, version_id, etag, checksum, md5, remote; "
    "size/nfiles are emitted when not None, the others when truthy (meta.py to_dict as documented in the anchor)",
    "Meta() and a missing meta, HashInfo without name or value and a missing hash are equal on the projection",
    "delete_node histories: the root node is never deleted (the trie cannot be used afterwards) and a node is "
    "only deleted when the model has a key at or below it (a missing node is a KeyError, not a serialisation "
    "matter). After delete_node(K), stores in the SAME session below K are left out of the history (not "
    "executed, not modelled; class 'sqlite:write-below-deleted-node-left-out') unless they go through the "
    "deleting handle to a direct child of K: sqltrie's SQLiteTrie keeps a per-handle key -> row-id memo "
    "(_ids) of which delete_node forgets K only, so on the unchanged tree `index[K + (a, b)] = e` after "
    "`index.delete_node(K)` (with K + (a,) known before) files the row under the unreachable old node and the "
    "store is lost at once - the OPEN index already lacks the key, nothing is lost by serialising, and the "
    "memo lives in the third-party package, not in /repo. The next session (fresh handles) stores anywhere",
    "parent handle and view share one SQLite table: a key removed through either handle is removed from the "
    "index, and stays removed after commit / close / reopen, whichever handle stored it. What a handle that "
    "still holds the removed entry in its identity cache answers to a LOOKUP of that key is cross-handle "
    "coherence, not serialisation, and is not judged (sessions with a view are read by iteration only); a key "
    "is never STORED through two handles",
    "listings with metadata: every entry has a Meta and a truthy hash of the tree's hash name, and the hash name "
    "is one that Meta carries (md5, md5-dos2unix, etag, checksum). The listing merges the hash and the Meta field of "
    "that name into one JSON member and the hash wins: the hash must survive; a Meta value of that name that differs "
    "from the hash is not preserved by the unchanged code and is therefore not judged (equal or absent: it reads "
    "back as the hash value)",
]

NOTNONE = ("size", "nfiles")
TRUTHY = ("isdir", "isexec", "version_id", "etag", "checksum", "md5", "remote")
SERIALISED = NOTNONE + TRUTHY
TREE_HASH_NAMES = ["md5", "md5-dos2unix", "etag", "checksum"]


# ------------------------------------------------------------------------------------------
# reference projections
# ------------------------------------------------------------------------------------------
def _keep(field, v):
    return (v is not None) if field in NOTNONE else bool(v)


def ref_meta(ms):
    if ms is None:
        return {}
    return {f: v for f, v in ms.items() if f in SERIALISED and _keep(f, v)}


def obs_meta(m):
    if m is None:
        return {}
    return {f: getattr(m, f) for f in SERIALISED if _keep(f, getattr(m, f))}


def ref_hi(hs):
    if hs is None or not hs[0] or not hs[1]:
        return {}
    return {hs[0]: hs[1]}


def obs_hi(h):
    if h is None or not h.name or not h.value:
        return {}
    return {h.name: h.value}


def typed(d):
    return {k: (type(v).__name__, v) for k, v in d.items()}


def build_meta(ms):
    from dvc_data.hashfile.meta import Meta

    return None if ms is None else Meta(**ms)


def build_hi(hs):
    from dvc_data.hashfile.hash_info import HashInfo

    return None if hs is None else HashInfo(*hs)


def build_entry(spec):
    from dvc_data.index import DataIndexEntry

    # provenance of the entry's own key attribute: absent = the mapping key, null = None, a list = that key
    if "ekey" in spec:
        own = None if spec["ekey"] is None else tuple(spec["ekey"])
    else:
        own = tuple(spec["key"])
    return DataIndexEntry(key=own, meta=build_meta(spec["meta"]),
                          hash_info=build_hi(spec["hash"]), loaded=spec["loaded"])


def loose_key(spec):
    """The entry object's own key attribute may differ from the key it is stored under (drawn provenance,
    alias, rename). Readers set it from the stored key; an open handle returns the object as it is."""
    return "ekey" in spec or spec.get("_loosekey", False)


def expected_proj(spec):
    return (typed(ref_meta(spec["meta"])), ref_hi(spec["hash"]), spec["loaded"])


def compare_entry(form, key, spec, entry, viols, open_handle=False):
    """Compare one entry that came back against its spec; append violations. Entries that come back from a
    reader (read_json, read_db, the SQLite loader) carry the key they are stored under; objects handed back
    by an open handle keep their own key attribute, which is only checked when it was the mapping key."""
    em, eh, el = expected_proj(spec)
    if entry is None:
        viols.append(Viol(f"{form}:entry-none", f"{form}: key {key!r} came back without an entry"))
        return
    om = typed(obs_meta(entry.meta))
    if om != em:
        field = sorted(set(em) ^ set(om) | {f for f in em if f in om and em[f] != om[f]})[0]
        viols.append(Viol(f"{form}:meta:{field}",
                          f"{form}: metadata of {key!r} changed in the round trip: wrote {em}, read {om}"))
    oh = obs_hi(entry.hash_info)
    if oh != eh:
        viols.append(Viol(f"{form}:hash", f"{form}: hash of {key!r} changed: wrote {eh}, read {oh}"))
    ol = entry.loaded
    if not (ol is el or (isinstance(ol, bool) and isinstance(el, bool) and ol == el)):
        viols.append(Viol(f"{form}:loaded", f"{form}: loaded flag of {key!r} changed: wrote {el!r}, read {ol!r}"))
    if entry.key != key and not (open_handle and loose_key(spec)):
        viols.append(Viol(f"{form}:entry-key", f"{form}: entry stored under {key!r} carries key {entry.key!r}"))


def compare_index(form, model, got, viols, open_handle=False):
    """model: {key: spec}; got: {key: entry}"""
    mk, gk = set(model), set(got)
    if mk != gk:
        viols.append(Viol(f"{form}:keys",
                          f"{form}: key set changed: missing {sorted(mk - gk)}, extra {sorted(gk - mk)}"))
    for key in sorted(mk & gk):
        compare_entry(form, key, model[key], got[key], viols, open_handle)


# ------------------------------------------------------------------------------------------
# arms
# ------------------------------------------------------------------------------------------
def arm_dicts(model, viols):
    """Meta / HashInfo / DataIndexEntry <-> dict, directly and through JSON text."""
    from dvc_data.hashfile.hash_info import HashInfo
    from dvc_data.hashfile.meta import Meta
    from dvc_data.index import DataIndexEntry

    for key, spec in sorted(model.items()):
        if spec["meta"] is not None:
            m = build_meta(spec["meta"])
            d = m.to_dict()
            for label, dd in (("meta-dict", d), ("meta-dict-json", json.loads(json.dumps(d)))):
                om = typed(obs_meta(Meta.from_dict(dd)))
                em = typed(ref_meta(spec["meta"]))
                if om != em:
                    field = sorted(set(em) ^ set(om) | {f for f in em if f in om and em[f] != om[f]})[0]
                    viols.append(Viol(f"{label}:meta:{field}",
                                      f"Meta(**{spec['meta']}) -> {d} -> back: expected {em}, got {om}"))
        if spec["hash"] is not None:
            h = build_hi(spec["hash"])
            d = h.to_dict()
            oh = obs_hi(HashInfo.from_dict(json.loads(json.dumps(d))))
            if oh != ref_hi(spec["hash"]):
                viols.append(Viol("hash-dict:hash", f"HashInfo{tuple(spec['hash'])} -> {d} -> back gives {oh}"))
        e = build_entry(spec)
        d = e.to_dict()
        for label, dd in (("entry-dict", d), ("entry-dict-json", json.loads(json.dumps(d)))):
            e2 = DataIndexEntry.from_dict(dd)
            e2.key = key  # the key is not part of the dictionary form
            compare_entry(label, key, spec, e2, viols)


def mem_index(model, order):
    from dvc_data.index import DataIndex

    index = DataIndex()
    objs = {}
    for key in order:
        spec = model[key]
        tok = spec.get("_obj", key)
        if tok not in objs:
            objs[tok] = build_entry(spec)
        index[key] = objs[tok]   # not index.add(): that files the entry under its own key attribute
    return index


def arm_json(model, order, d, viols):
    from dvc_data.index import read_json, write_json

    path = os.path.join(d, "index.json")
    write_json(mem_index(model, order), path)
    got = dict(read_json(path).iteritems())
    compare_index("json", model, got, viols)


def arm_db(model, order, d, viols):
    from dvc_data.index import read_db, write_db

    path = os.path.join(d, "index.db")
    write_db(mem_index(model, order), path)
    got = dict(read_db(path).iteritems())
    compare_index("db", model, got, viols)


def mutate_entry(entry, field, value):
    from dvc_data.hashfile.meta import Meta

    if field == "loaded":
        entry.loaded = value
    elif entry.meta is None:
        entry.meta = Meta(**{field: value})
    else:
        setattr(entry.meta, field, value)


def mutated_spec(spec, field, value):
    if field == "loaded":
        return dict(spec, loaded=value)
    return dict(spec, meta={**(spec["meta"] or {}), field: value})


VIEW_OPS = ("view", "vset", "vdel", "vdelkey", "vdelnode", "commit")


def under(key, prefix):
    """key lies at or below prefix"""
    return key[:len(prefix)] == prefix


def unsafe_write(state, handle, full):
    """After delete_node(K) the handle that ran it has forgotten the row id of K only, every other handle has
    forgotten nothing (sqltrie keeps a per-handle key -> row id memo for the session): a later write in the
    SAME session below K can be filed under a row that is no longer reachable and is lost before any
    serialisation happens. That is no statement of C20 (see ASSUMPTIONS): such writes are not part of a
    history. Safe below K: direct children of K written through the deleting handle. K itself is always safe."""
    for node, deleter in state.get("poison", ()):
        depth = len(full) - len(node)
        if depth >= 1 and under(full, node) and not (deleter == handle and depth == 1):
            return True
    return False


def drop_subtree(model, node, state):
    """Model of delete_node: the key and everything below it go away. Returns the removed keys."""
    gone = sorted(k for k in model if under(k, node))
    for k in gone:
        del model[k]
        state.setdefault("shared", set()).discard(k)
        state.setdefault("vkeys", set()).discard(k)
    return gone


def view_full_key(state, op):
    """Full key of a write through the current view, or None when no view prefix is known yet."""
    if state.get("prefix") is None:
        return None
    return (*state["prefix"], *op["name"])


def get_view(index, state):
    """The handle of the current view (a second DataIndex on the same SQLite connection); re-taken lazily in
    a new session."""
    if state.get("prefix") is None:
        return None
    if state.get("view") is None:
        state["view"] = index.view(state["prefix"])
    return state["view"]


def apply_ops(index, ops, model, state=None):
    state = state if state is not None else {}
    vkeys = state.setdefault("vkeys", set())
    poison = state.setdefault("poison", [])          # [(full key of a deleted node, deleting handle)], per session
    fresh = state.setdefault("fresh", set())         # {(handle, full key)} stored through that handle this session
    classes = state.setdefault("classes", [])
    for op in ops:
        kind = op["op"]
        if kind == "view":
            state["prefix"] = tuple(op["prefix"])
            state["view"] = index.view(state["prefix"])
            continue
        if kind == "commit":
            view = get_view(index, state) if op["via"] == "view" else None
            (view if view is not None else index).commit()
            continue
        if kind in ("vset", "vdel", "vdelkey", "vdelnode"):
            view = get_view(index, state)
            if view is None:
                continue
            name, full = tuple(op["name"]), view_full_key(state, op)
            if kind == "vset":
                if unsafe_write(state, "view", full):
                    classes.append("sqlite:write-below-deleted-node-left-out")
                    continue
                view[name] = build_entry(dict(op, key=list(name)))   # keys are relative to the view's prefix
                model[full] = dict(op, op="set", key=list(full))
                vkeys.add(full)
                fresh.add(("view", full))
            elif kind == "vdelnode":
                # delete_node through the view: the subtree goes away, whoever stored its keys
                gone = [k for k in model if under(k, full)]
                if gone:
                    classes.append("sqlite:view-delete-node")
                    if any(k not in vkeys for k in gone):
                        classes.append("sqlite:view-delete-node:removes-parent-keys")
                    if any(("parent", k) in fresh for k in gone):
                        classes.append("sqlite:view-delete-node:removes-keys-the-parent-stored-this-session")
                    view.delete_node(name)
                    drop_subtree(model, full, state)
                    poison.append((full, "view"))
            elif full in model and (full in vkeys or kind == "vdelkey"):
                if full not in vkeys:
                    classes.append("sqlite:view-deletes-parent-key")
                    if ("parent", full) in fresh:
                        classes.append("sqlite:view-deletes-key-the-parent-stored-this-session")
                del view[name]
                del model[full]
                vkeys.discard(full)
                state.setdefault("shared", set()).discard(full)
            continue
        key = tuple(op["key"])
        shared = state.setdefault("shared", set())
        if kind == "delnode":
            # delete_node on an ancestor (or the key itself): the whole subtree goes away
            gone = [k for k in model if under(k, key)]
            if key and gone:
                classes.append("sqlite:delete-node")
                if any(k != key for k in gone):
                    classes.append("sqlite:delete-node:removes-descendants")
                if any(k != key and ("parent", k) in fresh for k in gone):
                    classes.append("sqlite:delete-node:removes-descendants-stored-this-session")
                if any(k in vkeys for k in gone):
                    classes.append("sqlite:delete-node:removes-view-keys")
                index.delete_node(key)
                drop_subtree(model, key, state)
                poison.append((key, "parent"))
            continue
        if kind in ("set", "mutate", "alias", "rename") and unsafe_write(state, "parent", key):
            classes.append("sqlite:write-below-deleted-node-left-out")
            continue
        if kind in ("alias", "rename"):
            src = tuple(op["src"])
            if src not in model or src == key:
                continue
            if kind == "alias":
                # the same entry object stored under a second key; its own key attribute is not rewritten
                entry = index[src]
                index[key] = entry
                model[key] = dict(model[src], key=list(key), _loosekey=True)
                shared.update((src, key))
                fresh.add(("parent", key))
            else:
                # rename that reuses the entry object
                index[key] = index.pop(src)
                model[key] = dict(model.pop(src), key=list(key), _loosekey=True)
                fresh.add(("parent", key))
                if src in shared:
                    shared.discard(src)
                    shared.add(key)
            continue
        if kind == "set":
            index[key] = build_entry(op)
            model[key] = op
            shared.discard(key)
            fresh.add(("parent", key))
        elif kind == "mutate":
            if key in model and key not in shared:   # (mutating an object stored under two keys is aliasing,
                #                                       not serialisation: the other key's row is not rewritten)
                # fetch the entry, change one serialised field in place, store it again under its key
                entry = index[key]
                mutate_entry(entry, op["field"], op["value"])
                index[key] = entry
                model[key] = mutated_spec(model[key], op["field"], op["value"])
                fresh.add(("parent", key))
        elif key in model:
            del index[key]
            del model[key]
            shared.discard(key)


def read_open_index(index):
    got = dict(index.iteritems())
    by_lookup = {}
    for key in got:
        by_lookup[key] = index[key]
    return got, by_lookup


LAZY_OIDS = {"1": "c157a79031e1c40f85931829bc5fc552", "2": "d41d8cd98f00b204e9800998ecf8427e",
             "3": "acbd18db4cc2f85cedef654fccc4a4d8"}
LAZY_TRIGGERS = ["iteritems", "iteritems-prefix", "getitem-child", "info-child", "ls", "ls-names", "load", "none"]


def lazy_dir_key(n, spec):
    return (*spec["prefix"], f"lzd{n}")


def lazy_listing_bytes(rows):
    """The stored directory object, written by hand: sorted rows, sorted members (optionally with size/isexec)."""
    items = []
    for rel, tok, extra in sorted(rows, key=lambda r: "/".join(r[0])):
        items.append(json.dumps({**extra, "md5": LAZY_OIDS[tok], "relpath": "/".join(rel)}, sort_keys=True))
    return ("[" + ", ".join(items) + "]").encode("utf-8")


def snapshot(index):
    """Projection of every entry as read attribute-wise through a handle: {key: (meta, hash, loaded, own key)}"""
    return {key: (typed(obs_meta(e.meta)), obs_hi(e.hash_info), e.loaded, e.key)
            for key, e in index.iteritems()}


def lazy_phase(index, lazy, d, classes):
    """Register object storage, add unloaded directory entries whose listings are in the store, trigger the
    lazy load through the drawn entry point, commit. Returns the observation through the open handle."""
    import hashlib

    from .. import ops as vops
    from dvc_data.hashfile.hash_info import HashInfo
    from dvc_data.hashfile.meta import Meta
    from dvc_data.index import DataIndexEntry, ObjectStorage

    root = os.path.join(d, "lazy-odb")
    odb = vops.make_odb(lazy.get("store", "generic"), root)
    for n, spec in enumerate(lazy["dirs"]):
        key = lazy_dir_key(n, spec)
        data = lazy_listing_bytes(spec["rows"])
        oid = hashlib.md5(data).hexdigest() + ".dir"  # noqa: S324
        os.makedirs(os.path.join(root, oid[:2]), exist_ok=True)
        with open(os.path.join(root, oid[:2], oid[2:]), "wb") as f:
            f.write(data)
        index.storage_map.add_cache(ObjectStorage(key, odb))
        meta = Meta(isdir=True, nfiles=len(spec["rows"])) if spec.get("nfiles", True) else Meta(isdir=True)
        index[key] = DataIndexEntry(key=key, meta=meta, hash_info=HashInfo("md5", oid), loaded=spec["loaded"])
    if lazy.get("commit_before_load"):
        index.commit()
    for n, spec in enumerate(lazy["dirs"]):
        key = lazy_dir_key(n, spec)
        child = (*key, *spec["rows"][0][0])
        trig = spec["trigger"]
        classes.append("lazy:trigger=" + trig)
        if trig == "iteritems":
            list(index.iteritems())
        elif trig == "iteritems-prefix":
            list(index.iteritems(prefix=key))
        elif trig == "getitem-child":
            index[child]
        elif trig == "info-child":
            index.info(child)
        elif trig == "ls":
            list(index.ls(key, detail=True))
        elif trig == "ls-names":
            list(index.ls(key, detail=False))
        elif trig == "load":
            index.load()
    index.commit()
    snapshot(index)          # loads whatever the trigger did not reach
    pre = snapshot(index)    # what the open handle reports right before close
    index.commit()
    for n, spec in enumerate(lazy["dirs"]):
        key = lazy_dir_key(n, spec)
        if key in pre and pre[key][2] is True and any(k[:len(key)] == key and k != key for k in pre):
            classes.append("lazy:dir-loaded-before-close")
        if any(len(r[0]) > 1 for r in spec["rows"]):
            classes.append("lazy:nested-listing")
    return pre


def compare_snapshots(form, pre, post, viols, loose=()):
    if set(pre) != set(post):
        viols.append(Viol(f"{form}:keys", f"{form}: key set changed across close/reopen: missing "
                                          f"{sorted(set(pre) - set(post))}, extra {sorted(set(post) - set(pre))}"))
    for key in sorted(set(pre) & set(post)):
        (m0, h0, l0, k0), (m1, h1, l1, k1) = pre[key], post[key]
        if m0 != m1:
            field = sorted(set(m0) ^ set(m1) | {f for f in m0 if f in m1 and m0[f] != m1[f]})[0]
            viols.append(Viol(f"{form}:meta:{field}", f"{form}: metadata of {key!r}: open handle {m0}, reopened {m1}"))
        if h0 != h1:
            viols.append(Viol(f"{form}:hash", f"{form}: hash of {key!r}: open handle {h0}, reopened {h1}"))
        if l0 is not l1:
            viols.append(Viol(f"{form}:loaded", f"{form}: loaded flag of {key!r}: open handle {l0!r}, "
                                                f"reopened {l1!r}"))
        if k0 != k1 and key not in loose:
            viols.append(Viol(f"{form}:entry-key", f"{form}: entry key of {key!r}: open handle {k0!r}, "
                                                   f"reopened {k1!r}"))


def arm_sqlite(ops, split, d, viols, lazy=None, classes=None, final_commit="parent"):
    """DataIndex.open -> program -> commit -> [read] -> close -> reopen -> [more program -> commit -> close ->
    reopen] -> read. The program may take views (second handles on the same SQLite connection), write through
    them and commit through either handle; the commit that ends a session goes through `final_commit`.
    Every write is followed by a commit on some handle of the connection, hence durable: the reopened index
    must equal the model AND what the open parent handle reported right before close. With `lazy`, the last
    session additionally registers object storage, adds unloaded directory entries, loads them lazily and
    commits. Returns the final model (without the lazily loaded keys)."""
    from dvc_data.index import DataIndex

    path = os.path.join(d, "index.sqlite")
    model = {}
    classes = classes if classes is not None else []
    sessions = [ops[:split], ops[split:]] if 0 < split < len(ops) else [ops]
    state = {}
    lazy_keys = []
    for n, chunk in enumerate(sessions):
        # key lookups go through sqlite3.executescript, which commits implicitly: in a session that uses a
        # second handle or explicit commits nothing is looked up between the last write and close
        view_mode = any(op["op"] in VIEW_OPS for op in chunk)
        state["view"] = None
        state["poison"], state["fresh"], state["classes"] = [], set(), classes   # per session (see unsafe_write)
        by_lookup = None
        index = DataIndex.open(path)
        try:
            apply_ops(index, chunk, model, state)
            if lazy and n == len(sessions) - 1:
                # directory entries of the lazy phase are written through the parent handle as well
                lazy = dict(lazy, dirs=[sp for i, sp in enumerate(lazy["dirs"])
                                        if not unsafe_write(state, "parent", lazy_dir_key(i, sp))])
            if lazy and lazy["dirs"] and n == len(sessions) - 1:
                lazy_phase(index, lazy, d, classes)
                lazy_keys = [lazy_dir_key(i, sp) for i, sp in enumerate(lazy["dirs"])]
            closer = get_view(index, state) if final_commit == "view" else None
            (closer if closer is not None else index).commit()
            pre = snapshot(index)   # read-only (plain SELECTs): what the open parent handle reports before close
            if not view_mode:
                got, by_lookup = read_open_index(index)
        finally:
            state["view"] = None
            index.close()
        below_lazy = lambda k: any(k[:len(lk)] == lk for lk in lazy_keys)  # noqa: E731
        if by_lookup is not None:
            compare_index(f"sqlite-open{n}", model, {k: v for k, v in got.items() if not below_lazy(k)}, viols,
                          open_handle=True)
            compare_index(f"sqlite-open{n}-lookup", model,
                          {k: v for k, v in by_lookup.items() if not below_lazy(k)}, viols, open_handle=True)
        index = DataIndex.open(path)
        try:
            post = snapshot(index)
            got, by_lookup = read_open_index(index)
            n_items = len(index)
        finally:
            index.close()
        compare_snapshots("sqlite-lazy-reopen" if lazy_keys else "sqlite-handle-vs-reopen", pre, post, viols,
                          loose={k for k, sp in model.items() if loose_key(sp)})
        compare_index("sqlite-reopen", model, {k: v for k, v in got.items() if not below_lazy(k)}, viols)
        compare_index("sqlite-reopen-lookup", model, {k: v for k, v in by_lookup.items() if not below_lazy(k)}, viols)
        if n_items != len(pre):
            viols.append(Viol("sqlite-reopen:len", f"len() = {n_items} for {len(pre)} keys reported before close"))
    return model


OTHER_VALUES = ["5d41402abc4b2a76b9719d911017c592", "7d793037a0760186574b0282f2f435e7.dir", '"other-etag"']


def tree_entries(model, hash_name, rel_code=None):
    """Project the index model onto a listing with metadata (see ASSUMPTIONS).

    rel_code (2 bits per entry, in sorted key order) fixes how the Meta field that carries the tree's hash
    name (md5 / etag / checksum) relates to the entry's hash value: 0 absent, 1 equal, 2 different (a stale
    or foreign value), 3 as the spec has it. None (old replay files): equal whenever the spec sets it."""
    import hashlib

    meta_name = "md5" if hash_name == "md5-dos2unix" else hash_name
    keys = [k for k in sorted(model) if k]
    leaves = [k for k in keys if not any(o != k and o[:len(k)] == k for o in keys)]
    out = {}
    for n, k in enumerate(leaves):
        spec = model[k]
        hv = spec["hash"][1] if spec["hash"] and spec["hash"][1] else None
        if hv is None:
            hv = hashlib.md5(json.dumps(k).encode()).hexdigest()  # noqa: S324
        ms = dict(spec["meta"] or {})
        rel = None if rel_code is None else (rel_code >> (2 * n)) & 3
        if rel is None:
            if ms.get(meta_name):
                ms[meta_name] = hv
        elif rel == 0:
            ms.pop(meta_name, None)
        elif rel == 1:
            ms[meta_name] = hv
        elif rel == 2:
            ms[meta_name] = next(v for v in [ms.get(meta_name), *OTHER_VALUES] if v and v != hv)
        out[k] = (ms, hv)
    return out, meta_name


def arm_tree(model, hash_name, order, viols, rel_code=None, classes=None):
    from dvc_data.hashfile.hash_info import HashInfo
    from dvc_data.hashfile.tree import Tree

    entries, meta_name = tree_entries(model, hash_name, rel_code)
    if not entries:
        return 0
    if classes is not None:
        for ms, hv in entries.values():
            own = ms.get(meta_name)
            classes.append("tree:meta-hash-field=" + ("absent" if not own else "equal" if own == hv else "different"))
    tree = Tree()
    for k in [k for k in order if k in entries]:
        ms, hv = entries[k]
        tree.add(k, build_meta(ms), HashInfo(hash_name, hv))
    lst = tree.as_list(with_meta=True)
    raw = tree.as_bytes(with_meta=True)
    for form, listing in (("tree-list", lst), ("tree-bytes", json.loads(raw.decode("utf-8")))):
        back = Tree.from_list(listing, hash_name=hash_name)
        got = {k: (m, h) for k, m, h in back}
        if set(got) != set(entries):
            viols.append(Viol(f"{form}:keys", f"{form}: keys changed: missing "
                                              f"{sorted(set(entries) - set(got))}, extra "
                                              f"{sorted(set(got) - set(entries))}"))
        for k in sorted(set(got) & set(entries)):
            ms, hv = entries[k]
            m, h = got[k]
            em = typed({**ref_meta(ms), meta_name: hv})
            om = typed(obs_meta(m))
            if ms.get(meta_name) and ms[meta_name] != hv:
                # the listing has ONE member of that name and the unchanged code lets the hash win, so a
                # differing Meta value is not preserved: it is not judged; the hash (below) must survive
                em.pop(meta_name, None)
                om.pop(meta_name, None)
            if om != em:
                field = sorted(set(em) ^ set(om) | {f for f in em if f in om and em[f] != om[f]})[0]
                viols.append(Viol(f"{form}:meta:{field}",
                                  f"{form}: metadata of {k!r} changed: wrote {em}, read {om}"))
            if obs_hi(h) != {hash_name: hv}:
                viols.append(Viol(f"{form}:hash", f"{form}: hash of {k!r} changed: wrote "
                                                  f"{ {hash_name: hv} }, read {obs_hi(h)}"))
        again = back.as_list(with_meta=True)
        if again != lst:
            viols.append(Viol(f"{form}:not-idempotent",
                              f"{form}: parsed listing re-serialises differently: {lst} -> {again}"))
        elif back.as_bytes(with_meta=True) != raw:
            viols.append(Viol(f"{form}:bytes-not-idempotent", f"{form}: bytes differ after the round trip"))
    return len(entries)


# ------------------------------------------------------------------------------------------
# run_case
# ------------------------------------------------------------------------------------------
def _check_parts(parts):
    for p in parts:
        assert isinstance(p, str) and p and "/" not in p and "\0" not in p, parts


def validate(case):
    assert sum(op["op"] == "view" for op in case["ops"]) <= 1, "one view per history"
    for op in case["ops"]:
        assert op["op"] in ("set", "del", "delnode", "mutate", "alias", "rename", *VIEW_OPS)
        assert not any(k.startswith("_") for k in op), "private model fields must not leak into a case"
        if op["op"] in ("alias", "rename"):
            _check_parts(op["src"])
        if op.get("ekey"):
            _check_parts(op["ekey"])
        if op["op"] == "view":
            assert op["prefix"], "a view needs a non-empty prefix"
            _check_parts(op["prefix"])
            continue
        if op["op"] == "commit":
            assert op["via"] in ("parent", "view")
            continue
        if op["op"] in ("vset", "vdel"):
            # reserved last part: a key stored through a view is never stored through the parent handle
            # (the identity cache is per handle; cross-handle coherence is not part of the statement)
            assert op["name"] and op["name"][-1].startswith("vw")
            _check_parts(op["name"])
        elif op["op"] in ("vdelkey", "vdelnode"):
            # removal through the view of whatever lies there, also of keys the parent handle stored
            assert op["name"], "relative to the view's prefix and not the view's own root"
            _check_parts(op["name"])
        elif op["op"] == "delnode":
            assert op["key"], "the root node is not deleted"
            _check_parts(op["key"])
        else:
            _check_parts(op["key"])
            assert not any(p.startswith("vw") or p.startswith("lzd") for p in op["key"])
        if op["op"] == "mutate":
            assert op["field"] == "loaded" or op["field"] in SERIALISED
        if op["op"] in ("set", "vset"):
            ms = op["meta"]
            if ms is not None:
                for f in ("size", "nfiles"):
                    assert ms.get(f) is None or 0 <= ms[f] < 2 ** 63
            assert op["loaded"] in (None, True, False)
    assert case.get("final_commit", "parent") in ("parent", "view")
    assert set(case["forms"]) <= {"json", "db", "sqlite", "tree"}
    if case.get("lazy"):
        assert "sqlite" in case["forms"]
        for spec in case["lazy"]["dirs"]:
            assert spec["trigger"] in LAZY_TRIGGERS and spec["loaded"] in (None, False) and spec["rows"]
            rels = [tuple(r[0]) for r in spec["rows"]]
            assert len(set(rels)) == len(rels)
            for a in rels:
                assert a and all(isinstance(p, str) and p and "/" not in p and "\0" not in p for p in a)
                assert not any(a != b and b[:len(a)] == a for b in rels), "listing keys must be prefix-free"
            for p in spec["prefix"]:
                assert isinstance(p, str) and p and "/" not in p and "\0" not in p and not p.startswith("lzd")


def final_model(ops, drop_root, split=0):
    """The index the history leaves behind (the same transitions as apply_ops, without an index)."""
    model = {}
    order = []
    state = {"vkeys": set(), "poison": []}
    for pos, op in enumerate(ops):
        kind = op["op"]
        if pos == split and 0 < split < len(ops):
            state["poison"] = []     # a new session (see unsafe_write)
        if kind in VIEW_OPS:
            if kind == "view":
                state["prefix"] = tuple(op["prefix"])
            elif kind in ("vset", "vdel", "vdelkey", "vdelnode") and state.get("prefix") is not None:
                full = view_full_key(state, op)
                if kind == "vset":
                    if unsafe_write(state, "view", full):
                        continue
                    if full not in model:
                        order.append(full)
                    state["n"] = state.get("n", 0) + 1
                    model[full] = dict(op, op="set", key=list(full), _obj=state["n"])
                    state["vkeys"].add(full)
                elif kind == "vdelnode":
                    gone = drop_subtree(model, full, state)
                    if gone:
                        order[:] = [k for k in order if k not in gone]
                        state["poison"].append((full, "view"))
                elif full in model and (full in state["vkeys"] or kind == "vdelkey"):
                    del model[full]
                    order.remove(full)
                    state["vkeys"].discard(full)
                    state.setdefault("shared", set()).discard(full)
            continue
        key = tuple(op["key"])
        if drop_root and not key:
            continue
        shared = state.setdefault("shared", set())
        if kind == "delnode":
            if key:
                gone = drop_subtree(model, key, state)
                if gone:
                    order[:] = [k for k in order if k not in gone]
                    state["poison"].append((key, "parent"))
            continue
        if kind in ("set", "mutate", "alias", "rename") and unsafe_write(state, "parent", key):
            continue
        if kind in ("alias", "rename"):
            src = tuple(op["src"])
            if src not in model or src == key:
                continue
            if key not in model:
                order.append(key)
            if kind == "alias":
                model[key] = dict(model[src], key=list(key), _loosekey=True)
                shared.update((src, key))
            else:
                model[key] = dict(model.pop(src), key=list(key), _loosekey=True)
                order.remove(src)
                if src in shared:
                    shared.discard(src)
                    shared.add(key)
            continue
        if kind == "set":
            if key not in model:
                order.append(key)
            state["n"] = state.get("n", 0) + 1
            model[key] = dict(op, _obj=state["n"])
            shared.discard(key)
        elif kind == "mutate":
            if key in model and key not in shared:
                model[key] = mutated_spec(model[key], op["field"], op["value"])
        elif key in model:
            del model[key]
            order.remove(key)
            shared.discard(key)
    return model, order


def only_remote_differs(old, new):
    """The two specs give entries that compare equal (Meta.remote is eq=False) yet serialise differently."""
    if old is None or old["meta"] is None or new["meta"] is None:
        return False
    strip = lambda m: {k: v for k, v in m.items() if k != "remote"}  # noqa: E731
    return (old["hash"] == new["hash"] and old["loaded"] == new["loaded"]
            and strip(old["meta"]) == strip(new["meta"])
            and ref_meta(old["meta"]).get("remote") != ref_meta(new["meta"]).get("remote"))


def run_case(case, ctx):
    validate(case)
    ops = case["ops"]
    forms = case["forms"]
    viols = []
    classes = []
    # the '/'-joined forms and trees do not cover the empty root key (statement)
    model, order = final_model(ops, drop_root=True, split=case.get("split", 0))
    arm_dicts(final_model(ops, drop_root=False, split=case.get("split", 0))[0], viols)
    n_tree = 0
    with ctx.tmpdir() as d:
        if "json" in forms:
            arm_json(model, order, d, viols)
        if "db" in forms:
            arm_db(model, order, d, viols)
        full = None
        if "sqlite" in forms:
            full = arm_sqlite(ops, case.get("split", 0), d, viols, case.get("lazy"), classes,
                              case.get("final_commit", "parent"))
        if "tree" in forms:
            n_tree = arm_tree(model, case.get("tree_hash", "md5"), order, viols, case.get("tree_rel"), classes)

    judged = full if full is not None else model
    rich = False
    for spec in judged.values():
        rm = ref_meta(spec["meta"])
        falsy = any(v in (0, False, "") and v is not None for v in (spec["meta"] or {}).values()) or (
            spec["hash"] is not None and (not spec["hash"][0] or not spec["hash"][1])
        ) or spec["loaded"] is False
        n_opt = len(rm) + (1 if ref_hi(spec["hash"]) else 0) + (1 if spec["loaded"] is not None else 0)
        if n_opt >= 2 or falsy:
            rich = True
    odd = any(not p.isascii() or not p.isalnum() for k in judged for p in k)
    nontrivial = bool(judged) and rich and odd

    for f in forms:
        classes.append("form=" + f)
    if "sqlite" in forms:
        if 0 < case.get("split", 0) < len(ops):
            classes.append("sqlite:two-sessions")
        if any(not op["key"] for op in ops if op["op"] == "set"):
            classes.append("sqlite:root-key")
        if any(op["op"] == "view" for op in ops):
            classes.append("sqlite:view-taken")
            classes.append("sqlite:final-commit=" + case.get("final_commit", "parent"))
            # who wrote last before the end of the program, and through which handle the data is committed
            last_writer = None
            for op in ops:
                if op["op"] in ("vset", "vdel", "vdelkey", "vdelnode"):
                    last_writer = "view"
                elif op["op"] in ("set", "del", "delnode", "mutate"):
                    last_writer = "parent"
            if last_writer:
                classes.append(f"sqlite:last-writer={last_writer}/final-commit={case.get('final_commit', 'parent')}")
            run = best = 0
            for op in ops:
                run = run + 1 if op["op"] in ("vset", "vdel", "vdelkey", "vdelnode") else 0
                best = max(best, run)
            if best >= 2:
                classes.append("sqlite:view-writes-in-a-row>=2")
        if any(op["op"] == "commit" for op in ops):
            classes.append("sqlite:explicit-commit")
    if n_tree:
        classes.append("tree-hash=" + case.get("tree_hash", "md5"))
    seen = set()
    cur, written_at = {}, {}
    split = case.get("split", 0) if 0 < case.get("split", 0) < len(ops) else 0
    for n, op in enumerate(ops):
        if op["op"] in VIEW_OPS:
            continue
        if op["op"] in ("alias", "rename"):
            if tuple(op["src"]) in cur and op["src"] != op["key"]:
                classes.append("entry-key:" + op["op"])
                cur[tuple(op["key"])] = dict(cur[tuple(op["src"])], key=op["key"])
                written_at[tuple(op["key"])] = n
                if op["op"] == "rename":
                    cur.pop(tuple(op["src"]), None)
                    written_at.pop(tuple(op["src"]), None)
                seen.add(tuple(op["key"]))
            continue
        if op["op"] == "delnode":
            gone = [c for c in cur if under(c, tuple(op["key"]))]
            if gone:
                classes.append("delete-node")
            for c in gone:
                cur.pop(c, None)
                written_at.pop(c, None)
            continue
        if op["op"] == "set" and "ekey" in op:
            classes.append("entry-key:" + ("none" if op["ekey"] is None else "other"))
        k = tuple(op["key"])
        if op["op"] == "set" and k in seen:
            classes.append("overwrite")
        if op["op"] == "del" and k in seen:
            classes.append("delete")
        seen.add(k)
        same_session = k in written_at and (written_at[k] < split) == (n < split)
        where = "same-session" if same_session else "next-session"
        if op["op"] == "set":
            if only_remote_differs(cur.get(k), op):
                classes.append("overwrite:only-remote-differs")
                if "sqlite" in forms:
                    classes.append(f"sqlite:eq-equal-rewrite:{where}")
            cur[k] = op
            written_at[k] = n
        elif op["op"] == "mutate":
            if k in cur:
                classes.append("mutate-in-place")
                if "sqlite" in forms:
                    classes.append(f"sqlite:mutate-in-place:{where}")
                cur[k] = mutated_spec(cur[k], op["field"], op["value"])
                written_at[k] = n
        else:
            cur.pop(k, None)
            written_at.pop(k, None)
    keys = sorted(judged)
    if any(a != b and b[:len(a)] == a for a in keys for b in keys):
        classes.append("entry-on-proper-prefix")
    if any(not p.isascii() for k in keys for p in k):
        classes.append("key:non-ascii")
    if any(c in p for k in keys for p in k for c in "'\"%{}\\;\n"):
        classes.append("key:hostile-char")
    for spec in judged.values():
        ms = spec["meta"] or {}
        if ms.get("size") == 0 or ms.get("nfiles") == 0:
            classes.append("meta:zero-size-or-nfiles")
        if any(ms.get(f) == "" for f in ("version_id", "etag", "checksum", "md5", "remote")):
            classes.append("meta:empty-string")
        if spec["meta"] is not None and not ref_meta(spec["meta"]):
            classes.append("meta:serialises-empty")
        if spec["meta"] is None:
            classes.append("meta:none")
        if spec["hash"] is not None and spec["hash"][1] and spec["hash"][1].endswith(".dir"):
            classes.append("hash:.dir")
        if spec["hash"] is not None and not ref_hi(spec["hash"]):
            classes.append("hash:falsy")
        classes.append(f"loaded={spec['loaded']}")
    return Result(viols, nontrivial, sorted(set(classes)))


# ------------------------------------------------------------------------------------------
# generators (module-level strategies: built once)
# ------------------------------------------------------------------------------------------
HOSTILE = ["{path}", "{root}", "{0}", "%s", "%", "';--", "a'b''c", "''", "x;y", "nl\nx", "tab\tx", "?", ":pid",
           ":name", "*", "--", "/*".replace("/", "|"), " ", "A", "a", "a ", "NULL", "loaded", "meta", "é", "é"]
ALL_PARTS = gen.NAMES + HOSTILE + ["a", "b", "dir", "a", "b", "dir"]
_PART = st.one_of(st.sampled_from(ALL_PARTS), st.sampled_from(ALL_PARTS), st.sampled_from(ALL_PARTS), gen.names())
_KEY = st.lists(_PART, min_size=1, max_size=4)
HEX = ["d41d8cd98f00b204e9800998ecf8427f", "0" * 32, "abcdefabcdefabcdefabcdefabcdefab",
       "9e107d9d372bb6826bd81d3542a419d6.dir", "00112233445566778899aabbccddeeff.dir",
       "e3b0c44298fc1c149afbf4c8996fb92427ae41e4649b934ca495991b7852b855"]
STRS = ["", "", "v1", "null", '"quoted-etag"', "Ünï", "0", "a/b", "{x}", "it's"]
SIZES = [0, 0, 1, 2, 511, 2 ** 31, 2 ** 53 + 1, 2 ** 63 - 1]
_META_FIELDS = {
    "isdir": st.booleans(),
    "size": st.one_of(st.none(), st.sampled_from(SIZES), st.integers(0, 2 ** 63 - 1)),
    "nfiles": st.one_of(st.none(), st.sampled_from([0, 0, 1, 3, 1000])),
    "isexec": st.booleans(),
    "version_id": st.one_of(st.none(), st.sampled_from(STRS)),
    "etag": st.one_of(st.none(), st.sampled_from(STRS + HEX[:2])),
    "checksum": st.one_of(st.none(), st.sampled_from(STRS + HEX[:2])),
    "md5": st.one_of(st.none(), st.sampled_from(["", *HEX[:5]])),
    "remote": st.one_of(st.none(), st.sampled_from(["", "origin", "my remote"])),
    # not serialised: must not disturb anything
    "inode": st.one_of(st.none(), st.integers(0, 2 ** 40)),
    "mtime": st.one_of(st.none(), st.floats(0, 2e9)),
    "nlink": st.integers(1, 3),
}
META_TEMPLATES = [
    None, None, {}, {"size": 0}, {"size": 0, "nfiles": 0}, {"size": 1, "isexec": True},
    {"isdir": True, "nfiles": 0, "size": 0}, {"isdir": True, "nfiles": 3, "size": 2 ** 31},
    {"isdir": False, "isexec": False}, {"isexec": False, "size": None}, {"size": 2 ** 63 - 1},
    {"size": 2 ** 53 + 1, "md5": HEX[0]}, {"md5": ""}, {"md5": HEX[3], "isdir": True, "nfiles": 1000},
    {"etag": "", "version_id": ""}, {"etag": '"quoted-etag"', "version_id": "null", "size": 5},
    {"checksum": "\u00dcn\u00ef", "remote": "my remote"}, {"remote": ""}, {"remote": "origin", "size": 0},
    {"version_id": "0", "etag": "0", "checksum": "0", "md5": "0" * 32, "remote": "0", "size": 0, "nfiles": 0,
     "isdir": True, "isexec": True},
    {"inode": 12345, "mtime": 1.5e9, "nlink": 2}, {"inode": 1, "size": 0, "mtime": 0.0},
    {"size": 511, "isexec": True, "inode": 7, "mtime": 1234567890.123456},
    {"checksum": "it's", "etag": "a/b", "version_id": "{x}"},
]
_META = st.one_of(
    st.sampled_from(META_TEMPLATES),
    st.sampled_from(META_TEMPLATES),
    st.sampled_from(META_TEMPLATES),
    st.sampled_from(META_TEMPLATES),
    st.sampled_from(META_TEMPLATES),
    st.fixed_dictionaries({}, optional=_META_FIELDS),
    st.fixed_dictionaries({}, optional={k: v for k, v in _META_FIELDS.items() if k in SERIALISED}),
)
HASH_NAMES = ["md5", "md5", "md5-dos2unix", "sha256", "etag", "checksum", None, ""]
HASH_VALUES = [*HEX, "", None, '"etag-1"', "\u00dcn\u00ef"]
HASH_POOL = (
    [None] * 12
    + [[n, v] for n in HASH_NAMES for v in HASH_VALUES]
    + [[n, v, o] for n in ("md5", "etag") for v in HEX[:4] for o in (None, "obj", "")]
)
_HASH = st.sampled_from(HASH_POOL)
_SET = st.tuples(_KEY, _META, _HASH, st.sampled_from([None, True, False])).map(
    lambda t: {"op": "set", "key": t[0], "meta": t[1], "hash": t[2], "loaded": t[3]})
_OPS = st.lists(_SET, min_size=1, max_size=6)
_FORMS = st.sampled_from([
    ["json", "tree"], ["json", "tree"], ["json"], ["tree"], ["json", "tree"], ["json", "tree"],
    ["sqlite"], ["sqlite"], ["db"], ["json", "db", "sqlite", "tree"],
])
_EXTRA = st.tuples(
    st.lists(st.tuples(st.sampled_from(["dup", "prefix", "del", "child", "root", "remote", "remote", "mutate",
                                        "mutate", "alias", "rename", "ekey", "ekey", "delnode", "delnode"]),
                       st.integers(0, 7), st.integers(0, 9)), max_size=4),
    _FORMS,
    st.integers(0, 8),
    st.sampled_from(TREE_HASH_NAMES),
    st.integers(0, 4 ** 8 - 1),
)


REMOTES = ["backup", "origin", "my remote"]
MUTATIONS = [("size", 0), ("size", 7), ("nfiles", 0), ("isexec", True), ("remote", "backup"), ("remote", ""),
             ("md5", HEX[0]), ("etag", "e2"), ("version_id", "v2"), ("loaded", False)]


_ROW = st.tuples(st.lists(st.sampled_from(ALL_PARTS), min_size=1, max_size=3), st.sampled_from(["1", "2", "3"]),
                 st.sampled_from([{}, {}, {"size": 0}, {"size": 4}, {"size": 0, "isexec": True}, {"isexec": True}]))
_LAZY_DIR = st.tuples(st.lists(st.sampled_from(ALL_PARTS), max_size=2), st.lists(_ROW, min_size=1, max_size=4),
                      st.sampled_from([None, None, False]), st.sampled_from(LAZY_TRIGGERS), st.booleans())
_LAZY = st.one_of(st.none(), st.tuples(st.lists(_LAZY_DIR, min_size=1, max_size=2),
                                       st.sampled_from(["generic", "local"]), st.booleans()))


_VWRITE = st.tuples(st.lists(st.sampled_from(ALL_PARTS), max_size=2), st.integers(0, 3), _META, _HASH,
                    st.sampled_from([None, True, False]),
                    st.sampled_from(["vset", "vset", "vset", "vdel", "vdelkey", "vdelnode", "vdelnode"]))
_VIEW_BLOCK = st.one_of(st.none(), st.tuples(
    st.one_of(st.lists(st.sampled_from(ALL_PARTS), min_size=1, max_size=2),      # prefix: drawn, or
              st.tuples(st.integers(0, 7), st.integers(1, 3)),                   # cut from a key of the history
              st.tuples(st.integers(0, 7), st.integers(1, 2))),
    st.lists(_VWRITE, min_size=0, max_size=4),                         # writes through the view, in a row
    st.sampled_from(["none", "parent", "parent", "view"]),             # commit right before taking the view
    st.sampled_from(["none", "none", "view"]),                         # commit through the view right after taking it
    st.sampled_from(["none", "none", "parent", "view"]),               # commit after the writes
    st.integers(0, 3),                                                 # distance of the block from the end
    st.sampled_from(["parent", "view"]),                               # handle of the session-ending commit
))


def _prefix_free_rows(rows):
    out = []
    for rel, tok, extra in rows:
        rel = tuple(rel)
        if any(rel[:len(o[0])] == tuple(o[0]) or tuple(o[0])[:len(rel)] == rel for o in out):
            continue
        out.append([list(rel), tok, extra])
    return out


@st.composite
def cases(draw):
    ops = draw(_OPS)
    extra, forms, split, tree_hash, tree_rel = draw(_EXTRA)
    # derived operations so that overwrites, deletions and entries on proper prefixes are frequent
    orig = ops
    for kind, i, pos in extra:
        base = orig[i % len(orig)]
        other = orig[pos % len(orig)]
        if kind == "dup":
            new = dict(other, key=base["key"])
        elif kind == "root":
            new = dict(other, key=[])
        elif kind == "prefix":
            if len(base["key"]) < 2:
                continue
            new = dict(other, key=base["key"][:-1])
        elif kind == "child":
            if len(base["key"]) > 3:
                continue
            new = dict(other, key=[*base["key"], "child"])
        elif kind == "remote":
            # rewrite of a key with an entry that differs ONLY in Meta.remote (eq=False but serialised)
            prev = final_model(ops, drop_root=False)[0].get(tuple(base["key"]), base)
            meta = dict(prev["meta"] or {})
            old_remote = meta.get("remote") or None
            meta["remote"] = None if pos % 4 == 0 else REMOTES[pos % len(REMOTES)]
            if meta["remote"] == old_remote:
                meta["remote"] = "backup" if old_remote != "backup" else "origin"
            new = dict({k: v for k, v in prev.items() if not k.startswith("_")}, op="set", key=base["key"],
                       meta=meta)
        elif kind == "mutate":
            field, value = MUTATIONS[pos % len(MUTATIONS)]
            new = {"op": "mutate", "key": base["key"], "field": field, "value": value}
        elif kind in ("alias", "rename"):
            # the entry object of base's key is stored under a second key / moved to another key as it is
            target = other["key"] if pos % 3 == 0 else [*base["key"][:3], "moved"]
            new = {"op": kind, "key": target, "src": base["key"]}
        elif kind == "ekey":
            # an entry whose own key attribute is None / another existing key / a key that is nowhere stored
            own = [None, other["key"], ["ghost", "k"], [*base["key"][:2], "old"], other["key"]][pos % 5]
            new = dict(other, key=base["key"], ekey=own)
        elif kind == "delnode":
            # delete_node on a proper prefix of a key of the history (mostly) or on the key itself
            depth = len(base["key"])
            n = depth if depth == 1 or pos % 4 == 0 else 1 + pos % (depth - 1)
            new = {"op": "delnode", "key": base["key"][:n]}
        else:
            new = {"op": "del", "key": base["key"]}
        ops = ops[:] + [new]
    case = {"ops": ops, "forms": forms, "split": split, "tree_hash": tree_hash, "tree_rel": tree_rel}
    if "sqlite" in forms:
        block = draw(_VIEW_BLOCK)
        if block is not None:
            prefix, writes, c_before, c_taken, c_after, back, final = block
            if isinstance(prefix, tuple):
                # a proper prefix of a key the parent handle stores (the key itself when it has one part)
                owner = orig[prefix[0] % len(orig)]["key"]
                prefix = owner[:max(1, min(prefix[1], len(owner) - 1))]
            # what the parent handle stores below the prefix, relative to it
            below = sorted({tuple(op["key"][len(prefix):]) for op in case["ops"]
                            if op["op"] in ("set", "alias", "rename") and len(op["key"]) > len(prefix)
                            and op["key"][:len(prefix)] == prefix})
            steps = []
            if c_before != "none":
                steps.append({"op": "commit", "via": c_before})
            steps.append({"op": "view", "prefix": prefix})
            if c_taken != "none":
                steps.append({"op": "commit", "via": c_taken})
            for parts, n, meta, hsh, loaded, kind in writes:
                name = [*parts, f"vw{n}"]
                if kind == "vset":
                    steps.append({"op": "vset", "name": name, "meta": meta, "hash": hsh, "loaded": loaded})
                elif kind == "vdel":
                    steps.append({"op": "vdel", "name": name})
                elif kind == "vdelkey":
                    # `del view[...]` of a key the parent handle stored
                    if below:
                        steps.append({"op": "vdelkey", "name": list(below[(n + len(parts)) % len(below)])})
                else:
                    # view.delete_node(...) on a node above keys of either handle
                    target = list(below[(n + len(parts)) % len(below)]) if below and hsh is not None else name
                    steps.append({"op": "vdelnode", "name": target[:1 + n % len(target)]})
            if c_after != "none":
                steps.append({"op": "commit", "via": c_after})
            pos = max(0, len(case["ops"]) - back)
            case["ops"] = case["ops"][:pos] + steps + case["ops"][pos:]
            case["final_commit"] = final
        lazy = None if block is not None else draw(_LAZY)
        if lazy is not None:
            dirs, store, commit_first = lazy
            case["lazy"] = {
                "store": store, "commit_before_load": commit_first,
                "dirs": [{"prefix": prefix, "rows": _prefix_free_rows(rows), "loaded": loaded, "trigger": trig,
                          "nfiles": nfiles} for prefix, rows, loaded, trig, nfiles in dirs],
            }
    return case


def run(ctx):
    ctx.run_given(cases(), run_case, ctx.n(quick=500, thorough=5000))


def replay(case, ctx):
    ctx.exec_case(case, run_case)
