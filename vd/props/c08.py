"""C08 - index diff is exact: every key once, correctly classified, renames paired.

Pure and in-memory.  A case is two index specs (or None) plus an option record; an index spec is a
list of ``[key parts, meta spec, hash spec, is explicit dir]``:

* meta spec : ``None`` or a dict of ``Meta`` fields (directory entries always carry ``isdir``);
* hash spec : ``None`` | ``[name, value]`` (``value`` None = a falsy ``HashInfo``) | ``"D"`` =
  the directory's hash *derived from its descendant files* (so "same hash => same children");
* well-formed = keys unique, no file key is a proper prefix of another key.

In the storage arm (``case["storage"]``) a directory entry's hash spec may also be ``"L"`` (unloaded,
loadable: the listing object is written into the attached store, the keys below it are listed in the
spec in their loaded form but left to the loader) or ``["U", n]`` (unloaded, object absent).

With ``case["sqlite"] = {"old": history|None, "new": history|None}`` a side is built as
``DataIndex.open(<sqlite file>)`` and driven through the edit history (``["set", key, meta, hash, isdir]``,
``["del", key]``, ``["pop", key]``, ``["commit"]``) whose final content is the side's spec.

With ``case["views"] = {"old": vspec|None, "new": vspec|None}`` a side is handed to ``diff()`` as
``dvc_data.index.view(<index built from the spec>, filter_fn)`` (a ``DataIndexView``), where
``vspec = {"keep": [key, ...], "root": bool}`` describes the prefix-closed filter "key is a non-empty
ancestor of, equal to, or below one of the kept keys" and ``root`` is what the filter answers for ``()``
(``"all": true`` = the filter keeps every key).  Views may be combined with ``case["storage"]`` (views over
indexes that hold unloaded directory objects); then every ``with_renames`` answer is additionally asked of
freshly built indexes / views as their first diff call.

The oracle is a flat dictionary diff (no descent, no listing) following DESIGN.md 4/C08 (a)-(f).
"""

import contextlib
import hashlib
import json
import os

from hypothesis import strategies as st

from ..ctx import HarnessError, Result, Viol

LEVEL = "exploration"
WORKERS = {"quick": 8, "thorough": 16}
BUDGET_S = {"quick": 40, "thorough": 700}
RULE = (
    "Hypothesis draws a base index as a nested tree (files with meta in {None, Meta(), size, isexec, "
    "etag, ...} and hash in {None, falsy HashInfo, md5/sha256 value from a 6-value pool}; directories "
    "implicit or explicit, explicit ones optionally carrying a .dir hash derived from their descendant "
    "files; optional explicit root entry) and derives the other side by 0-6 drawn mutations (re-hash, "
    "re-meta, drop, add, move / copy a file, move a whole directory, file->directory, directory->file, "
    "toggle explicit / hashed directory entry; a rename arm draws hashes from three values so several "
    "deleted and added keys share a hash); either side may be None or empty; options with_unchanged, mode in "
    "{full, hash_only, meta_only}, meta_cmp_key drawn from a family {none, identity, constant, tuples over "
    "subsets of Meta's fields including the eq=False ones remote/is_link/destination/nlink} (a mutation "
    "changes those fields alone; the reference applies the drawn key itself and, without a key, Meta's "
    "own equality, which ignores the eq=False fields), shallow, with_renames "
    "(never with meta_only: asserted by the code), with_unknown, derivation of the second index in "
    "{independent build (distinct, equal objects), the very same DataIndexEntry object in both indexes "
    "(new[k] = old[k]) for all / the directory / a drawn subset of the keys whose entries are equal, one "
    "interned Meta / HashInfo object per value reused under every key on both sides} (plain arms), roots in {None, [()], 1-4 drawn "
    "non-overlapping keys in drawn order: files, explicit/implicit directories, keys missing on one or both "
    "sides} (reference = the same table restricted to keys at or below a root, independent of root "
    "order; not in the storage arm). A storage arm attaches a cache "
    "ObjectStorage (HashFileDB on scratch) to both indexes (in-memory, or for a quarter of the cases both on "
    "the SQLite trie) and turns 1-3 directories - sometimes the root key () itself - into "
    "unloaded .dir entries: loadable (also with an empty listing), i.e. (listing object written as reference bytes, files below it come "
    "from the loader) or un-enumerable (object absent), with siblings around them, with_unknown mostly "
    "on. An SQLite arm builds one or both sides as DataIndex.open(<file>) and reaches the spec's content "
    "through a drawn edit history in one session (sets, overwrites, explicit directory entries written "
    "and deleted/popped while their children remain, leaves written and deleted, delete + re-add, "
    "optional commits); the reference is computed from the final content, all oracles run through the "
    "live handle(s), and the diff of the committed, closed and re-opened file(s) must equal the live one. "
    "A view arm (all modes / options / roots / entry sharing as in the plain arms) hands one or both sides "
    "to diff() as DataIndexView = index.view(filter_fn) over the drawn, larger index: the filter keeps 1-3 "
    "drawn keys (files, explicit or implicit directories at any depth, mostly a whole top-level sub-tree, a "
    "key present nowhere) with their non-empty ancestors and everything below them - the shape of DVC's "
    "target filters - and answers False (mostly) or True for the empty key (); both sides mostly share the "
    "filter, sometimes only one side is a view or the filters differ. The reference is the same key-by-key "
    "table over the keys the filter keeps (a view always contains its root: with no entry at () the diff "
    "starts at the implicit root directory whatever filter_fn(()) says); self-diffs go through the view "
    "and through a view of an independently built copy. "
    "A lazy-view arm combines the two: views (same filter family plus the filter that keeps every key; both "
    "sides under one filter, one side only, different filters, or no view at all) over indexes of the storage "
    "arm, in three shapes - the whole tree is ONE not yet loaded directory object at the root key () (on both "
    "sides unless a mutation loads / replaces it), the only materialised entries are 1-3 unloaded directory "
    "objects at non-root keys, or the storage arm's general shape - with files moved / copied between and "
    "inside the directory objects (hashes from three values), with_renames on for two thirds of the cases; a "
    "view may show a loadable directory object partly (kept key strictly below it). The reference is the "
    "key-by-key table over the kept keys in their loaded form, the hash of a directory object being that of "
    "its whole listing. In the storage and lazy-view arms every with_renames question is asked twice: of "
    "freshly built indexes / views as their FIRST diff call (nothing loaded, a view over a lone root object "
    "has len() == 0) and of the already walked ones; both answers are judged by the same clauses (e) "
    "(signatures of the first carry ':first-call'). "
    "Oracle: flat key-by-key reference "
    "diff over the two key->entry dictionaries (under shallow, keys outside hashed sub-trees stay exact; "
    "a key strictly below a hashed entry may be seen or not seen on that side - any of those outcomes "
    "is accepted, nothing else; under with_unknown a key strictly below an un-enumerable directory may "
    "be classified normally or UNKNOWN, every other key - the directory's own key and its siblings "
    "included - stays exact and is never UNKNOWN): "
    "(a) every key with an entry is reported exactly once under with_unchanged, (b,f) classification "
    "equals the reference table in all three modes, (c) diff(x, x) has no change, (d) diff(b, a) is "
    "diff(a, b) with add/delete and old/new swapped, (e) renames pair one deleted and one added key "
    "with the same truthy hash, in sorted-key queue order, undoing them gives the rename-free diff, "
    "no pairable add/delete remains; under hash_only without with_unchanged only directory entries "
    "below a directory with equal hash on both sides whose descendant files are identical may be "
    "omitted. Non-trivial = both sides non-empty, >= 1 nested key, >= 1 common key whose entries "
    "differ; distinct = SHA-1 of the canonical case JSON."
)
ASSUMPTIONS = [
    "indexes are well-formed: file keys are prefix-free, directory entries carry Meta(isdir=True), a "
    "directory entry's .dir hash is a function of its descendant file keys and hashes",
    "outside the storage arm no storage is attached (nothing is lazily loaded; with_unknown cannot fire)",
    "storage arm: explicit directory entries are marked loaded=True (what the loader leaves behind; an "
    "unloaded directory entry without a loadable object is by construction un-enumerable), unloaded "
    "entries are never nested (they may sit at the root key () and may list no file); keys below a loadable entry are expected in the "
    "form the loader produces (Meta(md5=oid) + md5 hash, explicit hash-less intermediate directories)",
    "an entry with a hash and no meta is read as Meta() (what info()/ls() hand to the diff)",
    "shallow: the diff does not list below an entry that carries a hash; what happens to keys inside such "
    "a sub-tree when the other side leads the descent there is unspecified, so only consistency with some "
    "seen/not-seen combination is required for them",
    "SQLite arm: entries are restricted to what Meta.to_dict()/from_dict() round-trips (no mtime/inode; no "
    "Meta() on an entry without a hash, which is stored as {} and read back as None)",
    "without meta_cmp_key (or with the identity) metas compare by Meta.__eq__, i.e. remote, is_link, "
    "destination and nlink (declared eq=False) do not count; key functions are None-safe like the callers'",
    "roots do not overlap (no duplicates, no root a prefix of another): each root is diffed on its own, so "
    "shared keys are reported once per root by design of the loop; roots are not drawn in the storage arm "
    "(a root inside an un-enumerable directory raises DataIndexDirError from info())",
    "an entry object is shared between the two indexes only under the same key: DataIndexEntry.key is part "
    "of the object (Change.key reads it), so one object stored under two different keys is ill-formed; "
    "re-use under different keys is covered for the Meta / HashInfo sub-objects instead. Sharing is not "
    "generated in the storage arm (loading flips entry.loaded on the shared object) nor in the SQLite arm",
    "hash_only and meta_only are not combined; with_renames is not combined with meta_only (assert in diff())",
    "view arm: filters are prefix-closed over non-empty keys (a kept key implies its non-empty ancestors are "
    "kept: DataIndexView.ls/traverse never descend below a rejected key, so other filters have no key-by-key "
    "reading); filter_fn(()) may be False, the root is inside every view (__getitem__/traverse special-case "
    "it) - but an explicit entry at () is only generated under a filter that accepts () (iteritems never "
    "yields it, __getitem__ always returns it: unspecified); a kept directory entry's derived .dir hash is a "
    "function of the files the view shows below it (with one filter on both sides this is implied by the "
    "hash being a function of all files below it); views are not drawn over SQLite edit histories",
    "lazy-view arm (views over indexes with unloaded directory objects): an entry at () - e.g. the whole tree "
    "as one unloaded directory object - goes with a filter that accepts (); the hash of an unloaded directory "
    "object names its whole listing whatever part of it the view shows, so a view shows a loadable directory "
    "object partly only when both arguments are views under one and the same filter (equal hash => equal "
    "listing => equal shown children; with different filters or a plain index on the other side 'equal .dir "
    "hash => equal children' would not hold for what diff() is given); under with_unknown a view's filter "
    "keeps the un-enumerable directory objects of its index: DataIndexView.ls(key) loads the underlying entry "
    "at key before it consults the filter, so for a filtered-out un-enumerable directory whose key the other "
    "side lists below, HEAD reports UNKNOWN for keys the view does not contain (without with_unknown: ADD / "
    "DELETE as the table says) - reported as questionable, not asserted",
    "first call vs later call: what diff() reports does not depend on which directory objects were loaded "
    "before the call (loading is an implementation detail of ls()/info()); the first-call answer is judged "
    "against the same reference and the same rename-free diff as the later one",
]

ADD, MODIFY, RENAME, DELETE, UNCHANGED = "add", "modify", "rename", "delete", "unchanged"
UNKNOWN = "unknown"

# ------------------------------------------------------------------------------------------------
# generator
# ------------------------------------------------------------------------------------------------
NAMES = ["a", "b", "c", "d", "sub", "x.y", "é", "sp ace", "a.dir"]
_V = [hashlib.md5(bytes([65 + i]) * 4).hexdigest() for i in range(6)]  # noqa: S324
# NB Hypothesis favours the first element of a sampled_from / the low end of an integer range, so
# the common, "interesting" choice always comes first and rare variants last.
HASHES = (
    [["md5", v] for v in _V[:3]]
    + [None]
    + [["md5", v] for v in _V]
    + [None, ["sha256", _V[0]], ["md5", None]]
)
FILE_METAS = [
    {}, {"size": 3}, None, {"isexec": True}, {}, {"size": 0}, {"size": 3}, None, {"size": 4},
    {"size": 3, "isexec": True}, {"etag": "e1"}, {"etag": "e2"}, {"md5": _V[1]},
    {"version_id": "v1", "size": 3}, {"mtime": 1.5, "inode": 7, "size": 3}, {"checksum": "c"},
    {"size": 3, "remote": "r1"}, {"size": 3, "is_link": True, "destination": "t1"}, {"remote": "r2"},
]
# Meta fields declared eq=False: invisible to Meta.__eq__, visible to a caller's meta_cmp_key
NONEQ = ("remote", "is_link", "destination", "nlink")
NONEQ_EDITS = [{"remote": "r1"}, {"is_link": True, "destination": "t1"}, {"remote": "r2"},
               {"is_link": True, "destination": "t2"}, {"nlink": 2}, {"remote": None},
               {"is_link": False, "destination": None}, {"nlink": 1}]
# meta_cmp_key family: no key, field tuples (also over the eq=False fields), identity, constant
CMPKEYS = [
    False, ["isdir", "isexec"], ["isdir", "is_link", "destination"], False, ["remote"],
    ["isdir", "size", "is_link", "destination", "remote"], "identity", ["size", "remote", "nlink"],
    ["isdir", "isexec"], "const", ["etag", "md5", "version_id", "checksum"], ["nlink"], ["destination"],
    ["isdir", "size", "nfiles", "isexec", "mtime", "inode"],
]
META_DEFAULTS = {"isdir": False, "isexec": False, "is_link": False, "nlink": 1}
DIR_EXTRAS = [{}, {}, {}, {"nfiles": 2}, {"size": 7, "nfiles": 1}, {"isexec": True}]

_names = st.sampled_from(NAMES)
_hashes = st.sampled_from(HASHES)
_hashes_ren = st.sampled_from([["md5", _V[0]], ["md5", _V[1]], ["md5", _V[0]], None, ["md5", _V[2]],
                               ["md5", None], ["sha256", _V[0]]])
_metas = st.sampled_from(FILE_METAS)
_extras = st.sampled_from(DIR_EXTRAS)
_cmpkeys = st.sampled_from(CMPKEYS)
_noneq = st.sampled_from(NONEQ_EDITS)
# strategies are built once (building one per draw dominates the cost of a case otherwise)
_bool = st.booleans()
_hashed = st.sampled_from([True, False, True])
_nroot = st.sampled_from([4, 3, 5, 2, 6, 1])
_nsub = st.sampled_from([3, 2, 4, 1, 0])
_isdir_root = st.sampled_from([True, False])
_isdir_sub = st.sampled_from([False, True, False])
_idx = st.integers(0, 999)
_i20 = st.integers(0, 19)
_i25 = st.integers(0, 24)
_i4 = st.integers(0, 3)
_i6 = st.integers(0, 5)
_nmut = st.sampled_from([2, 1, 3, 4, 0, 5, 6])
_nmarks = st.sampled_from([1, 2, 0])
_modes3 = st.sampled_from(["full", "hash", "meta"])
_modes2 = st.sampled_from(["full", "hash"])


def _pick(draw, seq):
    return seq[draw(_idx) % len(seq)]


def _file(draw, hs):
    return {"t": "f", "m": draw(_metas), "h": draw(hs)}


def _dir(draw, depth, hs):
    explicit = draw(_bool)
    node = {
        "t": "d",
        "x": explicit,
        "e": draw(_extras) if explicit else {},
        "hd": explicit and draw(_hashed),
        "c": {},
        "lz": None,   # storage arm: "L" = unloaded, loadable .dir entry; "U" = unloaded, object absent
        "uv": 0,
    }
    for _ in range(draw(_nsub if depth else _nroot)):
        name = draw(_names)
        if name in node["c"]:
            continue
        if depth < 3 and draw(_isdir_sub if depth else _isdir_root):
            node["c"][name] = _dir(draw, depth + 1, hs)
        else:
            node["c"][name] = _file(draw, hs)
    return node


def _copy(node):
    if node["t"] == "f":
        return {"t": "f", "m": None if node["m"] is None else dict(node["m"]), "h": node["h"]}
    return {"t": "d", "x": node["x"], "e": dict(node["e"]), "hd": node["hd"],
            "c": {k: _copy(v) for k, v in node["c"].items()}, "lz": node["lz"], "uv": node["uv"]}


def _paths(root, want):
    """All paths (tuples of names) to nodes of type `want` ('f', 'd' or None = any); root = ()."""
    out = []

    def rec(node, path):
        if want is None or node["t"] == want:
            out.append(path)
        if node["t"] == "d":
            for name in sorted(node["c"]):
                rec(node["c"][name], (*path, name))

    rec(root, ())
    return out


def _get(root, path):
    node = root
    for p in path:
        node = node["c"][p]
    return node


MUTATIONS = ["rehash", "noneq", "move", "remeta", "add", "drop", "f2d", "d2f", "explicit", "hashed", "rehash",
             "move", "remeta", "add", "dirmeta", "dup", "mvdir", "noneq"]


MUTATIONS_REN = ["move", "mvdir", "move", "rehash", "drop", "add", "mvdir", "move", "f2d", "dup", "d2f",
                 "explicit", "hashed", "remeta", "noneq"]


MUTATIONS_STORE = ["rehash", "uval", "add", "unlazy", "lazy", "unenum", "remeta", "move", "drop", "noneq", "f2d",
                   "d2f", "explicit", "hashed", "mvdir"]


# lazy-view arm (views over indexes of the storage arm): files move more often, so that deleted and added
# keys share a hash inside / across the unloaded directory objects
MUTATIONS_LV = ["move", "mvdir", "move", "rehash", "add", "drop", "move", "dup", "unlazy", "lazy", "remeta",
                "unenum", "f2d", "d2f", "move", "explicit", "hashed", "uval", "noneq"]


def _mark(draw, root, lz):
    """Turn a directory into an unloaded .dir entry (loadable or not): mostly a non-root directory (a new,
    possibly empty one if there is none), sometimes the root key () itself."""
    cands = [p for p in _paths(root, "d") if p]
    where = draw(_i6)
    if where == 5:
        node = root
    elif cands and where != 4:
        node = _get(root, _pick(draw, cands))
    else:
        node = _dir(draw, 3, _hashes)
        _get(root, _pick(draw, _paths(root, "d")))["c"][draw(_names)] = node
    node["lz"], node["uv"] = lz, draw(_i4)


def _mutate(draw, root, muts, hs):  # noqa: C901, PLR0912
    op = _pick(draw, muts)
    files = _paths(root, "f")
    dirs = _paths(root, "d")
    if op in ("rehash", "remeta", "noneq", "move", "f2d", "dup") and not files:
        op = "add"
    if op == "rehash":
        _get(root, _pick(draw, files))["h"] = draw(hs)
    elif op == "remeta":
        _get(root, _pick(draw, files))["m"] = draw(_metas)
    elif op == "noneq":
        # change only fields Meta.__eq__ ignores (symlink retargeted, file moved to another remote)
        node = _get(root, _pick(draw, files))
        node["m"] = {k: v for k, v in {**(node["m"] or {}), **draw(_noneq)}.items()
                     if v is not None and v is not False and (k, v) != ("nlink", 1)}
    elif op == "drop":
        cands = [p for p in _paths(root, None) if p]
        if cands:
            p = _pick(draw, cands)
            del _get(root, p[:-1])["c"][p[-1]]
    elif op == "add":
        d = _get(root, _pick(draw, dirs))
        d["c"][draw(_names)] = _file(draw, hs)  # may replace a file or a whole directory (kind change)
    elif op in ("move", "dup"):
        p = _pick(draw, files)
        node = _get(root, p)
        if op == "move":
            del _get(root, p[:-1])["c"][p[-1]]
        dirs = _paths(root, "d")
        d = _get(root, _pick(draw, dirs))
        d["c"][draw(_names)] = _copy(node)
    elif op == "mvdir":
        cands = [p for p in dirs if p]
        if cands:
            p = _pick(draw, cands)
            node = _get(root, p)
            del _get(root, p[:-1])["c"][p[-1]]
            d = _get(root, _pick(draw, _paths(root, "d")))
            d["c"][draw(_names)] = node  # a directory rename: every file below it moves
    elif op in ("lazy", "unenum"):
        _mark(draw, root, "L" if op == "lazy" else "U")
    elif op == "unlazy":
        cands = [p for p in dirs if _get(root, p)["lz"]]
        if cands:
            _get(root, _pick(draw, cands))["lz"] = None
    elif op == "uval":
        cands = [p for p in dirs if _get(root, p)["lz"] == "U"]
        if cands:
            _get(root, _pick(draw, cands))["uv"] = draw(_i4)
    elif op == "f2d":
        p = _pick(draw, files)
        old = _get(root, p)
        new = _dir(draw, min(len(p), 3), hs)
        if draw(_bool):
            new["c"][draw(_names)] = _copy(old)  # the file moves inside the new directory
        _get(root, p[:-1])["c"][p[-1]] = new
    elif op == "d2f":
        cands = [p for p in dirs if p]
        if cands:
            p = _pick(draw, cands)
            _get(root, p[:-1])["c"][p[-1]] = _file(draw, hs)
    elif op == "explicit":
        d = _get(root, _pick(draw, dirs))
        d["x"] = not d["x"]
        if not d["x"]:
            d["hd"], d["e"] = False, {}
    elif op == "hashed":
        d = _get(root, _pick(draw, dirs))
        if d["x"]:
            d["hd"] = not d["hd"]
        else:
            d["x"], d["hd"] = True, True
    elif op == "dirmeta":
        cands = [p for p in dirs if _get(root, p)["x"]]
        if cands:
            _get(root, _pick(draw, cands))["e"] = draw(_extras)
    return op


def _md5(h):
    ok = h is not None and h[0] == "md5" and h[1] and not h[1].endswith(".dir")
    return h if ok else ["md5", _V[0]]


def _has_files(node):
    return node["t"] == "f" or any(_has_files(c) for c in node["c"].values())


def _flatten(root, storage=False):
    """tree -> spec list [[key, meta, hash, isdir], ...] sorted by key.

    Storage arm: a directory marked "U" becomes one entry with hash spec ["U", n] and nothing below it;
    a directory marked "L" becomes one entry with hash spec "L", and the keys below it are listed in the
    form the index has *after* loading it (files: Meta(md5=oid) + md5 hash; every intermediate directory
    explicit, Meta(isdir=True), no hash) - build_index leaves them out and writes the listing object.
    """
    out = []

    def rec(node, key, in_lazy):
        if node["t"] == "f":
            if in_lazy:
                h = _md5(node["h"])
                out.append([list(key), {"md5": h[1]}, h, False])
            else:
                out.append([list(key), node["m"], node["h"], False])
            return
        if in_lazy:
            if not _has_files(node):
                return
            out.append([list(key), {"isdir": True}, None, True])
        elif storage and node["lz"] == "U":
            out.append([list(key), {"isdir": True, **node["e"]}, ["U", node["uv"]], True])
            return
        elif storage and node["lz"] == "L":   # also with no file below it: an empty listing object
            out.append([list(key), {"isdir": True, **node["e"]}, "L", True])
            in_lazy = True
        elif node["x"]:
            out.append([list(key), {"isdir": True, **node["e"]}, "D" if node["hd"] else None, True])
        for name in sorted(node["c"]):
            rec(node["c"][name], (*key, name), in_lazy)

    rec(root, (), False)
    out.sort(key=lambda e: e[0])
    return out


SQ_LOST = ("mtime", "inode", "is_link", "destination", "nlink")   # not written by Meta.to_dict()


def _sq_spec(spec):
    """Entries in a form that survives the SQLite serialisation unchanged: Meta.to_dict() has no
    mtime/inode, and Meta() is written as {} and read back as None (visible only without a hash)."""
    out = []
    for key, meta, h, isdir in spec:
        if meta is not None:
            meta = {k: v for k, v in meta.items() if k not in SQ_LOST}
            if not meta and not (h == "D" or (h is not None and h[1])):
                meta = None
        out.append([key, meta, h, isdir])
    return out


def _history(draw, spec):
    """An edit history (list of ["set", key, meta, hash, isdir] | ["del", key] | ["pop", key] |
    ["commit"]) whose final content is exactly `spec`: overwrites, explicit directory entries that are
    written and deleted again while their children remain, leaves written and deleted, re-adds."""
    keys = {tuple(e[0]) for e in spec}
    files = {tuple(e[0]) for e in spec if not e[3]}
    order = [list(e) for e in spec]
    if draw(_bool):
        order.reverse()
    ops = []
    for e in order:
        if draw(_isdir_sub):  # overwrite: an earlier version of the entry
            alt = [e[0], {"isdir": True, "nfiles": 9}, None, True] if e[3] else [e[0], {"size": 9}, ["md5", _V[5]], False]
            ops.append(["set", *alt])
        ops.append(["set", *e])
    # implicit directories of the final content (root included): explicit entry written, then deleted
    impl = sorted({k[:i] for k in keys for i in range(len(k))} - keys)
    extras = []
    for k in impl[:4]:
        if draw(_isdir_root):
            extras.append([list(k), {"isdir": True}, "D" if draw(_bool) else None, True])
    # leaves that do not survive
    dirs = sorted({k[:i] for k in keys for i in range(len(k))} | {k for k in keys if k not in files} | {()})
    for _ in range(draw(_nmarks)):
        d = _pick(draw, dirs)
        k = (*d, "zz")
        if k not in keys and [list(k)] not in [[x[0]] for x in extras]:
            extras.append([list(k), {"size": 1}, ["md5", _V[4]], False])
    for x in extras:
        ops.insert(draw(_idx) % (len(ops) + 1), ["set", *x])
    if draw(_bool):
        ops.append(["commit"])
    tail = [["pop" if draw(_bool) else "del", x[0]] for x in extras]
    for _ in range(draw(_nmarks)):   # delete a surviving entry and write it again
        if spec:
            e = _pick(draw, spec)
            tail.insert(draw(_idx) % (len(tail) + 1), ["readd", *e])
    for t in tail:
        if t[0] == "readd":
            ops.append(["del", t[1]])
            ops.append(["set", *t[1:]])
        else:
            ops.append(t)
    if draw(_bool):
        ops.append(["commit"])
    return ops


_sharekind = st.sampled_from([0, 0, 1, 0, 2, 0, 3, 5, 0, 4, 1, 2])
_rootkind = st.sampled_from([0, 0, 2, 0, 3, 0, 1, 4, 0, 2, 5, 3])


def _roots(draw, a, b):
    """roots option: None (mostly), [()], or 1-4 drawn keys in drawn order - files, explicit and implicit
    directories, keys present on one side only, keys present nowhere. Overlapping roots (duplicates, one
    root a prefix of another) are left out: each root is diffed on its own, so the keys they share are
    reported once per root."""
    kind = draw(_rootkind)
    if kind == 0:
        return None
    if kind == 5:
        return [[]]
    keys = {tuple(e[0]) for spec in (a, b) if spec for e in spec}
    cands = {k[:i] for k in keys for i in range(1, len(k) + 1)}
    dirs = sorted(cands - {k for k in keys if k in cands and not any(len(x) > len(k) and x[:len(k)] == k for x in cands)})
    cands |= {(*d, "zz") for d in dirs[:3]} | {("zz",), ("zz", "a")}
    cands = sorted(cands)
    picked = []
    for _ in range(kind if kind > 1 else 1 + draw(_i4)):
        r = _pick(draw, cands)
        if not any(r[:len(p)] == p or p[:len(r)] == r for p in picked):
            picked.append(r)
    return [list(r) for r in picked]


_viewsides = st.sampled_from(["both", "both", "old", "new", "both", "diff"])
_ntwo = st.sampled_from([2, 1, 3, 1, 2])


def _views(draw, a, b):
    """Which side(s) are handed to diff() as a DataIndexView over the drawn (larger) index, and the
    filter: 1-3 kept keys drawn from the nodes of both sides (files, explicit and implicit directories,
    at any depth) plus a key present nowhere; the filter keeps their non-empty ancestors, the keys
    themselves and everything below them (what DVC's target filters look like), and answers False
    (mostly - as DVC's and the library's own test filters do) or True for the empty key.  Both sides
    mostly get the same filter; sometimes only one side is a view or the filters differ."""
    keys = {tuple(e[0]) for spec in (a, b) if spec for e in spec}
    cands = sorted({k[:i] for k in keys for i in range(1, len(k) + 1)} | {("zz",)})

    tops = [k for k in cands if len(k) == 1]

    def one(spec):
        keep = []
        for i in range(draw(_ntwo)):
            # the first kept key is mostly a top-level one (a whole sub-tree stays in the view)
            k = _pick(draw, tops if i == 0 and draw(_hashed) else cands)
            if k not in keep:
                keep.append(k)
        # an explicit entry at () is only generated under a filter that keeps ()
        root = draw(_isdir_sub) or any(not e[0] for e in spec)
        return {"keep": [list(k) for k in keep], "root": bool(root)}

    which = draw(_viewsides)
    out = {"old": None, "new": None}
    if which in ("both", "diff") and a is not None and b is not None:
        out["old"] = one(a)
        if which == "diff":
            out["new"] = one(b)
        else:
            out["new"] = {"keep": [list(k) for k in out["old"]["keep"]],
                          "root": bool(out["old"]["root"] or any(not e[0] for e in b))}
            out["old"]["root"] = out["new"]["root"] = bool(out["old"]["root"] or out["new"]["root"])
    else:
        side = which if which in ("old", "new") else "new"
        spec = a if side == "old" else b
        if spec is None:
            side, spec = ("new", b) if side == "old" else ("old", a)
        if spec is not None:
            out[side] = one(spec)
    return out if out["old"] or out["new"] else None


_lvshape = st.sampled_from(["root", "general", "root", "dirs", "root", "general"])
_lvsides = st.sampled_from(["both", "both", "old", "both", "new", "diff", "both", "none"])
_lvall = st.sampled_from([True, False, False, True])


def _views_lazy(draw, a, b):
    """View specs for the lazy-view arm (indexes of the storage arm).  As _views, plus: a filter that keeps
    every key ({"all": true} - `lambda key: True`); an entry at () (e.g. the whole tree as one unloaded
    directory object at the root key) goes with a filter that accepts (); a loadable directory object is
    shown partly (a kept key strictly below it) only under one filter shared by both sides - otherwise
    "equal .dir hash => equal children" would not hold for what the two arguments show."""
    keys = {tuple(e[0]) for spec in (a, b) if spec for e in spec}
    cands = sorted({k[:i] for k in keys for i in range(1, len(k) + 1)} | {("zz",)})
    lazy = {tuple(e[0]) for spec in (a, b) if spec for e in spec if _lazy_kind(e[2]) == "L"}
    free = [k for k in cands if not any(len(k) > len(d) and k[:len(d)] == d for d in lazy)]

    def one(spec, pool):
        root = draw(_isdir_sub) or any(not e[0] for e in spec)
        if draw(_lvall) or not pool:
            return {"keep": [], "root": True, "all": True}
        ptops = [k for k in pool if len(k) == 1]
        keep = []
        for i in range(draw(_ntwo)):
            k = _pick(draw, ptops if i == 0 and ptops and draw(_hashed) else pool)
            if k not in keep:
                keep.append(k)
        return {"keep": [list(k) for k in keep], "root": bool(root)}

    which = draw(_lvsides)
    out = {"old": None, "new": None}
    if which == "none":
        return None
    if which in ("both", "diff") and a is not None and b is not None:
        if which == "diff":
            out["old"], out["new"] = one(a, free), one(b, free)
        else:
            out["old"] = one(a, cands)
            out["new"] = dict(out["old"], keep=[list(k) for k in out["old"]["keep"]])
            out["old"]["root"] = out["new"]["root"] = bool(out["old"]["root"] or any(not e[0] for e in b))
    else:
        side = which if which in ("old", "new") else "new"
        spec = a if side == "old" else b
        if spec is None:
            side, spec = ("new", b) if side == "old" else ("old", a)
        if spec is not None:
            out[side] = one(spec, free)
    return out if out["old"] or out["new"] else None


def _keep_unenumerable(case):
    """Under with_unknown a view's filter keeps the un-enumerable directory objects of its index (see
    ASSUMPTIONS: DataIndexView.ls(key) loads the underlying entry at `key` before it consults the filter)."""
    vws = case["views"]
    sides = [s_ for s_ in ("old", "new") if vws.get(s_) and case[s_] is not None]
    same = len(sides) == 2 and vws["old"] == vws["new"]
    us = {s_: [list(e[0]) for e in case[s_] if _lazy_kind(e[2]) == "U" and e[0]] for s_ in sides}
    for s_ in sides:
        if vws[s_].get("all"):
            continue
        for k in (us["old"] + us["new"]) if same else us[s_]:
            if k not in vws[s_]["keep"]:
                vws[s_]["keep"].append(k)


@st.composite
def cases(draw, mode=None, renames=None, storage=False, sqlite=False, views=False):
    # the rename arm draws hashes from three values and moves files more often, so that several
    # deleted and added keys carry the same hash
    lv = bool(storage and views)   # lazy-view arm: views over indexes of the storage arm, renames mostly on
    if lv and renames is None:
        renames = draw(_hashed)
    hs = _hashes_ren if renames else _hashes
    muts = MUTATIONS_REN if renames else MUTATIONS
    if storage:
        muts = MUTATIONS_LV if lv else MUTATIONS_STORE
    base = _dir(draw, 0, hs)
    shape = draw(_lvshape) if lv else "general"
    if shape == "root":
        # the whole tree is one unloaded, loadable directory object at the root key ()
        base["lz"], base["uv"] = "L", 0
    elif shape == "dirs":
        # the only materialised entries are 1-3 unloaded directory objects at non-root keys
        kids = {}
        for i in range(draw(_ntwo)):
            node = _dir(draw, 1, hs)
            node["lz"], node["uv"] = ("U" if i and draw(_i4) == 3 else "L"), draw(_i4)
            kids[draw(_names)] = node
        base["c"] = kids
    elif storage:
        # 1-3 unloaded directory entries shared by both sides: at least one whose object is absent
        _mark(draw, base, "U")
        for _ in range(draw(_nmarks)):
            _mark(draw, base, "U" if draw(_bool) else "L")
    if draw(_i20) != 19:
        base["x"], base["hd"], base["e"] = False, False, {}  # explicit root entry: rare
    other = _copy(base)
    ops = []
    for _ in range(draw(_nmut)):
        ops.append(_mutate(draw, other, muts, hs))
    a, b = _flatten(base, storage), _flatten(other, storage)
    if draw(_bool):
        a, b = b, a
    absent = draw(_i25)
    if absent == 24:
        a = None
    elif absent == 23:
        b = None
    elif absent == 22:
        a = []
    if mode is None:
        mode = draw(_modes2 if renames else _modes3)
    if renames is None:
        renames = mode != "meta" and draw(_bool)
    opts = {
        "mode": mode,
        "with_unchanged": draw(_bool),
        "cmpkey": draw(_cmpkeys),
        "shallow": draw(_i4) == 3,
        "with_renames": bool(renames and mode != "meta"),
        "with_unknown": draw(_i6) == 5,
    }
    case = {"old": a, "new": b, "opts": opts, "ops": ops}
    opts["roots"] = None if storage else _roots(draw, a, b)
    if not storage and not sqlite and a is not None and b is not None:
        kind = draw(_sharekind)
        if kind:
            share = {}
            if kind in (1, 3):
                share["keys"] = "all"
            elif kind == 2:
                share["keys"] = "dirs"
            elif kind == 5:
                same = [e[0] for e in a if e in b]
                share["keys"] = [k for k in same if draw(_bool)]
            if kind in (3, 4):
                share["intern"] = True
            case["share"] = share
    if views and not storage and not sqlite:
        vws = _views(draw, a, b)
        if vws:
            case["views"] = vws
    if lv:
        vws = _views_lazy(draw, a, b)
        if vws:
            case["views"] = vws
    if sqlite:
        # either side may be an SQLite-backed index (DataIndex.open) that reaches its content through
        # an edit history in one session; at least one side is
        which = _pick(draw, ["both", "new", "old", "both"])
        case["sqlite"] = {}
        for side in ("old", "new"):
            if case[side] is not None:
                case[side] = _sq_spec(case[side])
            if case[side] is not None and which in (side, "both"):
                case["sqlite"][side] = _history(draw, case[side])
            else:
                case["sqlite"][side] = None
    if storage:
        opts["with_unknown"] = not draw(_i4) == 3
        opts["shallow"] = draw(_i6) == 5
        case["storage"] = True
        case["storage_sqlite"] = draw(_i4) == 3   # both indexes on the SQLite trie
        if case.get("views") and opts["with_unknown"]:
            _keep_unenumerable(case)
    return case


# ------------------------------------------------------------------------------------------------
# flat reference
# ------------------------------------------------------------------------------------------------
def _truthy(h):
    return h is not None and bool(h[1])


def _norm_meta(m):
    if m is None:
        return None
    return {k: v for k, v in m.items() if v is not None and v is not False and (k, v) != ("nlink", 1)}


UVALS = ["c" * 32, "d" * 32, "e" * 32, "c" * 32]


def _lazy_kind(h):
    if h == "L":
        return "L"
    if isinstance(h, list) and h and h[0] == "U":
        return "U"
    return None


def lazy_manifest(spec, dkey):
    """{relpath: oid} of the files the spec lists below the lazy directory dkey."""
    n = len(dkey)
    return {"/".join(e[0][n:]): e[2][1] for e in spec
            if not e[3] and len(e[0]) > n and tuple(e[0][:n]) == dkey}


def spec_hash(spec, key, h):
    """hash spec -> [name, value] | None"""
    if h == "D":
        return derived_hash(spec, key)
    if h == "L":
        from .. import ref

        return ["md5", ref.ref_tree_oid(lazy_manifest(spec, key))]
    if _lazy_kind(h) == "U":
        return ["md5", UVALS[h[1] % len(UVALS)] + ".dir"]
    return h


def check_spec(spec, storage=False):
    keys = [tuple(e[0]) for e in spec]
    if len(set(keys)) != len(keys):
        raise HarnessError(f"malformed index spec (duplicate key): {spec}")
    filekeys = {tuple(e[0]) for e in spec if not e[3]}
    for k in keys:
        for i in range(len(k)):
            if k[:i] in filekeys:
                raise HarnessError(f"malformed index spec (file key {k[:i]} is a prefix of {k})")
    for e in spec:
        if e[3] and not (e[1] and e[1].get("isdir")):
            raise HarnessError(f"malformed index spec (directory entry without isdir): {e}")
        if e[2] == "D" and not e[3]:
            raise HarnessError(f"malformed index spec (derived hash on a file): {e}")
    for e in spec:
        if not _lazy_kind(e[2]):
            continue
        k = tuple(e[0])
        if not storage or not e[3]:
            raise HarnessError(f"malformed index spec (unloaded directory entry {e})")
        below = [x for x in spec if len(x[0]) > len(k) and tuple(x[0][:len(k)]) == k]
        if _lazy_kind(e[2]) == "U" and below:
            raise HarnessError(f"malformed index spec (keys below the un-enumerable {k})")
        for x in below:
            okf = not x[3] and x[2] == _md5(x[2]) and x[1] == {"md5": x[2][1]}
            okd = x[3] and x[2] is None and x[1] == {"isdir": True}
            if not (okf or okd):
                raise HarnessError(f"malformed index spec ({x} below the lazy {k} is not in loaded form)")
            if okf and any(
                [list(x[0][:i]), {"isdir": True}, None, True] not in spec for i in range(len(k) + 1, len(x[0]))
            ):
                raise HarnessError(f"malformed index spec (implicit directory above {x} below the lazy {k})")
        if any(_lazy_kind(x[2]) for x in below):
            raise HarnessError(f"malformed index spec (unloaded entry below the unloaded {k})")


def derived_hash(spec, dkey):
    """A directory's hash as a function of its descendant files (key below it + hash)."""
    n = len(dkey)
    lst = sorted(
        [list(e[0][n:]), e[2]] for e in spec if not e[3] and len(e[0]) > n and tuple(e[0][:n]) == dkey
    )
    raw = json.dumps(lst, sort_keys=True, ensure_ascii=True).encode()
    return ["md5", hashlib.md5(raw).hexdigest() + ".dir"]  # noqa: S324


def resolve(spec, full=None):
    """spec -> {key: {"meta": normalised dict|None, "hash": (name, value)|None, "isdir": bool}}

    full: the spec of the whole index when `spec` is what a view shows of it - the hash of an unloaded
    directory object names the whole listing object, whatever part of it the view shows."""
    out = {}
    for key, meta, h, isdir in spec:
        key = tuple(key)
        lz = _lazy_kind(h)
        h = spec_hash(full if lz and full is not None else spec, key, h)
        out[key] = {"meta": meta, "hash": None if h is None else (h[0], h[1]), "isdir": bool(isdir)}
        if lz:
            out[key]["lz"] = lz
    return out


def view(full, shallow):
    """What the diff is specified to look at: under `shallow` a hashed entry is a leaf."""
    if full is None:
        return {}
    out = {}
    for key, e in full.items():
        hidden = shallow and any(
            key[:i] in full and _truthy(full[key[:i]]["hash"]) for i in range(len(key))
        )
        if not hidden:
            # an entry that has a hash and no meta is read as Meta() by info()/ls()
            meta = _norm_meta(e["meta"])
            if meta is None and _truthy(e["hash"]):
                meta = {}
            out[key] = {"meta": meta, "hash": e["hash"] if _truthy(e["hash"]) else None,
                        "isdir": e["isdir"]}
    return out


def cmp_fields(cmpkey):
    if cmpkey is True:   # cases recorded before the key family existed
        return ["isdir", "isexec"]
    return cmpkey if isinstance(cmpkey, list) else None


def _cmp(m, cmpkey):
    """The caller's key applied to a (non-None) reference meta; without a key function, or with the
    identity, metas compare by Meta's own equality, which ignores the fields declared eq=False."""
    if m is None:
        return None
    if cmpkey == "const":
        return 0
    fields = cmp_fields(cmpkey)
    if fields is None:
        return {k: v for k, v in m.items() if k not in NONEQ}
    return tuple(m.get(f, META_DEFAULTS.get(f)) for f in fields)


def ref_meta_diff(om, nm, cmpkey):
    if om is None and nm is None:
        return UNCHANGED
    if om is None:
        return ADD
    if nm is None:
        return DELETE
    return UNCHANGED if _cmp(om, cmpkey) == _cmp(nm, cmpkey) else MODIFY


def ref_hash_diff(oh, nh):
    if oh is None and nh is None:
        return UNCHANGED
    if oh is None:
        return ADD
    if nh is None:
        return DELETE
    return UNCHANGED if oh == nh else MODIFY


def classify(o, n, mode, cmpkey):
    om, nm = (o["meta"] if o else None), (n["meta"] if n else None)
    oh, nh = (o["hash"] if o else None), (n["hash"] if n else None)
    if mode == "meta":
        return ref_meta_diff(om, nm, cmpkey)
    if mode == "hash":
        return ref_hash_diff(oh, nh)
    if o is None:
        return ADD
    if n is None:
        return DELETE
    if oh is None and nh is None:
        return ref_meta_diff(om, nm, cmpkey)  # no hash on either side: metadata decides
    same = oh == nh and ref_meta_diff(om, nm, cmpkey) == UNCHANGED
    return UNCHANGED if same else MODIFY


def ref_renames(table, ov, nv):
    """Queue pairing documented in _detect_renames: deletions and additions sorted by key, i-th
    deletion of a hash pairs with the i-th addition of that hash."""
    added = sorted(k for k, t in table.items() if t == ADD)
    deleted = sorted(k for k, t in table.items() if t == DELETE)
    queues = {}
    for k in deleted:
        h = ov[k]["hash"] if k in ov else None
        queues.setdefault(h, []).append(k)
    pairs = []
    for k in added:
        h = nv[k]["hash"] if k in nv else None
        if h is not None and queues.get(h):
            pairs.append((queues[h].pop(0), k))
    return sorted(pairs)


# ------------------------------------------------------------------------------------------------
# running the real thing
# ------------------------------------------------------------------------------------------------
def build_index(spec, odb=None, sqpath=None, handles=None, donors=None, made=None, intern=None):
    """odb: storage arm - the index gets a cache ObjectStorage at (); explicit directory entries are
    marked loaded (the form the loader itself leaves behind), "L"/"U" entries are unloaded .dir entries;
    the listing object of an "L" entry is written into the store as reference bytes, the keys below it
    are left to the loader."""
    from dvc_data.hashfile.hash_info import HashInfo
    from dvc_data.hashfile.meta import Meta
    from dvc_data.index import DataIndex, DataIndexEntry

    if spec is None:
        return None
    if sqpath is None:
        idx = DataIndex()
    else:   # storage arm on the SQLite trie: same content, written directly (no edit history)
        idx = DataIndex.open(sqpath)
        handles.append(idx)
    lazy = [tuple(e[0]) for e in spec if _lazy_kind(e[2]) == "L"]
    for key, meta, h, isdir in spec:
        key = tuple(key)
        if any(len(key) > len(r) and key[:len(r)] == r for r in lazy):
            continue
        lz = _lazy_kind(h)
        h = spec_hash(spec, key, h)
        if donors is not None and key in donors:
            # derived index: the very same DataIndexEntry object as in the other index (new[k] = old[k])
            idx[key] = donors[key]
            continue
        if intern is None:
            m_obj = None if meta is None else Meta(**meta)
            h_obj = None if h is None else HashInfo(name=h[0], value=h[1])
        else:
            # one Meta / HashInfo object per distinct value, reused under every key and on both sides
            mk = None if meta is None else ("m", json.dumps(meta, sort_keys=True))
            hk = None if h is None else ("h", h[0], h[1])
            if mk is not None and mk not in intern:
                intern[mk] = Meta(**meta)
            if hk is not None and hk not in intern:
                intern[hk] = HashInfo(name=h[0], value=h[1])
            m_obj = None if mk is None else intern[mk]
            h_obj = None if hk is None else intern[hk]
        entry = DataIndexEntry(key=key, meta=m_obj, hash_info=h_obj)
        if made is not None:
            made[key] = entry
        if odb is not None and isdir and not lz:
            entry.loaded = True
        if lz == "L":
            from .. import ref

            path = odb.oid_to_path(h[1])
            os.makedirs(os.path.dirname(path), exist_ok=True)
            with open(path, "wb") as f:
                f.write(ref.ref_tree_bytes(lazy_manifest(spec, key)))
        idx[key] = entry
    if odb is not None:
        from dvc_data.index import ObjectStorage

        idx.storage_map.add_cache(ObjectStorage((), odb))
    return idx


def _entry(spec, key, meta, h):
    from dvc_data.hashfile.hash_info import HashInfo
    from dvc_data.hashfile.meta import Meta
    from dvc_data.index import DataIndexEntry

    h = spec_hash(spec, key, h)
    return DataIndexEntry(
        key=key,
        meta=None if meta is None else Meta(**meta),
        hash_info=None if h is None else HashInfo(name=h[0], value=h[1]),
    )


def check_history(spec, history):
    """The history's final content must be the spec (the reference is computed from the spec)."""
    model = {}
    for op in history:
        if op[0] == "set":
            model[tuple(op[1])] = [list(op[1]), op[2], op[3], bool(op[4])]
        elif op[0] in ("del", "pop"):
            if tuple(op[1]) not in model:
                raise HarnessError(f"history deletes the absent key {op[1]}")
            del model[tuple(op[1])]
        elif op[0] != "commit":
            raise HarnessError(f"unknown history op {op}")
    final = sorted(model.values(), key=lambda e: e[0])
    want = sorted(([list(e[0]), e[1], e[2], bool(e[3])] for e in spec), key=lambda e: e[0])
    if final != want:
        raise HarnessError(f"history does not end in the spec: {final} != {want}")
    for e in spec:
        m = e[1] or {}
        if any(f in m for f in SQ_LOST) or (e[1] == {} and not _truthy(spec_hash(spec, tuple(e[0]), e[2]))):
            raise HarnessError(f"entry {e} does not survive SQLite serialisation unchanged")


def build_sqlite(spec, history, path):
    """DataIndex.open(path) driven through the edit history; the handle stays open (live)."""
    from dvc_data.index import DataIndex

    idx = DataIndex.open(path)
    try:
        for op in history:
            if op[0] == "set":
                key = tuple(op[1])
                idx[key] = _entry(spec, key, op[2], op[3])
            elif op[0] == "del":
                del idx[tuple(op[1])]
            elif op[0] == "pop":
                idx.pop(tuple(op[1]))
            else:
                idx.commit()
    except BaseException:
        idx.close()
        raise
    return idx


def view_filter(vs):
    """filter_fn of a view spec: prefix-closed over non-empty keys (a kept key, its non-empty
    ancestors, everything below it); vs["root"] is the answer for the empty key."""
    keep = [tuple(k) for k in vs["keep"]]
    root = bool(vs["root"])
    if any(not k for k in keep):
        raise HarnessError(f"view spec keeps the empty key: {vs}")
    if vs.get("all"):
        if not root:
            raise HarnessError(f"view spec keeps every key but the empty one: {vs}")
        return lambda key: True

    def keeps(key):
        key = tuple(key)
        if not key:
            return root
        return any(k[:len(key)] == key or key[:len(k)] == k for k in keep)

    return keeps


def make_cmp_key(cmpkey):
    """The meta_cmp_key callable for a case; None-safe like the ones callers pass (index checkout)."""
    if not cmpkey:
        return None
    if cmpkey == "identity":
        return lambda meta: meta
    if cmpkey == "const":
        return lambda meta: 0
    fields = tuple(cmp_fields(cmpkey))
    return lambda meta: None if meta is None else tuple(getattr(meta, f) for f in fields)


def real_diff(old, new, opts, **over):
    from dvc_data.index.diff import diff

    o = dict(opts, **over)
    return list(diff(
        old, new,
        with_renames=o["with_renames"],
        with_unchanged=o["with_unchanged"],
        with_unknown=o["with_unknown"],
        hash_only=o["mode"] == "hash",
        meta_only=o["mode"] == "meta",
        meta_cmp_key=make_cmp_key(o["cmpkey"]),
        shallow=o["shallow"],
        roots=None if o.get("roots") is None else [tuple(r) for r in o["roots"]],
    ))


def flat(changes):
    """-> (sorted [(typ, key, has_old, has_new)], sorted [(old key, new key)] of renames, problems)"""
    plain, ren, bad = [], [], []
    for c in changes:
        if c.typ == RENAME:
            if c.old is None or c.new is None:
                bad.append("rename with a missing side")
                continue
            ren.append((tuple(c.old.key), tuple(c.new.key)))
            continue
        if c.typ not in (ADD, MODIFY, DELETE, UNCHANGED, UNKNOWN):
            bad.append(f"change of type {c.typ!r}")
            continue
        if c.old is None and c.new is None:
            bad.append(f"{c.typ} change without entries")
            continue
        key = tuple(c.key)
        if (c.old is not None and tuple(c.old.key) != key) or (
            c.new is not None and tuple(c.new.key) != key
        ):
            bad.append(f"{c.typ} change at {key} carries an entry of another key")
        plain.append((c.typ, key, c.old is not None, c.new is not None))
    return sorted(plain), sorted(ren), bad


def _under_equal_dir(key, ov, nv):
    for i in range(len(key)):
        p = key[:i]
        o, n = ov.get(p), nv.get(p)
        if o and n and o["hash"] and o["hash"] == n["hash"] and o["hash"][1].endswith(".dir"):
            return p
    return None


def _files_below(v, key):
    n = len(key)
    return {k[n:]: e["hash"] for k, e in v.items() if not e["isdir"] and len(k) > n and k[:n] == key}


def outcome(o, n, mode, cmpkey, wu):
    """What the diff must report for a key given the two entries it is specified to see."""
    if o is None and n is None:
        return None
    typ = classify(o, n, mode, cmpkey)
    if typ == UNCHANGED and not wu:
        return None
    return (typ, o is not None, n is not None)


def acceptance(fo, fn, opts):
    """key -> (list of acceptable outcomes, exact?, why not exact).

    Exact keys have one acceptable outcome.  Under `shallow`, a key strictly below a hashed entry of
    its own side is "not looked at" on that side; what the other side's listing does to it is not
    specified anywhere, so for such keys every visible/hidden combination is accepted.  Under
    `with_unknown`, a key strictly below a directory that cannot be enumerated on either side may be
    classified normally or as UNKNOWN; every key outside such directories (the directory's own key
    included: its own hash and meta are known) stays exact.
    """
    mode, cmpkey, wu = opts["mode"], opts["cmpkey"], opts["with_unchanged"]
    of, nf = view(fo, False), view(fn, False)
    op, np_ = view(fo, opts["shallow"]), view(fn, opts["shallow"])
    unenum = set()
    if opts["with_unknown"]:
        unenum = {k for f in (fo, fn) if f for k, e in f.items() if e.get("lz") == "U"}
    acc = {}
    for k in set(of) | set(nf):
        if (k in of) == (k in op) and (k in nf) == (k in np_):
            acc[k] = ([outcome(of.get(k), nf.get(k), mode, cmpkey, wu)], True, "")
        else:
            outs = []
            for o in (of.get(k), op.get(k)):
                for n in (nf.get(k), np_.get(k)):
                    out = outcome(o, n, mode, cmpkey, wu)
                    if out not in outs:
                        outs.append(out)
            acc[k] = (outs, False, "below a hashed entry, shallow")
        if any(k[:i] in unenum for i in range(len(k))):
            outs = list(acc[k][0])
            for out in [(UNKNOWN, k in of, k in nf), (UNKNOWN, k in op, k in np_)]:
                if out not in outs and (out[1] or out[2]):
                    outs.append(out)
            acc[k] = (outs, False, "below an un-enumerable directory, with_unknown")
    return acc


def compare_plain(plain, bad, acc, ov, nv, opts, tag=""):
    """Oracles (a), (b), (f) + the weaker rule for the unchanged-subtree shortcut.

    ov / nv are the unpruned views (used for messages and the shortcut rule)."""
    viols, omitted = [], 0
    mode, wu = opts["mode"], opts["with_unchanged"]
    for b in bad:
        viols.append(Viol(f"malformed-change{tag}", b))
    seen = {}
    for typ, key, has_old, has_new in plain:
        if key in seen:
            viols.append(Viol(f"duplicate-key{tag}:{mode}", f"key {key} reported more than once"))
            continue
        seen[key] = (typ, has_old, has_new)
        if key not in acc:
            viols.append(Viol(f"phantom-key{tag}:{mode}",
                              f"{typ} reported for {key}, which has no entry on either side"))
    shortcut = mode == "hash" and not wu
    for key in sorted(acc):
        outs, exact, why = acc[key]
        got = seen.get(key)
        if got in outs:
            continue
        o, n = ov.get(key), nv.get(key)
        if not exact:
            sig = "shallow-subtree" if "shallow" in why else "unknown-subtree"
            viols.append(Viol(f"{sig}-inconsistent{tag}:{mode}",
                              f"{key} ({why}): reported {got}, acceptable {outs} "
                              f"(old={o}, new={n})"))
            continue
        want = outs[0]
        if got is None and shortcut:
            p = _under_equal_dir(key, ov, nv)
            if p is not None:
                isdir = all(e["isdir"] for e in (o, n) if e)
                if isdir and _files_below(ov, key) == _files_below(nv, key):
                    omitted += 1  # representation difference of a nested directory entry
                    continue
                viols.append(Viol(f"shortcut-hides-change{tag}",
                                  f"{want[0]} at {key} hidden below {p} (equal hash on both sides); "
                                  f"old={o}, new={n}"))
                continue
        if got is None:
            if want[0] == UNCHANGED:
                viols.append(Viol(f"coverage-missing{tag}:{mode}",
                                  f"{key} has an entry but is not reported (with_unchanged)"))
            else:
                viols.append(Viol(f"classify{tag}:{mode}:{want[0]}->unreported",
                                  f"{key}: reference says {want[0]}, diff reports nothing "
                                  f"(old={o}, new={n})"))
        elif want is None or got[0] != want[0]:
            w = UNCHANGED if want is None else want[0]
            viols.append(Viol(f"classify{tag}:{mode}:{w}->{got[0]}",
                              f"{key}: reference says {w}, diff says {got[0]} (old={o}, new={n})"))
        else:
            viols.append(Viol(f"wrong-sides{tag}:{mode}",
                              f"{got[0]} at {key}: old/new present = {got[1]}/{got[2]}, "
                              f"index has {want[1]}/{want[2]}"))
    return viols, omitted


def run_case(case, ctx):
    if case.get("sqlite"):
        handles = []
        with ctx.tmpdir() as d:
            try:
                return _run(case, None, d, handles)
            finally:
                for h in handles:
                    with contextlib.suppress(Exception):
                        h.close()
    if not case.get("storage"):
        return _run(case, None)
    from dvc_objects.fs.local import LocalFileSystem

    from dvc_data.hashfile.db import HashFileDB

    handles = []
    with ctx.tmpdir() as d:
        try:
            return _run(case, HashFileDB(LocalFileSystem(), os.path.join(d, "odb")),
                        d if case.get("storage_sqlite") else None, handles)
        finally:
            for h in handles:
                with contextlib.suppress(Exception):
                    h.close()


def _run(case, odb, sqdir=None, handles=None):  # noqa: C901, PLR0912, PLR0915
    opts = case["opts"]
    mode, cmpkey = opts["mode"], opts["cmpkey"]
    if mode == "meta" and opts["with_renames"]:
        raise HarnessError("meta_only with with_renames is outside the domain (asserted by diff())")
    for side in ("old", "new"):
        if case[side] is not None:
            check_spec(case[side], storage=odb is not None)
    # views: a side handed to diff() as view(index, filter_fn).  bspec = what the underlying index is
    # built from (the whole spec), rspec = what the diff is specified to see (the keys the filter keeps)
    vws = {s_: v for s_, v in (case.get("views") or {}).items() if v is not None}
    if vws and case.get("sqlite"):
        raise HarnessError("views are not generated over SQLite edit histories")
    same_filter = len(vws) == 2 and vws["old"] == vws["new"]
    bspec = {"old": case["old"], "new": case["new"]}
    rspec = dict(bspec)
    filters = {}
    for side, vs in sorted(vws.items()):
        if case[side] is None:
            raise HarnessError(f"view over the absent {side} index")
        keeps = filters[side] = view_filter(vs)
        if not keeps(()) and any(not e[0] for e in case[side]):
            raise HarnessError("an explicit entry at () under a filter that rejects () is outside the domain")
        rspec[side] = [e for e in case[side] if keeps(tuple(e[0]))]
        kept = {tuple(e[0]) for e in rspec[side]}
        if opts["with_unknown"] and any(_lazy_kind(e[2]) == "U" and tuple(e[0]) not in kept for e in case[side]):
            raise HarnessError("with_unknown: a view that filters out an un-enumerable directory object of its "
                               "index is outside the domain (see ASSUMPTIONS)")
        for e in rspec[side]:
            k = tuple(e[0])
            if _lazy_kind(e[2]) == "L" and not same_filter and any(
                    len(x[0]) > len(k) and tuple(x[0][:len(k)]) == k and tuple(x[0]) not in kept for x in case[side]):
                raise HarnessError(f"view shows the directory object {k} partly under a filter the other side "
                                   "does not share: outside the domain (equal .dir hash, different children)")
        # a kept directory's derived hash is a function of the files the view shows below it
        bspec[side] = [
            [e[0], e[1], derived_hash(rspec[side], tuple(e[0])) if e[2] == "D" and keeps(tuple(e[0])) else e[2], e[3]]
            for e in case[side]
        ]
    fo = None if rspec["old"] is None else resolve(rspec["old"], case["old"])
    fn = None if rspec["new"] is None else resolve(rspec["new"], case["new"])
    # ov / nv: unpruned views (entry data by key); pv_o / pv_n: what a shallow diff looks at
    ov, nv = view(fo, False), view(fn, False)
    pv_o, pv_n = view(fo, opts["shallow"]), view(fn, opts["shallow"])
    acc = acceptance(fo, fn, opts)
    # roots: the same key-by-key table, restricted to the keys at or below any root
    roots = opts.get("roots")
    if roots is not None:
        roots = [tuple(r) for r in roots]
        if odb is not None:
            raise HarnessError("roots are not combined with the storage arm")
        for i, r in enumerate(roots):
            if any(r[:len(p)] == p or p[:len(r)] == r for p in roots[:i]):
                raise HarnessError(f"overlapping roots {roots} are outside the domain")

    def covered(k):
        return roots is None or any(k[:len(r)] == r for r in roots)

    acc = {k: v for k, v in acc.items() if covered(k)}

    sq = case.get("sqlite") or {}
    # how the second index is derived: independent build, entries shared by reference with the first
    # index (new[k] = old[k]) for the selected keys whose entries are equal, interned Meta/HashInfo objects
    share = case.get("share")
    if share and (sq or odb is not None):
        raise HarnessError("entry sharing is only generated for plain in-memory indexes")
    intern = {} if share and share.get("intern") else None
    made_old, shared_keys = {}, set()
    built = {}
    for side in ("old", "new"):
        if sq.get(side) is not None:
            check_history(case[side], sq[side])
            built[side] = build_sqlite(case[side], sq[side], os.path.join(sqdir, side + ".db"))
            handles.append(built[side])
        else:
            stsq = os.path.join(sqdir, side + ".db") if odb is not None and sqdir else None
            donors = None
            if side == "new" and share and share.get("keys") and fo is not None and fn is not None:
                sel = share["keys"]
                picked = None if isinstance(sel, str) else {tuple(k) for k in sel}
                donors = {
                    k: made_old[k] for k, e in fo.items()
                    if k in made_old and fn.get(k) == e
                    and (sel == "all" or (sel == "dirs" and e["isdir"]) or (picked is not None and k in picked))
                }
                shared_keys = set(donors)
            built[side] = build_index(bspec[side], odb, stsq, handles, donors=donors,
                                      made=made_old if side == "old" else None, intern=intern)

    def wrap(side, idx):
        if side not in filters or idx is None:
            return idx
        from dvc_data.index import view as index_view

        return index_view(idx, filters[side])

    old, new = wrap("old", built["old"]), wrap("new", built["new"])
    viols = []
    counters = {}

    # -- rename-free diff against the reference: (a), (b), (f) -------------------------------
    base = real_diff(old, new, opts, with_renames=False)
    plain, ren, bad = flat(base)
    if ren:
        viols.append(Viol("rename-without-option", "rename reported although with_renames=False"))
    v, omitted = compare_plain(plain, bad, acc, ov, nv, opts)
    viols += v
    counters["omitted_by_shortcut"] = omitted

    # -- (d) swapping the arguments swaps add/delete and old/new, nothing else ---------------
    swp = {ADD: DELETE, DELETE: ADD}
    rplain, rren, rbad = flat(real_diff(new, old, opts, with_renames=False))
    expect = sorted((swp.get(t, t), k, hn, ho) for t, k, ho, hn in plain)
    if rplain != expect or rren or rbad:
        only_fwd = [x for x in expect if x not in rplain][:3]
        only_rev = [x for x in rplain if x not in expect][:3]
        viols.append(Viol(f"swap-asymmetry:{mode}",
                          f"diff(b, a) is not the mirror of diff(a, b): expected {only_fwd}, got {only_rev}"))

    # -- (c) an index diffed with itself shows no change --------------------------------------
    for name, idx, spec, vw, fullv in (("old", old, bspec["old"], pv_o, ov), ("new", new, bspec["new"], pv_n, nv)):
        if idx is None:
            continue
        copy_path = os.path.join(sqdir, name + "-copy.db") if odb is not None and sqdir else None
        for other in (idx, wrap(name, build_index(spec, odb, copy_path, handles))):
            splain, sren, sbad = flat(real_diff(idx, other, opts))
            changed = [x for x in splain if x[0] != UNCHANGED]
            if changed or sren or sbad:
                viols.append(Viol(f"self-diff:{mode}",
                                  f"diff({name}, {name}) reports {changed[:3] or sren[:3] or sbad[:3]}"))
            elif opts["with_unchanged"]:
                got_keys = sorted(k for _, k, _, _ in splain)
                lo = sorted(filter(covered, vw))
                # a root inside a hashed sub-tree is looked up directly: under shallow the keys below it
                # may be seen although the walk from () would not reach them
                hi = lo if roots is None else sorted(filter(covered, fullv))
                if len(set(got_keys)) != len(got_keys) or not set(lo) <= set(got_keys) <= set(hi):
                    viols.append(Viol(f"self-diff-coverage:{mode}",
                                      f"diff({name}, {name}, with_unchanged) reports keys {got_keys}, "
                                      f"index has {lo}" + ("" if hi == lo else f" .. {hi}")))

    # -- (e) rename detection ------------------------------------------------------------------
    dup_hash = False
    nren = 0
    lived = (plain, ren, bad)
    first_call = False

    def judge_renames(got, tag):
        """Clauses of (e) for one with_renames answer, judged against the reference / the rename-free diff."""
        rn_plain, rn, rn_bad = got
        out, dup = [], False
        for b in rn_bad:
            out.append(Viol(f"malformed-change:renames{tag}", b))
        if old is None or new is None:
            if rn:
                out.append(Viol(f"rename-one-sided{tag}", f"renames {rn[:3]} with one side absent"))
        added = {k for t, k, _, _ in plain if t == ADD}
        deleted = {k for t, k, _, _ in plain if t == DELETE}
        for ok, nk in rn:
            oh = ov[ok]["hash"] if ok in ov else None
            nh = nv[nk]["hash"] if nk in nv else None
            if ok not in deleted or nk not in added:
                out.append(Viol(f"rename-not-add-delete{tag}",
                                f"rename {ok} -> {nk} does not pair a deleted with an added key"))
            elif oh is None or oh != nh:
                out.append(Viol(f"rename-hash-mismatch{tag}",
                                f"rename {ok} ({oh}) -> {nk} ({nh}) does not carry one truthy hash"))
        # undoing the pairing gives exactly the rename-free diff
        undone = sorted(
            rn_plain
            + [(DELETE, ok, True, ok in nv) for ok, _ in rn]
            + [(ADD, nk, nk in ov, True) for _, nk in rn]
        )
        if [(t, k) for t, k, _, _ in undone] != [(t, k) for t, k, _, _ in plain]:
            lost = [x[:2] for x in plain if x[:2] not in [u[:2] for u in undone]][:3]
            extra = [u[:2] for u in undone if u[:2] not in [x[:2] for x in plain]][:3]
            out.append(Viol(f"rename-lost-or-duplicated{tag}",
                            f"undoing renames does not give the plain diff: lost {lost}, extra {extra}, "
                            f"renames {rn[:4]}"))
        # no pairable add/delete is left
        left_add = {}
        for t, k, _, _ in rn_plain:
            if t == ADD and k in nv and nv[k]["hash"] is not None:
                left_add.setdefault(nv[k]["hash"], []).append(k)
        if old is not None and new is not None:
            for t, k, _, _ in rn_plain:
                if t == DELETE and k in ov and ov[k]["hash"] in left_add:
                    out.append(Viol(f"rename-unpaired{tag}",
                                    f"deleted {k} and added {left_add[ov[k]['hash']][0]} carry the "
                                    f"same hash but are not paired"))
                    break
            want_pairs = ref_renames({k: t for t, k, _, _ in plain}, ov, nv)
            if not viols and not out and rn != want_pairs:
                out.append(Viol(f"rename-queue-order{tag}",
                                f"renames {rn} differ from sorted-key queue pairing {want_pairs}"))
            hs = [ov[k]["hash"] for k, _ in want_pairs]
            dup = len(set(hs)) < len(hs)
        return out, dup

    if opts["with_renames"]:
        if odb is not None:
            # storage arm: the same question asked of freshly built indexes / views as their FIRST diff call
            # (no directory object loaded yet - the calls above have walked `old` and `new`); the answer
            # is judged like the later one: what a diff reports does not depend on what was loaded before
            first_call = True
            fresh = {}
            for name in ("old", "new"):
                fpath = os.path.join(sqdir, name + "-first.db") if sqdir else None
                fresh[name] = wrap(name, build_index(bspec[name], odb, fpath, handles))
            v, _ = judge_renames(flat(real_diff(fresh["old"], fresh["new"], opts)), ":first-call")
            viols += v
        lived = flat(real_diff(old, new, opts))
        nren = len(lived[1])
        v, dup_hash = judge_renames(lived, "")
        viols += v

    # -- SQLite: the live handle and the committed, re-opened file give the same diff ---------
    if sq:
        from dvc_data.index import DataIndex

        re = {}
        for side in ("old", "new"):
            if sq.get(side) is not None:
                built[side].commit()
                built[side].close()
                re[side] = DataIndex.open(os.path.join(sqdir, side + ".db"))
                handles.append(re[side])
            else:
                re[side] = built[side]
        r2 = flat(real_diff(re["old"], re["new"], opts))
        want = lived  # what the live handles gave for the same options
        if r2 != want:
            a_only = [x for x in want[0] if x not in r2[0]][:3] or [x for x in want[1] if x not in r2[1]][:3]
            b_only = [x for x in r2[0] if x not in want[0]][:3] or [x for x in r2[1] if x not in want[1]][:3]
            viols.append(Viol(f"live-vs-reopened:{mode}",
                              f"diff through the live SQLite handle(s) differs from the diff of the committed, "
                              f"re-opened file(s): live-only {a_only}, reopened-only {b_only}"))

    # -- bookkeeping ---------------------------------------------------------------------------
    common = set(ov) & set(nv)
    differs = any(
        (ov[k]["meta"], ov[k]["hash"]) != (nv[k]["meta"], nv[k]["hash"]) for k in common
    )
    nested = any(len(k) >= 2 for k in set(ov) | set(nv))
    nontrivial = bool(ov and nv and nested and differs)

    classes = [f"mode={mode}"]
    if sq:
        classes.append("sqlite")
        for side in ("old", "new"):
            h = sq.get(side)
            if h is None:
                continue
            classes.append(f"sqlite:{side}")
            spec = case[side]
            keys = {tuple(e[0]) for e in spec}
            deleted = [tuple(op[1]) for op in h if op[0] in ("del", "pop")]
            if any(k not in keys and any(len(x) > len(k) and x[:len(k)] == k for x in keys) for k in deleted):
                classes.append("sqlite:deleted-dir-entry-children-remain")
            if any(k not in keys and not any(len(x) > len(k) and x[:len(k)] == k for x in keys) for k in deleted):
                classes.append("sqlite:deleted-leaf")
            if any(k in keys for k in deleted):
                classes.append("sqlite:re-added")
            if h and h[-1] != ["commit"]:
                classes.append("sqlite:uncommitted-tail")
    if odb is not None:
        classes.append("storage")
        if sqdir:
            classes.append("storage:sqlite-backend")
        lz = {(k, e["lz"]) for f in (fo, fn) if f for k, e in f.items() if e.get("lz")}
        if any(z == "L" for _, z in lz):
            classes.append("storage:loadable-dir")
        if any(k == () for k, _ in lz):
            classes.append("storage:unloaded-root:" + "+".join(sorted({z for k, z in lz if k == ()})))
        for f in (fo, fn):
            if f and any(e.get("lz") == "L" and not any(len(x) > len(k) and x[:len(k)] == k for x in f)
                         for k, e in f.items()):
                classes.append("storage:empty-loadable-dir")
                break
        us = {k for k, z in lz if z == "U"}
        if us:
            classes.append("storage:unenumerable-dir")
            keys = set(ov) | set(nv)
            if any(k not in us and k[:-1] == u[:-1] and len(k) == len(u) for u in us for k in keys):
                classes.append("storage:unenumerable-with-sibling")
            if len({u[:-1] for u in us}) < len(us):
                classes.append("storage:two-unenumerable-siblings")
            if any(len(k) > len(u) and k[:len(u)] == u for u in us for k in keys):
                classes.append("storage:other-side-lists-below-unenumerable")
        if any(t == UNKNOWN for t, _, _, _ in plain):
            classes.append("storage:unknown-reported")
        if first_call:
            classes.append("storage:first-call-renames")
            if nren:
                classes.append("storage:first-call-renames:renames>=1")
        # what is materialised before anything is loaded: only unloaded directory objects?
        mcls = set()
        for side in ("old", "new"):
            spec = case[side]
            if not spec:
                continue
            lzk = [tuple(e[0]) for e in spec if _lazy_kind(e[2])]
            mat = [tuple(e[0]) for e in spec
                   if not any(len(e[0]) > len(d) and tuple(e[0][:len(d)]) == d for d in lzk)]
            if sorted(mat) != sorted(lzk):
                continue
            kind = "view" if side in vws else "plain"
            what = "whole-tree-one-root-object" if mat == [()] else "only-unloaded-dir-objects"
            mcls.add(f"storage:{kind}:{what}")
            if opts["with_renames"] and nren:
                mcls.add(f"storage:{kind}:{what}:renames>=1")
        classes += sorted(mcls)
        if vws:
            classes.append("storage:view")
            if any(v.get("all") for v in vws.values()):
                classes.append("storage:view:keeps-every-key")
            for side in sorted(vws):
                kept = {tuple(e[0]) for e in rspec[side]}
                if any(_lazy_kind(e[2]) == "L" and any(
                        len(x[0]) > len(e[0]) and x[0][:len(e[0])] == e[0] and tuple(x[0]) not in kept
                        for x in case[side]) for e in rspec[side]):
                    classes.append("storage:view:dir-object-partly-shown")
                    break
    for o in ("with_unchanged", "cmpkey", "shallow", "with_renames", "with_unknown"):
        if opts[o]:
            classes.append(o)
    if share:
        if share.get("intern"):
            classes.append("derive:interned-meta-hash-objects")
        if shared_keys:
            classes.append("derive:shared-entry-objects")
            both = set(ov) | set(nv)
            if any(fo[k]["isdir"] and any(
                    len(x) > len(k) and x[:len(k)] == k and ov.get(x) != nv.get(x) for x in both)
                   for k in shared_keys):
                classes.append("derive:shared-dir-entry-with-change-below")
    if vws:
        classes.append("view")
        classes.append("view:both-sides" if len(vws) == 2 else "view:one-side")
        if len(vws) == 2 and vws["old"] != vws["new"]:
            classes.append("view:different-filters")
        vcls = set()
        for side in sorted(vws):
            full = {tuple(e[0]) for e in case[side]}
            kept = {tuple(e[0]) for e in rspec[side]}
            if kept and kept != full:
                vcls.add("view:keeps-some-drops-some")
            if not vws[side]["root"]:
                vcls.add("view:filter-rejects-()")
                if kept:
                    vcls.add("view:filter-rejects-()+keys-kept")
            else:
                vcls.add("view:filter-accepts-()")
            if any(e[3] and tuple(e[0]) in kept and any(len(k) > len(e[0]) and k[:len(e[0])] == tuple(e[0]) for k in full - kept)
                   for e in case[side]):
                vcls.add("view:kept-dir-entry-partly-filtered")
        classes += sorted(vcls)
        if nontrivial:
            classes.append("view:nontrivial")
    if roots is not None:
        classes.append("roots")
        if len(roots) >= 2:
            classes.append("roots>=2")
        if roots == [()]:
            classes.append("roots:[()]")

        def has_node(v, r):
            return any(k[:len(r)] == r for k in v)

        miss = [i for i, r in enumerate(roots) if has_node(ov, r) != has_node(nv, r) or not (has_node(ov, r) or has_node(nv, r))]
        if miss:
            classes.append("roots:root-missing-on-a-side")
            if any(j > miss[0] and (roots[j] in ov or roots[j] in nv) for j in range(len(roots))):
                classes.append("roots:missing-root-before-root-with-entry")
        if any(r not in ov and r not in nv and (has_node(ov, r) or has_node(nv, r)) for r in roots):
            classes.append("roots:implicit-directory")
    if isinstance(cmpkey, str):
        classes.append(f"cmpkey:{cmpkey}")
    reads_noneq = bool(set(cmp_fields(cmpkey) or ()) & set(NONEQ))
    if reads_noneq:
        classes.append("cmpkey:reads-eq-False-field")
    only_noneq = [
        k for k in set(ov) & set(nv)
        if ov[k]["meta"] is not None and nv[k]["meta"] is not None and ov[k]["meta"] != nv[k]["meta"]
        and _cmp(ov[k]["meta"], False) == _cmp(nv[k]["meta"], False)
    ]
    if only_noneq:
        classes.append("meta-differs-only-in-eq-False-fields")
        if reads_noneq and any(_cmp(ov[k]["meta"], cmpkey) != _cmp(nv[k]["meta"], cmpkey) for k in only_noneq):
            classes.append("meta-differs-only-in-eq-False-fields:seen-by-cmpkey")
    if case["old"] is None or case["new"] is None:
        classes.append("one-side-None")
    elif not case["old"] or not case["new"]:
        classes.append("one-side-empty")
    if fo is not None and fn is not None:
        if any(k in fn and fo[k]["isdir"] != fn[k]["isdir"] for k in fo):
            classes.append("kind-change:explicit")
        if _implicit_kind_change(fo, fn) or _implicit_kind_change(fn, fo):
            classes.append("kind-change:implicit-dir")
    for f in (fo, fn):
        if f and _has_implicit_dir(f):
            classes.append("implicit-dir")
            break
    if any(e["isdir"] for f in (fo, fn) if f for e in f.values()):
        classes.append("explicit-dir")
    if any(e["isdir"] and e["hash"] for f in (fo, fn) if f for e in f.values()):
        classes.append("hashed-dir")
    if () in (fo or {}) or () in (fn or {}):
        classes.append("explicit-root")
    if any(e["hash"] is None or e["meta"] is None for f in (fo, fn) if f for e in f.values()):
        classes.append("entry-without-hash-or-meta")
    kinds = {out[0] for outs, exact, _ in acc.values() if exact for out in outs if out}
    for t in sorted(kinds):
        classes.append(f"has-{t}")
    if nren:
        classes.append("renames>=1")
    if nren >= 2:
        classes.append("renames>=2")
    if dup_hash:
        classes.append("rename-duplicate-hash")
    if mode == "hash" and not opts["with_unchanged"]:
        taken = any(
            e["isdir"] and e["hash"] and k in nv and nv[k]["hash"] == e["hash"]
            and any(len(k2) > len(k) and k2[:len(k)] == k for k2 in set(ov) | set(nv))
            for k, e in ov.items()
        )
        if taken:
            classes.append("shortcut-taken")
        if omitted:
            classes.append("shortcut-omitted-dir-entry")
    if nontrivial:
        classes.append("nontrivial")
    return Result(viols, nontrivial, classes, counters)


def _has_implicit_dir(f):
    return any(k[:i] not in f for k in f for i in range(1, len(k)))


def _implicit_kind_change(f, g):
    """a file key of f that is an implicit or explicit directory (has keys below it) in g"""
    files = {k for k, e in f.items() if not e["isdir"]}
    return any(k[:i] in files for k in g for i in range(1, len(k)))


# ------------------------------------------------------------------------------------------------
ARMS = [
    ("full", None, False),
    (None, None, True),   # indexes with a cache storage and unloaded .dir entries (with_unknown)
    (None, None, "sqlite"),   # SQLite-backed sides reaching their content through an edit history
    ("hash", None, False),
    ("meta", False, False),
    (None, True, False),
    (None, None, "view"),   # one or both sides handed to diff() as DataIndexView over a larger index
    (None, None, "lazyview"),   # views over indexes of the storage arm: unloaded directory objects behind views
]


def run(ctx):
    """Arms are run in rounds (each round: every arm with 1/rounds of its cases, under its own
    Hypothesis seed derived from the worker's), so that a run cut short by the wall budget on a loaded
    machine has still exercised every arm."""
    total = ctx.n(quick=2000, thorough=50000)
    per = max(1, total // 4)
    rounds = 2 if ctx.tier == "quick" else 8
    base_seed = ctx.hseed
    try:
        for r in range(rounds):
            ctx.hseed = base_seed + r * 1000003
            for mode, renames, storage in ARMS:
                n = per
                if storage == "sqlite":
                    n = ctx.n(quick=60, thorough=1500)
                elif storage == "view":
                    n = per // 2
                elif storage == "lazyview":
                    n = per // 3
                elif storage:
                    n = per // 3
                n = max(1, n // rounds)
                strat = cases(mode=mode, renames=renames, storage=storage in (True, "lazyview"),
                              sqlite=storage == "sqlite", views=storage in ("view", "lazyview"))
                if not ctx.run_given(strat, run_case, n):
                    return
    finally:
        ctx.hseed = base_seed


def replay(case, ctx):
    ctx.exec_case(case, run_case)
