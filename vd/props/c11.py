"""C11 - a transfer's result tells the truth about what arrived."""

from .. import ref, xfer
from ..ctx import Result, Viol

LEVEL = "fault_enumeration"
WORKERS = {"quick": 8, "thorough": 16}
BUDGET_S = {"quick": 60, "thorough": 700}
RULE = (
    "Same generated transfer cases as C04 plus non-closed requests (directories shallow without "
    "their files), arbitrary initial contents of source and destination (objects removed from the "
    "source, present in both, directories with a child missing on both sides), verify=True with "
    "sources whose bytes mismatch their name, and upload-failure subsets / aborts injected at the "
    "final placement call. Oracle (set arithmetic over direct listings, hashlib): "
    "new = requested(expanded) & in-source - in-destination; transferred + failed partition new; "
    "every transferred id is present with reference-correct bytes; every requested id absent "
    "afterwards is failed or missing on both sides, and every id missing on both sides is handed to the "
    "validate_status hook (called exactly once, also when nothing is new); ids present beforehand are not re-sent nor "
    "reported; source bytes unchanged. Non-trivial = a fault, a mismatching source under verify or a "
    "doubly-missing child affected a requested id; distinct = SHA-1 of the case JSON. One case in eight is the "
    "deliberate shape 'a requested directory loses a file on both sides (its .dir is withheld) while the "
    "injected failures hit objects outside that directory in the same transfer'."
)
ASSUMPTIONS = [
    "uploads into a local store complete at os.replace/os.rename/os.link/os.symlink onto the object path",
    "a corrupt source object stays write-protected in the source store (the source trusts it); only the "
    "destination verifies",
]


def run_case(case, ctx):
    with ctx.tmpdir() as d:
        o = xfer.execute(case, ctx, d, monitor_closure=False, partial_on_generic=True)
        viols = []
        src_has = set(o.bytes) - o.src_removed
        before = set(o.dst_before)
        after = o.dst_after
        new = (o.requested_expanded & src_has) - before
        both_missing = o.requested_expanded - src_has - before
        affected = False
        # halves of objects left under their names by the injector's failed uploads: not "arrived"
        halves = {k for _, k in o.inj.faulted if after.get(k) != o.bytes.get(k)} if o.partial else set()
        if o.result is not None and o.trusting_stale_index:
            pass  # a file-only request trusts the surviving index of a wiped destination (see C12)
        elif o.result is not None:
            tr = {h.value for h in o.result.transferred}
            fl = {h.value for h in o.result.failed}
            if tr & fl:
                viols.append(Viol("overlap", f"ids both transferred and failed: {sorted(tr & fl)}"))
            for oid in sorted(tr):
                if oid not in after:
                    kids_missing = oid in o.dir_children and (o.dir_children[oid] - src_has - before)
                    sig = "transferred-absent-dir-missing-child" if kids_missing else "transferred-absent"
                    if oid in o.corrupted:
                        sig = "transferred-absent-verify-rejected"
                    viols.append(Viol(sig, f"{oid} reported transferred but absent from the destination"))
                elif after[oid] != o.bytes[oid]:
                    viols.append(Viol("transferred-wrong-bytes", f"{oid} reported transferred but holds wrong bytes"))
            for oid in sorted(o.requested_expanded):
                if (oid not in after or oid in halves) and oid not in fl and oid not in both_missing and oid not in tr:
                    viols.append(Viol("absent-unreported", f"requested {oid} absent afterwards, not failed, not missing"))
            if not o.via_push:
                # "reported ... as missing from both sides": validate_status(status) is the reporting channel
                if o.first_status_calls != 1:
                    viols.append(Viol("status-not-reported",
                                      f"validate_status was called {o.first_status_calls} times"))
                for oid in sorted(both_missing - fl - tr):
                    if oid not in after and oid not in (o.first_status_missing or set()):
                        viols.append(Viol("missing-unreported",
                                          f"requested {oid} is on neither side and was not reported as missing"))
            if (tr | fl) != new:
                extra = sorted((tr | fl) - new)
                lack = sorted(new - (tr | fl))
                if extra:
                    viols.append(Viol("reported-not-new", f"reported ids that were not new: {extra}"))
                if lack:
                    viols.append(Viol("new-unreported", f"new ids in neither set: {lack}"))
            if (fl | {k for _, k in o.inj.faulted}) & o.requested_expanded:
                affected = True
        # objects present beforehand are not re-sent
        resent = sorted({k for _, k in o.inj.attempts} & before)
        if resent:
            viols.append(Viol("resent", f"objects already present were uploaded again: {resent}"))
        for oid in before:
            if after.get(oid) != o.dst_before[oid]:
                viols.append(Viol("dest-object-altered", f"pre-existing destination object {oid} changed"))
                break
        if o.src_before is not None and o.vanished:
            for oid in o.vanished:  # removed by the harness itself (models another process)
                o.src_before.pop(oid, None)
                o.src_after.pop(oid, None)
        if o.src_before is not None and o.src_after != o.src_before:
            viols.append(Viol("source-modified", "the source store changed during the transfer"))
        # wrong bytes must never stay under a name in the destination
        for oid, data in (after.items() if o.result is not None else ()):
            if oid in o.bytes and data != o.bytes[oid] and oid not in halves:
                viols.append(Viol("dest-mismatch", f"destination holds {oid} with wrong bytes"))
                break
        if o.corrupted & o.requested_expanded - before:
            affected = True
        if both_missing & set().union(*[o.dir_children.get(x, set()) for x in o.requested] or [set()]):
            affected = True
        cl = xfer.classes_of(case, o)
        if case["verify"]:
            cl.append("verify")
        if both_missing:
            cl.append("missing-both-sides")
        withheld = {x for x in o.requested if x in o.dir_children and x in new and o.dir_children[x] & both_missing}
        if withheld:
            cl.append("withheld-dir")
            hit = {k for _, k in o.inj.faulted}
            if any(hit - o.dir_children[x] - {x} for x in withheld):
                cl.append("withheld-dir+fault-elsewhere")
        return Result(viols, affected, cl, {"faults_injected": len(o.inj.faulted),
                                           "abort_points": int(o.inj.aborted)})


def run(ctx):
    ctx.run_given(xfer.cases(closed_only=False, allow_verify=True), run_case, ctx.n(quick=150, thorough=2500))


def replay(case, ctx):
    ctx.exec_case(case, run_case)
