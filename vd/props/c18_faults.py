"""Upload-fault injector for C18: same injection point as vd/faults.py (the final os.replace / os.rename /
os.link / os.symlink onto `<root>/<aa>/<rest>`), but the exception raised for an object id is chosen per id.

Kinds (all are what a remote / local filesystem can answer an upload with):
    EIO      OSError(EIO)                      ENOENT  FileNotFoundError(ENOENT)  (fan-out directory vanished)
    EACCES   PermissionError(EACCES)           ENOSPC  OSError(ENOSPC)            TIMEOUT TimeoutError
"""

import errno

from ..faults import Injector

KINDS = ["EIO", "ENOENT", "EACCES", "ENOSPC", "TIMEOUT"]


def make_exc(kind, oid):
    msg = f"injected upload failure for {oid}"
    if kind == "ENOENT":
        return FileNotFoundError(errno.ENOENT, msg)
    if kind == "EACCES":
        return PermissionError(errno.EACCES, msg)
    if kind == "ENOSPC":
        return OSError(errno.ENOSPC, msg)
    if kind == "TIMEOUT":
        return TimeoutError(msg)
    return OSError(errno.EIO, msg)


class TypedInjector(Injector):
    """fail: {oid: kind}."""

    def __init__(self, roots, fail):
        super().__init__(roots, fail=set(fail))
        self.kinds = dict(fail)

    def _wrap(self, name):
        import os

        orig = getattr(os, name)
        self._orig[name] = orig

        def patched(src, dst, *a, **kw):
            m = self._match(dst)
            if m is None:
                return orig(src, dst, *a, **kw)
            with self._lock:
                root, oid = m
                self.attempts.append((root, oid))
                if oid in self.fail:
                    self.faulted.append((root, oid))
                    raise make_exc(self.kinds.get(oid, "EIO"), oid)
                ret = orig(src, dst, *a, **kw)
                self.completed.append((root, oid))
                return ret

        patched.__name__ = name
        setattr(os, name, patched)
