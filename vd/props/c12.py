"""C12 - status is exact; the remote index never invents objects.

Two halves:
  * "status": stateless generated cases (this module) - status()/compare_status() without an index
    versus a reference partition computed from a direct os.walk listing of the stores, with store
    contents manufactured so that all lookup strategies of the base ObjectDB.oids_exist are reached;
  * "index":  a trace machine over one remote store, one cache store and one persistent
    ObjectDBIndex (c12_index.py).
Case JSON carries "half" so that replay dispatches.
"""

import hashlib
import os

from hypothesis import strategies as st

from .. import gen, ops, ref
from ..ctx import Result, Viol
from ..machine import replay_trace_machine, run_trace_machine

LEVEL = "exploration"
WORKERS = {"quick": 8, "thorough": 16}
BUDGET_S = {"quick": 55, "thorough": 650}
RULE = (
    "Status half: Hypothesis draws 1-3 trees over a small shared content pool plus loose files and, in about 1 "
    "case of 4, an EMPTY directory (staged without files: the '[]' listing object, which lists nothing; drawn into "
    "A / B and into the query) (all held by "
    "a full cache store), two subject stores A and B (LocalHashFileDB / HashFileDB on the local fs) filled "
    "with drawn closed subsets, extra single files, then drawn objects removed again (so contents need not be "
    "closed) and - for LocalHashFileDB - drawn objects made writable (intact but unprotected); optionally a "
    "tree of 8/12/16/20 files whose md5 starts with '00' (manufactured by a counter search, once per worker) so "
    "that the base class switches from traversal to per-object lookups and, at 16+, to per-prefix traversal; a "
    "deliberate shape in about 1 case of 6: one store holds a closed copy of a tree minus a drawn non-empty subset "
    "of its files (.dir kept), the other the complete tree (lacking side = destination, or mirrored = source), "
    "queried expanded with only ids the lacking store has; otherwise a query of 2-8 ids drawn from the universe (present ids, absent ids, absent '00...' ids, an id of a directory "
    "that exists nowhere), shallow or expanded, jobs in {None,1,4}. Oracle: status(A), status(B) with index=None "
    "must return exists == Q & listing and missing == Q - listing where listing is os.walk of the store and Q the "
    "query expanded by the harness from its own manifests; compare_status(src=B, dest=A, check_deleted drawn) "
    "must return ok/new/deleted/missing == the four intersections of the two reference answers (with the "
    "documented shortcut: check_deleted=False and nothing missing in dest => everything ok). The strategy that "
    "actually ran is observed by spying on list_oids_exists/_list_oids_traverse and reported as a class. "
    "Non-trivial = >= 2 queried ids of which at least one exists and one is missing in A. "
    "Index half: a rule-based history (<= 12 steps) over 1-3 remotes (either class, all configured with the "
    "same tmp_dir), a full cache (2-4 trees, loose files and, in two worlds of five, one EMPTY directory whose "
    "'[]' object is pushed / fetched / queried / deleted like every other directory object - it lists no files, so "
    "nothing but its own presence in the remote vouches for it) and one persistent ObjectDBIndex per remote "
    "obtained from get_index(remote); "
    "every step addresses a drawn remote (usually the one of the previous step) and every invariant is "
    "evaluated per (remote, its own index) for ALL remotes after every step, so nothing delivered to or "
    "indexed for one remote may surface in another's index or answers: push(closed request: directories with all their "
    "files or shallow=False; optional upload-failure subset or abort injected at the final placement call, the failure in 1 of 3 "
    "leaving the first half of the bytes, unprotected, under the final name (non-atomic remote); "
    "cache_odb = cache or remote as index.push does), fetch(closed request into a fresh empty store with "
    "src_index), status(arbitrary query, shallow/expanded, with the index; trees read from the cache or, shallow, "
    "from the remote itself), delete_remote(external deletion of directory and/or file objects, preferring "
    "indexed directories), reopen (close + get_index again, fresh store objects) and, rarely, delete_cache (file "
    "objects vanish from the cache so that later pushes fail for lack of a source). Any push / fetch / status "
    "call may additionally be interrupted at the n-th (n in 1..4) write transaction of the remote index (hook on "
    "the transact() of the diskcache Index behind the handle in use: a BaseException = process kill before that "
    "transaction, or diskcache Timeout -> ObjectDBError), after which the same or a reopened handle is used; "
    "delete_remote can also remove a whole tree (directory object + every file it lists). Invariants after "
    "every step, from os.walk: every directory id a status answer (direct, or seen through validate_status "
    "inside push/fetch) reports as existing in the remote is in the remote at that moment; every file id so "
    "reported is in the remote, was delivered earlier, or is listed by a directory object that is there; every "
    "id held by the index was seen in the remote at some earlier point or is listed by a directory object "
    "present now; dir_hashes() are exactly the '.dir' ids held; after a call that queried >= 1 directory while the "
    "index held a directory absent from the remote, the index holds no absent directory and only files listed "
    "by directories it holds; after ANY call that queried >= 1 directory (interrupted or not) the index holds no "
    "id that is neither in the remote nor listed by a directory object present there; exists/missing partition "
    "the expanded query; index contents survive reopen; whatever a push added to the index that was not a name in "
    "the remote before (nor listed by a directory that was) is there INTACT afterwards. 'In the remote' means "
    "intact bytes for a LocalHashFileDB remote and the name for the name-trusting generic class. "
    "Non-trivial = a failed/aborted transfer or an effective external deletion precedes a status evaluation "
    "with the index; distinct = SHA-1 of the case JSON / executed trace."
)
ASSUMPTIONS = [
    "subjects are LocalHashFileDB / HashFileDB on the local filesystem (status() answers 'everything exists' "
    "for memory-protocol stores by design)",
    "all objects are intact (corrupt objects are C07's subject); a LocalHashFileDB only counts intact objects",
    "expanded (shallow=False) queries only name directories that are loadable from the store the trees are "
    "read from (cache_odb for status, src for compare_status); a directory that exists nowhere is queried "
    "shallow only",
    "transfer requests are closed (directories listed with all their files, or shallow=False); status queries "
    "are arbitrary",
    "compare_status(check_deleted=False) documents that the source is not consulted when the destination "
    "lacks nothing: everything is then reported ok",
    "uploads into a local store complete at os.replace/os.rename/os.link/os.symlink onto the object path "
    "(that is where faults and aborts are injected)",
    "several remotes of one history share one tmp_dir and differ in their paths, so get_index() gives each its "
    "own index name; all handles are opened in one process (as index.push/fetch do for consecutive remotes)",
    "a half-written leftover under an object's name is not an object of a LocalHashFileDB remote (its existence "
    "queries discard it); the generic class trusts names, so there the leftover counts as present for later calls "
    "and only the index gains of the failing push itself are judged by content; a call that raises "
    "ObjectFormatError because the remote holds such a half-written .dir object is a refusal, not a violation",
    "a fetch is issued closed and shallow with cache_odb holding the directory objects, as index.fetch does",
    "an empty directory is an ordinary subject: build() of a directory without files yields the '[]' listing "
    "object (d751713988987e9331980363e24189ce.dir for md5), transfers and status queries treat it as a directory "
    "object with no entries; every clause about directory objects applies to it unchanged (no clause is special-"
    "cased); the 'directory minus files' shape of the status half only picks directories that have files",
    "an interrupted index update is modelled at transaction granularity (sqlite commits are atomic): the call "
    "dies on entering its n-th ObjectDBIndex write transaction; index.clear() is not interrupted",
]

_ZEROS = None
NZ = 28  # size of the manufactured pool of contents whose md5 starts with "00"


def zeros():
    """Deterministic contents whose md5 starts with '00' (counter search; once per process)."""
    global _ZEROS  # noqa: PLW0603
    if _ZEROS is None:
        out, i = [], 0
        while len(out) < NZ:
            b = b"vd00-%d" % i
            if hashlib.md5(b).hexdigest().startswith("00"):  # noqa: S324
                out.append(b)
            i += 1
        _ZEROS = out
    return _ZEROS


# ------------------------------------------------------------------------------------------
# world: trees + loose files, reference manifests, a full cache store
# ------------------------------------------------------------------------------------------
class World:
    pass


def build_world(d, trees, loose, nzeros=0):
    """Materialise the drawn data under d, stage everything into a full LocalHashFileDB cache.

    -> World(tops=[{oid,isdir,files{oid:bytes}}], bytes{oid:bytes}, dir_children{doid:set}, cache)
    """
    w = World()
    w.cache_root = os.path.join(d, "cache")
    w.cache = ops.make_odb("local", w.cache_root)
    tops = []
    specs = [("t", t) for t in trees]
    if nzeros:
        specs.append(("z", {f"z{j}": "h:" + zeros()[j].hex() for j in range(nzeros)}))
    for i, (tag, t) in enumerate(specs):
        p = os.path.join(d, f"{tag}{i}")
        flat = gen.materialise(t, p)
        man = ref.tree_manifest(flat)
        tops.append({"path": p, "isdir": True, "oid": ref.ref_tree_oid(man), "zeros": tag == "z",
                     "data": ref.ref_tree_bytes(man), "files": {man[k]: flat[k] for k in flat}})
    for i, c in enumerate(loose):
        p = os.path.join(d, f"loose{i}")
        data = gen.content_bytes(c)
        gen.write_file(p, data)
        tops.append({"path": p, "isdir": False, "oid": ref.ref_hash(data), "zeros": False,
                     "data": data, "files": {}})
    w.tops = tops
    w.bytes = {}
    for t in tops:
        _, obj, _ = ops.stage_transfer(w.cache, t["path"])
        assert obj.hash_info.value == t["oid"], (obj.hash_info.value, t["oid"])
        w.bytes.update(t["files"])
        w.bytes[t["oid"]] = t["data"]
    w.all_ids = sorted(w.bytes)
    w.file_ids = sorted(i for i in w.all_ids if not i.endswith(".dir"))
    w.dir_children = {t["oid"]: set(t["files"]) for t in tops if t["isdir"]}
    assert ref.store_ids(w.cache_root) == set(w.all_ids)
    return w


def closed_ids(top):
    return {top["oid"]} | set(top["files"])


def expand(w, ids):
    out = set(ids)
    for i in ids:
        out |= w.dir_children.get(i, set())
    return out


def external_delete(root, oid):
    p = os.path.join(root, oid[:2], oid[2:])
    if os.path.lexists(p):
        os.chmod(p, 0o644)
        os.unlink(p)
        return True
    return False


def hinfos(ids):
    from dvc_data.hashfile.hash_info import HashInfo

    return [HashInfo("md5", i) for i in ids]


# ------------------------------------------------------------------------------------------
# stateless half
# ------------------------------------------------------------------------------------------
def _fill():
    return st.fixed_dictionaries({
        "tops": st.lists(st.integers(0, 7), max_size=3),
        "files": st.lists(st.integers(0, 15), max_size=3),
        "removed": st.lists(st.integers(0, 31), max_size=3),
        "unprotect": st.lists(st.integers(0, 31), max_size=2),
    })


@st.composite
def cases(draw):
    import warnings

    content = gen.small_contents()
    with warnings.catch_warnings():
        warnings.simplefilter("ignore")
        tree = gen.trees(max_files=4, max_depth=2, content=content)
    nz = draw(st.sampled_from([0, 0, 0, 8, 12, 12, 16, 20]))
    qmax = 8
    if nz >= 16:
        # per-prefix traversal (255 listings) is slow: keep it a small class
        qmax = draw(st.sampled_from([4, 4, 4, 8]))
    # deliberate shape (about 1 case in 6): one store holds a closed copy of a tree MINUS a non-empty subset of
    # its files (the .dir object kept), the other the complete tree; the expanded query names only ids the
    # lacking store has. "mirror": the lacking store is the source (B) instead of the destination (A).
    shape = None
    if draw(st.integers(0, 5)) == 0:
        shape = {"top": draw(st.integers(0, 7)), "drop": draw(st.lists(st.integers(0, 7), min_size=1, max_size=3)),
                 "mirror": draw(st.sampled_from([False, False, True])),
                 "extra": draw(st.lists(st.integers(0, 31), max_size=2))}
    trees = draw(st.lists(tree, min_size=1, max_size=3))
    # in about 1 case of 4 additionally an EMPTY directory (no files -> the "[]" listing object, which lists nothing)
    empty_at = draw(st.sampled_from([None, None, None, None, None, None, 0, 3]))
    empty = None
    if empty_at is not None:
        trees.insert(min(empty_at, len(trees)), {})
        # ... which is then (besides whatever the fills / the query draw anyway) put into A / B and queried as drawn
        empty = {"a": draw(st.booleans()), "b": draw(st.booleans()), "q": draw(st.sampled_from([True, True, False]))}
    return {
        "half": "status",
        "shape": shape,
        "trees": trees,
        "empty": empty,
        "loose": draw(st.lists(content, max_size=2)),
        "zeros": nz,
        "zeros_in_b": draw(st.booleans()),
        "kinds": [draw(st.sampled_from(["generic", "local", "generic"])),
                  draw(st.sampled_from(["generic", "local"]))],
        "a": draw(_fill()),
        "b": draw(_fill()),
        "query": draw(st.lists(st.integers(0, 63), min_size=2, max_size=qmax)),
        "qdirs": draw(st.lists(st.integers(0, 7), max_size=2)),  # extra directory ids (incl. the absent one)
        "shallow": draw(st.booleans()),
        "jobs": draw(st.sampled_from([None, None, 1, 4])),
        "check_deleted": draw(st.booleans()),
    }


def _populate(w, odb, root, fill, with_zeros):
    from dvc_data.hashfile.transfer import transfer

    tops = [t for t in w.tops if not t["zeros"]]
    for idx in fill["tops"]:
        t = tops[idx % len(tops)]
        transfer(w.cache, odb, set(hinfos(closed_ids(t))), shallow=True)
    for idx in fill["files"]:
        transfer(w.cache, odb, set(hinfos([w.file_ids[idx % len(w.file_ids)]])), shallow=True)
    if with_zeros:
        for t in w.tops:
            if t["zeros"]:
                transfer(w.cache, odb, set(hinfos(closed_ids(t))), shallow=True)
    for idx in fill["removed"]:
        have = sorted(i for i in ref.store_ids(root) if not i.startswith("00"))
        if have:
            external_delete(root, have[idx % len(have)])
    if odb.__class__.__name__ == "LocalHashFileDB":
        for idx in fill["unprotect"]:
            have = sorted(ref.store_ids(root))
            if have:
                oid = have[idx % len(have)]
                os.chmod(os.path.join(root, oid[:2], oid[2:]), 0o644)


class Spy:
    """Counts which lookup strategy of ObjectDB.oids_exist ran on one store instance."""

    def __init__(self, odb):
        self.calls = []
        o1, o2 = odb.list_oids_exists, odb._list_oids_traverse
        page, per = odb.fs.LIST_OBJECT_PAGE_SIZE, 256 / odb.fs.jobs

        def list_oids_exists(oids, jobs=None):
            self.calls.append("per-object")
            return o1(oids, jobs=jobs)

        def _list_oids_traverse(remote_size, remote_oids, jobs=None):
            self.calls.append("traverse-prefixes" if remote_size / page >= per else "traverse-all")
            return o2(remote_size, remote_oids, jobs=jobs)

        odb.list_oids_exists = list_oids_exists
        odb._list_oids_traverse = _list_oids_traverse

    def label(self):
        return "+".join(sorted(set(self.calls))) or "none"


def _vals(s):
    return {h.value for h in s}


def run_status_case(case, ctx):  # noqa: C901, PLR0912, PLR0915
    from dvc_data.hashfile.status import compare_status, status
    from dvc_data.hashfile.transfer import transfer

    viols, cl = [], []
    with ctx.tmpdir() as d:
        w = build_world(d, case["trees"], case["loose"], case["zeros"])
        roots = [os.path.join(d, "A"), os.path.join(d, "B")]
        odbs = [ops.make_odb(k, r) for k, r in zip(case["kinds"], roots)]
        _populate(w, odbs[0], roots[0], case["a"], bool(case["zeros"]))
        _populate(w, odbs[1], roots[1], case["b"], bool(case["zeros"]) and case["zeros_in_b"])
        empty = case.get("empty")
        e_oid = next((t["oid"] for t in w.tops if t["isdir"] and not t["files"]), None)
        if empty and e_oid:
            for odb, flag in zip(odbs, (empty["a"], empty["b"])):
                if flag:
                    transfer(w.cache, odb, set(hinfos([e_oid])), shallow=True)
        shape = case.get("shape")
        if shape:
            tops = [t for t in w.tops if t["isdir"] and not t["zeros"] and t["files"]]  # "minus files" needs files
            t = tops[shape["top"] % len(tops)]
            for odb in odbs:
                transfer(w.cache, odb, set(hinfos(closed_ids(t))), shallow=True)
            lacking = 1 if shape["mirror"] else 0
            files = sorted(t["files"])
            for i in shape["drop"]:
                external_delete(roots[lacking], files[i % len(files)])
        # fresh store objects for the queries (as a new process would have)
        odbs = [ops.make_odb(k, r) for k, r in zip(case["kinds"], roots)]

        # universe: everything known + absent ids (absent "00" ids, fabricated file id, fabricated directory id)
        z_absent = [ref.ref_hash(b) for b in zeros()[max(case["zeros"], 20):]]
        fake_file = hashlib.md5(b"vd-c12-absent-file").hexdigest()  # noqa: S324
        fake_dir = hashlib.md5(b"vd-c12-absent-dir").hexdigest() + ".dir"  # noqa: S324
        universe = sorted(set(w.all_ids) | set(z_absent[:4]) | {fake_file, fake_dir})
        udirs = [i for i in universe if i.endswith(".dir")]
        query = sorted({universe[i % len(universe)] for i in case["query"]}
                       | {udirs[i % len(udirs)] for i in case.get("qdirs", [])})
        if empty and e_oid and empty["q"]:
            query = sorted(set(query) | {e_oid})
        shallow = case["shallow"]
        if shape:
            # expanded query of the directory plus ids the lacking store holds: every requested id is present
            have = sorted(ref.store_ids(roots[lacking]) & set(w.all_ids))
            query = sorted({t["oid"]} | {have[i % len(have)] for i in shape["extra"]})
            query = [q for q in query if not q.endswith(".dir") or all(q in ref.store_ids(r) for r in roots)]
            shallow = False
            cl.append("shape:dir-minus-files" + (":src-lacks" if shape["mirror"] else ":dest-lacks"))
        if not shallow:
            query = [q for q in query if q != fake_dir]  # must be loadable to be expanded
        listing = [ref.store_ids(r) for r in roots]

        def q_expanded(q):
            return set(q) if shallow else expand(w, q)

        # ---- status of each store, no index ---------------------------------------------------
        strategies = []
        for n, (odb, kind) in enumerate(zip(odbs, case["kinds"])):
            spy = Spy(odb) if kind == "generic" else None
            res = status(odb, hinfos(query), index=None, cache_odb=w.cache, shallow=shallow, jobs=case["jobs"])
            strat = spy.label() if spy else "local-check"
            strategies.append(strat)
            Q = q_expanded(query)
            want_e, want_m = Q & listing[n], Q - listing[n]
            got_e, got_m = _vals(res.exists), _vals(res.missing)
            if got_e != want_e:
                viols.append(Viol(f"status-exists:{kind}:{strat}",
                                  f"status({'AB'[n]}, shallow={shallow}) exists: invented {sorted(got_e - want_e)}, "
                                  f"overlooked {sorted(want_e - got_e)} (query {query})"))
            if got_m != want_m:
                viols.append(Viol(f"status-missing:{kind}:{strat}",
                                  f"status({'AB'[n]}, shallow={shallow}) missing: extra {sorted(got_m - want_m)}, "
                                  f"lacking {sorted(want_m - got_m)} (query {query})"))
            if ref.store_ids(roots[n]) != listing[n]:
                viols.append(Viol(f"status-changed-store:{kind}", "a status query added or removed objects"))
            cl.append(f"{'AB'[n]}:{kind}:{strat}")
            if spy:
                for c in set(spy.calls):
                    cl.append("strategy=" + c)

        # ---- compare_status(src=B, dest=A) -----------------------------------------------------
        q2 = query if shallow else [q for q in query if not q.endswith(".dir") or q in listing[1]]
        if len(q2) >= 1:
            Q = q_expanded(q2)
            A, B = Q & listing[0], Q & listing[1]
            cs = compare_status(odbs[1], odbs[0], hinfos(q2), check_deleted=case["check_deleted"],
                                cache_odb=w.cache, jobs=case["jobs"], shallow=shallow)
            skipped = not case["check_deleted"] and not (Q - A)
            if skipped:
                want = {"ok": Q, "missing": set(), "new": set(), "deleted": set()}
                cl.append("compare:src-skipped")
            else:
                want = {"ok": A & B, "missing": Q - A - B, "new": B - A, "deleted": A - B}
                cl.append("compare:four-way")
            for f in ("ok", "missing", "new", "deleted"):
                got = _vals(getattr(cs, f))
                if got != want[f]:
                    viols.append(Viol(f"compare-{f}:check_deleted={case['check_deleted']}",
                                      f"compare_status(src=B:{case['kinds'][1]}, dest=A:{case['kinds'][0]}, "
                                      f"shallow={shallow}).{f} = {sorted(got)}, reference {sorted(want[f])} "
                                      f"(query {q2})"))
                if want[f] and not skipped:
                    cl.append(f"compare:{f}-nonempty")

        QA = q_expanded(query)
        nontrivial = len(QA) >= 2 and bool(QA & listing[0]) and bool(QA - listing[0])
        cl.append("shallow" if shallow else "expanded")
        if case["zeros"]:
            cl.append(f"zeros={case['zeros']}")
        if any(q.startswith("00") for q in QA):
            cl.append("query-has-00-id")
        if any(q.endswith(".dir") for q in query):
            cl.append("query-has-dir")
        if e_oid:
            cl.append("world-has-empty-dir")
            if e_oid in query:
                cl.append("query-has-empty-dir:" + ("in-A" if e_oid in listing[0] else "not-in-A"))
        if ref.closure_problems({i: w.bytes[i] for i in listing[0]}):
            cl.append("A-not-closed")
        if case["a"]["unprotect"] and case["kinds"][0] == "local":
            cl.append("A-has-unprotected")
    return Result(viols, nontrivial, cl, {"status_cases": 1})


def run_case(case, ctx):
    if case.get("half") == "index":
        raise ValueError("index cases are replayed through the trace machine")
    return run_status_case(case, ctx)


def run(ctx):
    from .c12_index import IndexMachine

    zeros()
    total = ctx.budget_s
    if total:
        ctx.budget_s = total * 0.5
    ok = ctx.run_given(cases(), run_case, ctx.n(quick=110, thorough=1500))
    ctx.budget_s = total
    if ok and ctx.failure is None:
        run_trace_machine(ctx, IndexMachine, ctx.n(quick=70, thorough=1000), 12)


def replay(case, ctx):
    if case.get("half") == "index" or ("steps" in case and "half" not in case):
        from .c12_index import IndexMachine

        replay_trace_machine(ctx, IndexMachine, case)
    else:
        ctx.exec_case(case, run_case)
