"""C05 - checkout never destroys user data that is not recoverable from the cache; link clean-up
through the state database only removes what it recorded, unused and unmodified.

Two halves:
  * "checkout": stateless generated cases (this module),
  * "links":    a trace machine over a State rooted at a scratch directory (c05_links.py).
Case JSON carries "half" so that replay dispatches.
"""

import hashlib
import os
import shutil

from hypothesis import strategies as st

from .. import gen, ops, ref
from ..ctx import Result, Viol
from ..machine import replay_trace_machine, run_trace_machine

LEVEL = "exploration"
WORKERS = {"quick": 8, "thorough": 16}
BUDGET_S = {"quick": 50, "thorough": 650}
RULE = (
    "Checkout half: Hypothesis draws a target (tree or single file) that is staged and transferred "
    "into a LocalHashFileDB or HashFileDB, a palette of contents with roles (cached / uncached / "
    "uncached with a corrupt unprotected object planted under its name), a prior workspace (absent, "
    "plain files, or a real earlier checkout with a drawn link type) followed by drawn user edits "
    "(modify = unlink+create, delete, add, file->directory, directory->file at any depth including "
    "the whole root of a tree target replaced by a plain cached/uncached file, empty directory; "
    "files with more than one name: an added / modified user file, or any existing file, is given a "
    "second hard link in the same directory, at the workspace root or outside the workspace, so that "
    "cached and uncached files with st_nlink > 1 sit at paths the target drops, replaces or keeps; "
    "edit in place = chmod u+w and rewrite the same inode, which writes through the hard link of an "
    "earlier hardlink checkout and leaves the shared cache object damaged and writable), "
    "0-2 dangling symlinks at target / extra paths (also workspace symlinks whose cache object was "
    "dropped), an optional pre-step that hashes the workspace through the same State for a legacy "
    "md5-dos2unix store with LF/CRLF twin contents (one cached, one an uncached edit), an optional "
    "pre-step that stages the workspace through the same State (dry-run build) on a harness-owned "
    "LocalFileSystem subclass which lets the user save uncached content into an already-read file "
    "of the batch (before State.save_many runs; deterministic, no threads), two shaped arms "
    "(several same-directory target files behind a dangling symlink with siblings deleted and "
    "uncached edits on several others; a target object verified by an earlier checkout of the same "
    "store and dropped afterwards while a second copy of its bytes sits at another path), optionally "
    "a partial cache of the OLD workspace tree (the final prior workspace is staged into the cache, "
    "then a drawn subset of its file objects is removed while its .dir object stays; more single-file "
    "targets over directory workspaces in that arm), "
    "optionally target objects dropped from the cache, configured link types (single types, "
    "hardlink/symlink/reflink first with a copy fallback, and copy first with hardlink listed behind it), "
    "relink on/off, state "
    "on/off and prompt None / declining with any falsy answer (False, None, 0, '', [], 0.0) / raising "
    "EOFError or KeyboardInterrupt (must propagate, nothing touched), plus a small accepting arm with "
    "truthy answers that only checks that bool True is taken as confirmation, force=False. Oracle: byte snapshots of the workspace before/after; every "
    "byte string that is no longer at its path must exist afterwards as an intact object "
    "(name == hashlib md5 of the bytes) in the cache directory read with os.walk - whatever the link "
    "count of the file, and a second name outside the workspace or elsewhere in it does not make the "
    "removal of a workspace path acceptable; if an unrecoverable "
    "conflicting file was present the call must refuse (raise), and a PromptError's path must still "
    "hold its bytes. Links half: a rule-based history (trace = case) over State.save_link / relinking "
    "checkout with state (copy, hardlink, symlink), user modify (in place or unlink+create) / replace "
    "(new inode, optionally same mtime) / remove / re-create, add, rename or delete a file inside a "
    "recorded directory, bystander files, and cleanup(used subset) = get_unused_links + remove_links, "
    "with harness-owned mtimes (os.utime, previous mtime + drawn delta of 1 us .. 10^4 s either way, "
    "never a (path, mtime) pair seen before; stat triple verified to change). Oracle: every "
    "returned/removed path was recorded by the model's own record rules, is not listed as used and "
    "its snapshot (inode, per file mtime + bytes) equals the record-time snapshot; everything else "
    "under the root and in the cache is byte-identical. Non-trivial = an unrecoverable conflicting "
    "file was present (checkout half) / a clean-up ran while a recorded, unlisted path stood modified "
    "or replaced (links half); "
    "distinct = SHA-1 of the canonical case JSON."
)
ASSUMPTIONS = [
    "user edits never write through a SYMLINK into the cache (modify = unlink + create; the in-place edit "
    "skips symlinks): such a workspace entry holds no bytes of its own. Writing through a HARD link of an "
    "earlier checkout is generated (in-place edit, always after chmod u+w as a non-root user would need): "
    "the workspace name is a full name of the inode and holds the user's bytes, which are not stored in "
    "the cache under their own md5 - the shared object now carries them under the OLD name, is not intact "
    "(mode 0o644, never the trusted 0o444) and is dropped by the next check() - so the statement's 'content "
    "not stored in the cache' applies and the file must be refused/left alone; when the damaged object is "
    "one of the target's, the case counts as 'target object dropped' (CheckoutError / dangling-link "
    "FileNotFoundError allowed, byte accounting unchanged)",
    "a second hard link of a workspace file (inside or outside the workspace) is the user's business: it "
    "neither makes the file's content recoverable from the cache nor exempts the workspace path from the "
    "accounting; the twin itself, when inside the workspace, is an ordinary (extra) workspace file",
    "a plain file sitting at the root of a tree target: any exception counts as the refusal (the "
    "unchanged code raises a bare FileExistsError from makedirs); the byte accounting applies unchanged",
    "damaged cache objects carry any mode except exactly 0o444 (0o644, 0o600, 0o400, 0o440, 0o500, 0o555, "
    "0o544): a 0o444 object in a LocalHashFileDB is trusted by design",
    "a modification that preserves inode, mtime and size (top level) or path and mtime (inside a "
    "recorded directory) is invisible to the documented token and is never generated: the harness "
    "owns mtimes and always moves them to a value not seen before for that path; when a file entry is "
    "replaced with its mtime kept and its (inode, mtime) equals the record-time pair again (inode number "
    "recycled by ext4, or the original inode deliberately brought back) the change is token-preserving "
    "and the entry counts as unmodified (class inode-recycled-token-preserved)",
    "a dangling symlink, and a workspace symlink that points into the cache directory, hold no bytes of "
    "their own: replacing/removing them is always allowed; while the workspace holds a dangling symlink "
    "(it cannot be staged) only a conflicting file at a target path must be refused - extra files are "
    "left alone by the code - and a bare OSError (file/directory in the way) counts as a refusal",
    "hashlib and os.walk are the trusted reference",
]

# a declining prompt may answer with any falsy value, a confirming one with any truthy value
DECLINE_ANSWERS = [False, None, 0, "", [], 0.0]
ACCEPT_ANSWERS = [True, 1, "y", "yes", "anything-truthy"]
PROMPT_RAISES = [EOFError, KeyboardInterrupt]

# a damaged cache object may carry any mode except exactly 0o444 (a protected object is trusted by design)
DAMAGED_MODES = [0o644, 0o600, 0o400, 0o440, 0o500, 0o555, 0o544]


def damaged(data, how):
    """truncated / other bytes of the same length / trailing garbage - never equal to data"""
    if how % 3 == 0 and data:
        return data[:-1]
    if how % 3 == 1 and data:
        return bytes([data[0] ^ 0xFF]) + data[1:]
    return data + b"\x00corrupt"


def plant_damaged(p, data, how, mode_idx):
    if os.path.lexists(p):
        os.chmod(p, 0o644)
        os.unlink(p)
    os.makedirs(os.path.dirname(p), exist_ok=True)
    with open(p, "xb") as f:
        f.write(damaged(data, how))
    os.chmod(p, DAMAGED_MODES[mode_idx % len(DAMAGED_MODES)])


LINK_TYPES = [["copy"], ["hardlink"], ["symlink"], ["reflink", "copy"], ["hardlink", "copy"],
              ["symlink", "copy"], ["copy", "hardlink"]]
T0_NS = 1_600_000_000_000_000_000  # harness clock origin (no wall clock)


# ------------------------------------------------------------------------------------------
# generator
# ------------------------------------------------------------------------------------------
# LF / CRLF twins: the legacy md5-dos2unix flavour gives both members of a pair the same value
TWINS = [("p:lf", "p:crlf"),
         ("p:hello", "h:" + b"hello\r\n".hex()),
         ("h:" + b"a\nb\n".hex(), "h:" + b"a\r\nb\r\n".hex())]


def _content():
    return st.one_of(gen.small_contents(), gen.small_contents(), gen.contents(pool_weight=1, max_size=24),
                     st.sampled_from([c for pair in TWINS for c in pair]))


def _edit():
    i = st.integers(0, 11)
    c = st.integers(0, 7)
    kids = st.dictionaries(gen.names(), c, min_size=1, max_size=2)
    # where the user's second hard link (another name of the same inode) lives: in the same directory,
    # at the workspace root, or outside the workspace
    twin = st.fixed_dictionaries({"where": st.sampled_from(["in", "in", "root", "out", "out"]),
                                  "name": gen.names()})
    return st.one_of(
        st.fixed_dictionaries({"op": st.just("modify"), "i": i, "c": c}),
        st.fixed_dictionaries({"op": st.just("modify"), "i": i, "c": c}),
        st.fixed_dictionaries({"op": st.just("delete"), "i": i}),
        st.fixed_dictionaries({"op": st.just("add"), "d": i, "name": gen.names(), "c": c}),
        st.fixed_dictionaries({"op": st.just("add"), "d": i, "name": gen.names(), "c": c}),
        st.fixed_dictionaries({"op": st.just("f2d"), "i": i, "kids": kids}),
        st.fixed_dictionaries({"op": st.just("d2f"), "d": i, "c": c}),
        st.fixed_dictionaries({"op": st.just("mkdir"), "d": i, "name": gen.names()}),
        # the user's own file kept under two names (hard links) / an existing file given a second name
        st.fixed_dictionaries({"op": st.just("add"), "d": i, "name": gen.names(), "c": c, "twin": twin}),
        st.fixed_dictionaries({"op": st.just("modify"), "i": i, "c": c, "twin": twin}),
        st.fixed_dictionaries({"op": st.just("twin"), "i": i, "twin": twin}),
        # edited in place (chmod u+w, same inode): writes through a hard link of an earlier checkout
        st.fixed_dictionaries({"op": st.just("inplace"), "i": i, "c": c}),
    )


def _leaves(tree):
    for v in tree.values():
        if isinstance(v, dict):
            yield from _leaves(v)
        else:
            yield v


def _has_batch(tree):
    """some directory of the tree holds >= 2 files (one hashing batch)"""
    files = [v for v in tree.values() if not isinstance(v, dict)]
    return len(files) >= 2 or any(_has_batch(v) for v in tree.values() if isinstance(v, dict))


@st.composite
def cases(draw):
    # partial cache of the OLD workspace tree: the final prior workspace is staged into the cache
    # (tree object + files) and a drawn subset of its FILE objects is removed again (indices)
    cot = draw(st.one_of(st.just(None), st.just(None), st.just(None), st.just(None),
                         st.lists(st.integers(0, 7), max_size=3)))
    target_kind = draw(st.sampled_from(["tree"] * 6 + ["file"] if cot is None else ["tree", "tree", "file"]))
    case = {
        "half": "checkout",
        "kind": draw(st.sampled_from(ops.STORE_KINDS)),
        "types": draw(st.sampled_from(LINK_TYPES)),
        "target_kind": target_kind,
        "palette": [list(t) for t in draw(st.lists(
            st.tuples(st.sampled_from(["cached", "uncached", "uncached", "corrupt"]), _content()),
            min_size=1, max_size=5))],
        "prior": draw(st.sampled_from(["write", "write", "checkout", "checkout", "absent"])),
        "prior_types": draw(st.sampled_from(LINK_TYPES)),
        "edits": draw(st.lists(_edit(), max_size=5)),
        "drop": draw(st.sampled_from([[], [], [], [0], [1], [0, 2]])),
        "relink": draw(st.booleans()),
        "prompt": draw(st.sampled_from(["none"] * 4 + ["decline"] * 4 + ["accept", "raise"])),
        # what the prompt callable hands back / raises: index into DECLINE_ANSWERS / ACCEPT_ANSWERS /
        # PROMPT_RAISES (taken modulo the table size)
        "answer": draw(st.sampled_from([0, 0, 1, 2, 3, 4, 5])),
        # damaged cache objects: mode index into DAMAGED_MODES, kind of damage, and whether the
        # "partial cache of the old tree" step damages its drawn objects instead of removing them
        "damage_mode": draw(st.integers(0, 6)),
        "damage_how": draw(st.integers(0, 2)),
        "cot_damage": draw(st.booleans()),
        "state": draw(st.sampled_from([False, False, False, True])),
    }
    # the workspace was hashed through the SAME State under the other md5 flavour (a legacy
    # md5-dos2unix store sharing the state db) after the user's edits; make LF/CRLF twins occur:
    # one member cached, the other one an uncached user edit
    case["legacy_hashed"] = draw(st.sampled_from([False, False, False, True]))
    if case["legacy_hashed"]:
        case["state"] = True
        lf, crlf = draw(st.sampled_from(TWINS))
        if draw(st.sampled_from([False, False, True])):
            lf, crlf = crlf, lf
        case["palette"] = case["palette"][:4] + [["cached", lf], ["uncached", crlf]]
        k = len(case["palette"]) - 1
        case["edits"] = case["edits"][:4] + [
            draw(st.sampled_from([
                {"op": "modify", "i": draw(st.integers(0, 11)), "c": k},
                {"op": "modify", "i": draw(st.integers(0, 11)), "c": k},
                {"op": "add", "d": draw(st.integers(0, 11)), "name": "notes.txt", "c": k},
            ]))]
    if target_kind == "tree":
        case["target"] = draw(gen.trees(max_files=6, max_depth=3, content=_content()))
        # the whole root replaced by a plain file (file -> directory change of the root at checkout)
        case["root_file"] = draw(st.sampled_from([None] * 12 + [0, 1, 2]))
        # unreadable entries: dangling symlinks at new paths ("d": directory index, "name") or sitting
        # at a target path ("t": index into the target's keys)
        dang = st.one_of(
            st.fixed_dictionaries({"d": st.integers(0, 11), "name": gen.names()}),
            st.fixed_dictionaries({"d": st.integers(0, 11), "name": gen.names()}),
            st.fixed_dictionaries({"t": st.integers(0, 11)}),
        )
        case["dangling"] = draw(st.one_of(st.just([]), st.just([]),
                                          st.lists(dang, min_size=1, max_size=2)))
        # symlink-cache scenario: drop target objects although workspace symlinks point at them
        case["drop_symlinked"] = draw(st.sampled_from([False, False, True]))
    else:
        case["target"] = draw(_content())
    case["cache_old_tree"] = cot
    if cot is not None and target_kind == "file" and draw(st.sampled_from([True, True, False])):
        # directory -> file change of the root: the workspace is a directory with a few files
        case["edits"] = [{"op": "f2d", "i": 0, "kids": draw(
            st.dictionaries(gen.names(), st.integers(0, 7), min_size=1, max_size=3))}] + case["edits"][:3]
    # a status-like dry-run staging of the workspace through the same State during which the user
    # saves uncached content into a file that was already read (before State.save_many runs)
    case["race"] = None
    if target_kind == "tree" and draw(st.sampled_from([False, False, False, True])):
        case["state"] = True
        case["prior"] = "write"          # fresh state rows: the staging really reads the files
        case["dangling"] = []
        case["root_file"] = None
        case["target"] = draw(gen.trees(max_files=6, max_depth=2, content=_content()).filter(_has_batch))
        case["palette"] = case["palette"][:6] + [
            ["uncached", "h:" + (b"racing user edit " + bytes([48 + draw(st.integers(0, 9))])).hex()]]
        case["race"] = {"skip": draw(st.sampled_from([0, 0, 0, 1, 2])), "pick": draw(st.integers(0, 5)),
                        "c": len(case["palette"]) - 1}
    elif target_kind == "tree" and draw(st.sampled_from([False] * 5 + [True])):
        # an unstageable workspace (dangling symlink) whose directory holds several target files:
        # some siblings deleted (they are linked as "added" whatever the processing order), uncached
        # edits on several of the others
        names = sorted(draw(st.sets(gen.names(), min_size=3, max_size=6)))
        roles = [draw(st.sampled_from(["delete", "delete", "modify", "modify", "keep", "dir"])) for _ in names]
        # at most one target file replaced by a directory holding an uncached user file
        first_dir = roles.index("dir") if "dir" in roles else None
        roles = ["modify" if r == "dir" and i != first_dir else r for i, r in enumerate(roles)]
        if "delete" not in roles:
            roles[draw(st.integers(0, len(names) - 1))] = "delete"
        if "modify" not in roles:
            free = [i for i, r in enumerate(roles) if r != "delete"] or [0]
            roles[free[draw(st.integers(0, len(free) - 1))]] = "modify"
        flat = {n: draw(_content()) for n in names}
        sub = draw(st.sampled_from([None, None, "sub", "data"]))
        case["target"] = {sub: flat, "top": draw(_content())} if sub and sub not in flat else flat
        case["prior"] = "write"
        case["root_file"] = None
        case["legacy_hashed"] = False
        case["drop"] = []
        case["palette"] = case["palette"][:5] + [["uncached", "h:" + b"sibling edit one".hex()],
                                                 ["uncached", "h:" + b"sibling edit two".hex()]]
        k = len(case["palette"]) - 2
        # indices refer to the sorted file list of the workspace: "sub/<name>" sorts as a block
        base = 0
        if case["target"] is not flat:
            allkeys = sorted([f"{sub}/{n}" for n in names] + ["top"])
            base = allkeys.index(f"{sub}/{names[0]}")
        edits = [{"op": "modify", "i": base + i, "c": k + (i % 2)} for i, r in enumerate(roles) if r == "modify"]
        edits += [{"op": "delete", "i": base + i} for i, r in reversed(list(enumerate(roles))) if r == "delete"]
        if first_dir is not None:   # applied last: index in the list that is left after the deletions
            below = sum(1 for i, r in enumerate(roles) if r == "delete" and i < first_dir)
            edits.append({"op": "f2d", "i": base + first_dir - below, "kids": {"kept": k}})
        case["edits"] = edits
        case["dangling"] = [{"d": 0, "name": draw(st.sampled_from(["broken", "~link", "zz"]))}]
        case["shape"] = "siblings-behind-dangling-symlink"
    elif target_kind == "tree" and draw(st.sampled_from([False] * 6 + [True])):
        # a target object that an earlier checkout (same store) verified is dropped from the cache
        # afterwards, while the user keeps a second copy of those bytes at an extra / other path
        flat = gen.flatten_case(case["target"])
        keys = sorted(flat)
        x = flat[keys[draw(st.integers(0, len(keys) - 1))]]
        xs = next(v for v in _leaves(case["target"]) if gen.content_bytes(v) == x)
        toids = sorted({md5(b) for b in flat.values()})
        case["prior"] = "checkout"
        case["prior_types"] = draw(st.sampled_from([["copy"], ["hardlink"], ["reflink", "copy"]]))
        case["root_file"] = None
        case["dangling"] = []
        case["legacy_hashed"] = False
        case["palette"] = case["palette"][:6] + [["uncached", xs]]
        k = len(case["palette"]) - 1
        case["edits"] = case["edits"][:2] + [draw(st.sampled_from([
            {"op": "add", "d": draw(st.integers(0, 11)), "name": "copy-of-x", "c": k},
            {"op": "add", "d": draw(st.integers(0, 11)), "name": "copy-of-x", "c": k},
            {"op": "modify", "i": draw(st.integers(0, 11)), "c": k},
        ]))]
        case["drop"] = [toids.index(md5(x))]
        case["shape"] = "verified-object-dropped-later"
    return case


# ------------------------------------------------------------------------------------------
# workspace model / snapshot
# ------------------------------------------------------------------------------------------
def md5(data):
    return hashlib.md5(data).hexdigest()  # noqa: S324


def snapshot(path, dangling=None):
    """-> ({rel: bytes}, {rel dirs}); rel '' is the root itself when it is a file. Reads through links.

    Dangling symlinks hold no bytes: they go into `dangling` (a set) when given, else they show up
    as a marker entry."""
    files, dirs = {}, set()
    if not os.path.lexists(path):
        return files, dirs
    if not os.path.isdir(path):
        try:
            files[""] = ref.read(path)
        except FileNotFoundError:  # dangling symlink: holds no data
            if dangling is not None:
                dangling.add("")
            else:
                files[""] = b"<dangling>" + os.readlink(path).encode()
        return files, dirs
    dirs.add("")
    for root, dnames, fnames in os.walk(path):
        rel = os.path.relpath(root, path)
        rel = "" if rel == "." else rel.replace(os.sep, "/")
        for dn in dnames:
            full = os.path.join(root, dn)
            r = f"{rel}/{dn}" if rel else dn
            if os.path.islink(full):
                files[r] = b"<symlink-to-dir>" + os.readlink(full).encode()
            else:
                dirs.add(r)
        for fn in fnames:
            r = f"{rel}/{fn}" if rel else fn
            try:
                files[r] = ref.read(os.path.join(root, fn))
            except FileNotFoundError:  # dangling symlink: holds no data
                if dangling is not None:
                    dangling.add(r)
                else:
                    files[r] = b"<dangling>" + os.readlink(os.path.join(root, fn)).encode()
    return files, dirs


def cache_snapshot(path):
    """-> ({oid: bytes}, {oids whose name is the md5 of their bytes})"""
    objs, _temps, _stray = ref.walk_store(path)
    contents, intact = {}, set()
    for oid, p in objs.items():
        data = ref.read(p)
        contents[oid] = data
        if md5(data) == (oid[:-4] if oid.endswith(".dir") else oid):
            intact.add(oid)
    return contents, intact


def recoverable(data, intact):
    h = md5(data)
    return h in intact or (h + ".dir") in intact


class Clock:
    """Harness-owned mtimes: strictly fresh values, far from anything the kernel hands out."""

    def __init__(self):
        self.k = 0

    def stamp(self, path):
        self.k += 1
        ns = T0_NS + self.k * 1_000_003_000
        os.utime(path, ns=(ns, ns), follow_symlinks=False)


def _force_unlink(p):
    if os.path.isdir(p) and not os.path.islink(p):
        shutil.rmtree(p)
    else:
        os.unlink(p)


def make_twin(p, spec, ws, outside, labels):
    """The user gives the file at `p` a second name (hard link) in the same directory, at the
    workspace root or outside the workspace. Content, inode and mtime of `p` stay what they are."""
    if os.path.islink(p) or not os.path.isfile(p):
        return
    where = spec.get("where", "out")
    if where == "in":
        q = os.path.join(os.path.dirname(p), spec["name"])
    elif where == "root" and os.path.isdir(ws) and not os.path.islink(ws):
        q = os.path.join(ws, spec["name"])
    else:
        where = "out"
        q = None
    if q is None or os.path.lexists(q):
        where = "out"
        os.makedirs(outside, exist_ok=True)
        q = os.path.join(outside, f"{len(os.listdir(outside))}-{spec['name']}")
    os.link(p, q)
    labels.add("edit:second-hard-link:" + {"in": "same-dir", "root": "workspace-root", "out": "outside"}[where])


def edit_in_place(p, data, clock, labels):
    """chmod u+w and rewrite the same inode (what an editor that saves in place does). When the file
    is a hard link of an earlier checkout the cache object changes with it (and becomes writable)."""
    if os.path.islink(p) or not os.path.isfile(p):
        return False       # (a symlink into the cache holds no bytes of its own: never written through)
    through = os.stat(p).st_nlink > 1
    os.chmod(p, 0o644)
    with open(p, "r+b") as f:
        f.truncate(0)
        f.write(data)
    clock.stamp(p)
    labels.add("edit:in-place")
    if through:
        labels.add("edit:in-place-through-hard-link")
    return True


def apply_edits(ws, edits, palette, clock, labels, outside=None):
    """User edits on a workspace directory. Never writes through a symlink (unlink first); writes
    through a hard link only with the explicit in-place edit."""
    outside = outside or os.path.join(os.path.dirname(ws), "outside")

    def content(c):
        return gen.content_bytes(palette[c % len(palette)][1])

    def put(p, data):
        if os.path.lexists(p):
            _force_unlink(p)
        os.makedirs(os.path.dirname(p), exist_ok=True)
        with open(p, "xb") as f:
            f.write(data)
        clock.stamp(p)

    for e in edits:
        files, dirs = snapshot(ws)
        flist = sorted(files)
        dlist = sorted(dirs)
        op = e["op"]
        if op == "modify" and flist:
            p = os.path.join(ws, *flist[e["i"] % len(flist)].split("/"))
            put(p, content(e["c"]))
            labels.add("edit:modify")
            if e.get("twin"):
                make_twin(p, e["twin"], ws, outside, labels)
        elif op == "twin" and flist:
            make_twin(os.path.join(ws, *flist[e["i"] % len(flist)].split("/")), e["twin"], ws, outside, labels)
        elif op == "inplace" and flist:
            edit_in_place(os.path.join(ws, *flist[e["i"] % len(flist)].split("/")), content(e["c"]),
                          clock, labels)
        elif op == "delete" and flist:
            os.unlink(os.path.join(ws, *flist[e["i"] % len(flist)].split("/")))
            labels.add("edit:delete")
        elif op in ("add", "mkdir") and dlist:
            d = dlist[e["d"] % len(dlist)]
            p = os.path.join(ws, *([x for x in d.split("/") if x] + [e["name"]]))
            if os.path.lexists(p):
                continue
            if op == "add":
                put(p, content(e["c"]))
                labels.add("edit:add")
                if e.get("twin"):
                    make_twin(p, e["twin"], ws, outside, labels)
            else:
                os.mkdir(p)
                labels.add("edit:mkdir")
        elif op == "f2d" and flist:
            p = os.path.join(ws, *flist[e["i"] % len(flist)].split("/"))
            os.unlink(p)
            os.mkdir(p)
            for name, c in sorted(e["kids"].items()):
                put(os.path.join(p, name), content(c))
            labels.add("edit:file->dir")
        elif op == "d2f":
            nonroot = [d for d in dlist if d]
            if not nonroot:
                continue
            p = os.path.join(ws, *nonroot[e["d"] % len(nonroot)].split("/"))
            shutil.rmtree(p)
            put(p, content(e["c"]))
            labels.add("edit:dir->file")


def cot_field(case):
    return case.get("cache_old_tree") is not None


def make_writer_fs(ws, skip, pick, action):
    """Harness-owned local filesystem (deterministic, no threads): when the library opens a workspace
    file for reading and another file of the same directory (= same hashing batch) was already opened
    before, the user saves new content into that earlier file - once, at the drawn opportunity."""
    from dvc_objects.fs.local import LocalFileSystem

    class WriterFS(LocalFileSystem):
        opened: list = []
        victim = None
        todo = skip

        def open(self, path, mode="r", **kwargs):
            p = os.fspath(path)
            cls = type(self)
            if cls.victim is None and "r" in mode and p.startswith(ws + os.sep):
                cand = [q for q in cls.opened if q != p and os.path.dirname(q) == os.path.dirname(p)]
                if cand:
                    if cls.todo > 0:
                        cls.todo -= 1
                    else:
                        cls.victim = cand[pick % len(cand)]
                        action(cls.victim)
                if p not in cls.opened:
                    cls.opened.append(p)
            return super().open(path, mode, **kwargs)

    WriterFS.opened = []
    return WriterFS()


# ------------------------------------------------------------------------------------------
# the checkout-half case
# ------------------------------------------------------------------------------------------
def run_checkout_case(case, ctx):  # noqa: C901, PLR0912, PLR0915
    from dvc_objects.fs.local import LocalFileSystem

    from dvc_data.hashfile.checkout import CheckoutError, LinkError, PromptError, checkout
    from dvc_data.hashfile.state import State

    fs = LocalFileSystem()
    labels = set()
    with ctx.tmpdir() as d:
        state = None
        try:
            cfg = {}
            if case["state"]:
                state = State(root_dir=d, tmp_dir=os.path.join(d, "state"))
                cfg["state"] = state
                labels.add("state")
            cpath = os.path.join(d, "cache")
            odb = ops.make_odb(case["kind"], cpath, type=list(case["types"]), **cfg)

            # target, fully cached
            src = os.path.join(d, "src")
            if case["target_kind"] == "tree":
                tflat = gen.materialise(case["target"], src)
            else:
                gen.write_file(src, gen.content_bytes(case["target"]))
                tflat = {"": gen.content_bytes(case["target"])}
            _, obj, _ = ops.stage_transfer(odb, src)

            # palette: extra cached contents
            palette = case["palette"]
            for i, (role, c) in enumerate(palette):
                if role == "cached":
                    p = os.path.join(d, f"pal{i}")
                    gen.write_file(p, gen.content_bytes(c))
                    ops.stage_transfer(odb, p)

            # prior workspace
            ws = os.path.join(d, "ws")
            clock = Clock()
            outside = os.path.join(d, "outside")   # the user's files outside the workspace
            if case["prior"] == "write":
                if case["target_kind"] == "tree":
                    gen.materialise(case["target"], ws)
                else:
                    gen.write_file(ws, tflat[""])
            elif case["prior"] == "checkout":
                podb = ops.make_odb(case["kind"], cpath, type=list(case["prior_types"]), **cfg)
                checkout(ws, fs, obj, podb, force=True, state=state)
                labels.add("prior-link=" + case["prior_types"][0])
            labels.add("prior=" + case["prior"])

            if case["edits"]:
                if case["target_kind"] == "file":
                    # single-file target: the edits act on the file itself (root of the workspace)
                    e = case["edits"][0]
                    c = gen.content_bytes(palette[e.get("c", 0) % len(palette)][1])
                    out_twin = {"where": "out", "name": (e.get("twin") or {}).get("name", "twin")}
                    if e["op"] in ("twin", "inplace"):
                        # the file itself gets a second name outside / is rewritten in place
                        if e["op"] == "twin":
                            make_twin(ws, out_twin, ws, outside, labels)
                        else:
                            edit_in_place(ws, c, clock, labels)
                    elif os.path.lexists(ws):
                        os.unlink(ws)
                    if e["op"] in ("twin", "inplace"):
                        pass
                    elif e["op"] in ("modify", "add", "d2f"):
                        gen.write_file(ws, c)
                        clock.stamp(ws)
                        labels.add("edit:modify")
                        if e.get("twin"):
                            make_twin(ws, out_twin, ws, outside, labels)
                    elif e["op"] in ("f2d", "mkdir"):
                        os.mkdir(ws)
                        kids = [{"op": "add", "d": 0, "name": n, "c": kc}
                                for n, kc in sorted((e.get("kids") or {}).items())] if cot_field(case) else []
                        apply_edits(ws, kids + [dict(x) for x in case["edits"][1:]] or
                                    [{"op": "add", "d": 0, "name": "x", "c": e.get("i", 0)}],
                                    palette, clock, labels, outside)
                        labels.add("edit:file->dir")
                    else:
                        labels.add("edit:delete")
                else:
                    if not os.path.lexists(ws):
                        os.mkdir(ws)
                    apply_edits(ws, case["edits"], palette, clock, labels, outside)

            root_file = case.get("root_file") if case["target_kind"] == "tree" else None
            if root_file is not None:
                if os.path.lexists(ws):
                    _force_unlink(ws)
                gen.write_file(ws, gen.content_bytes(palette[root_file % len(palette)][1]))
                clock.stamp(ws)
                labels.add("edit:root-dir->file")

            # partial cache of the old workspace tree: stage the workspace as it is now (tree object and
            # file objects go into the cache), then remove a drawn subset of its FILE objects again
            if cot_field(case) and os.path.isdir(ws) and not os.path.islink(ws):
                wsfiles, _ = snapshot(ws, set())
                try:
                    _, wobj, _ = ops.stage_transfer(odb, ws)
                except FileNotFoundError:       # dangling symlink inside: cannot be staged
                    wobj = None
                if wobj is not None and wsfiles:
                    labels.add("old-tree-cached")
                    linked = {os.path.realpath(os.path.join(r, f)) for r, _, fl in os.walk(ws) for f in fl
                              if os.path.islink(os.path.join(r, f))}
                    woids = sorted({md5(b) for b in wsfiles.values()})
                    for i in case["cache_old_tree"]:
                        o = woids[i % len(woids)]
                        p = os.path.join(cpath, o[:2], o[2:])
                        if os.path.exists(p) and os.path.realpath(p) not in linked:
                            if case.get("cot_damage"):
                                data = next(b for b in wsfiles.values() if md5(b) == o)
                                plant_damaged(p, data, case["damage_how"], case["damage_mode"])
                                labels.add("old-tree-cached:file-object-damaged")
                                labels.add("damaged-object-mode=" + oct(
                                    DAMAGED_MODES[case["damage_mode"] % len(DAMAGED_MODES)]))
                            else:
                                os.chmod(p, 0o644)
                                os.unlink(p)
                                labels.add("old-tree-cached:file-object-removed")
                            if o in {md5(b) for b in tflat.values()}:
                                labels.add("target-object-dropped")

            # target objects dropped from the cache (only when no workspace file points into it by name)
            has_symlink = any(
                os.path.islink(os.path.join(r, f)) for r, _, fl in os.walk(ws) for f in fl
            ) or os.path.islink(ws)
            toids = sorted({md5(b) for b in tflat.values()})
            if case["drop"] and (not has_symlink or case.get("drop_symlinked")):
                for i in case["drop"]:
                    p = os.path.join(cpath, toids[i % len(toids)][:2], toids[i % len(toids)][2:])
                    if os.path.exists(p):
                        os.chmod(p, 0o644)
                        os.unlink(p)
                        labels.add("target-object-dropped")

            # dangling symlinks put into the workspace by the user (tree targets, directory root)
            if case["target_kind"] == "tree" and os.path.isdir(ws) and not os.path.islink(ws):
                tkeys = sorted(tflat)
                for n, spec in enumerate(case.get("dangling") or []):
                    if "t" in spec:
                        p = os.path.join(ws, *tkeys[spec["t"] % len(tkeys)].split("/"))
                    else:
                        dl = sorted(snapshot(ws)[1])
                        d0 = dl[spec["d"] % len(dl)]
                        p = os.path.join(ws, *([x for x in d0.split("/") if x] + [spec["name"]]))
                    parent = os.path.dirname(p)
                    if os.path.isdir(p) and not os.path.islink(p):
                        continue
                    anc, blocked = parent, False
                    while len(anc) > len(ws):   # an ancestor that is a file or a (dangling) symlink
                        if os.path.lexists(anc) and (os.path.islink(anc) or not os.path.isdir(anc)):
                            blocked = True
                        anc = os.path.dirname(anc)
                    if blocked:
                        continue
                    os.makedirs(parent, exist_ok=True)
                    if os.path.lexists(p):
                        os.unlink(p)   # the user deleted the file and left a broken link in its place
                    os.symlink(os.path.join(d, "nowhere", str(n)), p)
                    labels.add("dangling-symlink:" + ("at-target-path" if "t" in spec else "extra-path"))

            # corrupt, unprotected objects under the names of otherwise uncached contents
            _, intact0 = cache_snapshot(cpath)
            for role, c in palette:
                if role == "corrupt":
                    data = gen.content_bytes(c)
                    h = md5(data)
                    if h in intact0:
                        continue
                    p = os.path.join(cpath, h[:2], h[2:])
                    if not os.path.lexists(p):
                        if "damage_mode" in case:
                            plant_damaged(p, data, case["damage_how"], case["damage_mode"])
                            labels.add("damaged-object-mode=" + oct(
                                DAMAGED_MODES[case["damage_mode"] % len(DAMAGED_MODES)]))
                        else:   # (replay files written before this dimension existed)
                            plant_damaged(p, data, 2, 0)

            # pre-step: status-like staging of the workspace through the same State while the user
            # saves uncached content into an already-read file of the batch
            race = case.get("race")
            if race and state is not None and os.path.isdir(ws):
                from dvc_data.hashfile.build import build as _build

                def user_saves(victim, _c=race["c"]):
                    os.unlink(victim)   # never write through a link
                    with open(victim, "xb") as f:
                        f.write(gen.content_bytes(palette[_c % len(palette)][1]))
                    clock.stamp(victim)
                    labels.add("user-saved-during-staging")

                wfs = make_writer_fs(ws, race["skip"], race["pick"], user_saves)
                try:
                    _build(odb, ws, wfs, "md5", dry_run=True)
                except FileNotFoundError:   # dangling symlink inside
                    pass

            # pre-step: the same workspace hashed for a legacy md5-dos2unix store that shares the State
            if case.get("legacy_hashed") and state is not None:
                from dvc_data.hashfile.build import build

                legacy = ops.make_odb("local", os.path.join(d, "legacy"), hash_name="md5-dos2unix",
                                      state=state)
                try:
                    build(legacy, ws, fs, "md5-dos2unix", dry_run=True)
                    labels.add("hashed-under-md5-dos2unix-first")
                except FileNotFoundError:   # no workspace yet / dangling symlink inside
                    pass

            dangling_before = set()
            before, dirs_before = snapshot(ws, dangling_before)
            # a workspace symlink into the cache directory holds no bytes of its own (what it shows
            # is the cache's content, e.g. a corrupt object the harness planted under that name)
            for rel in sorted(before):
                p = os.path.join(ws, *rel.split("/")) if rel else ws
                if os.path.islink(p) and os.path.realpath(p).startswith(os.path.realpath(cpath) + os.sep):
                    del before[rel]
                    dangling_before.add(rel)
                    labels.add("workspace-symlink-into-cache")
            unreadable = any(not os.path.exists(os.path.join(ws, *r.split("/")) if r else ws)
                             for r in dangling_before)
            if unreadable:
                labels.add("workspace-has-dangling-symlink")
            _, intact_before = cache_snapshot(cpath)

            conflicts = {
                rel: ("extra" if rel not in tflat else "modified")
                for rel, data in before.items() if tflat.get(rel) != data
            }
            unrec = {rel: role for rel, role in conflicts.items()
                     if not recoverable(before[rel], intact_before)}
            if root_file is not None:
                labels.add("root-file:" + ("unrecoverable" if unrec else "recoverable"))
            # an in-place edit through a hard link of the earlier checkout damaged the shared object
            if "edit:in-place-through-hard-link" in labels and any(
                    md5(b) not in intact_before for b in tflat.values()):
                labels.add("target-object-dropped")
                labels.add("target-object-damaged-by-in-place-edit")
            # workspace files that have more than one name (hard links): a link count says nothing
            # about where the other name is - the cache is asked by content, as for any other file
            for rel in sorted(before):
                p = os.path.join(ws, *rel.split("/")) if rel else ws
                if not os.path.islink(p) and os.path.isfile(p) and os.stat(p).st_nlink > 1:
                    what = ("unrecoverable-" + unrec[rel] if rel in unrec else
                            "recoverable-conflict" if rel in conflicts else "same-as-target")
                    labels.add("nlink>1:" + what)
                    if rel in unrec and "hardlink" in case["types"]:
                        labels.add("nlink>1:unrecoverable+hardlink-cache-type")
            corrupt_names = {md5(gen.content_bytes(c)) for role, c in palette if role == "corrupt"}

            prompts = []

            ans = case.get("answer", 0)
            raised_by_prompt = []

            def prompt(msg):
                prompts.append(msg)
                if case["prompt"] == "raise":
                    etype = PROMPT_RAISES[ans % len(PROMPT_RAISES)]
                    raised_by_prompt.append(etype)
                    raise etype("harness prompt cannot ask")
                if case["prompt"] == "accept":
                    return ACCEPT_ANSWERS[ans % len(ACCEPT_ANSWERS)]
                return DECLINE_ANSWERS[ans % len(DECLINE_ANSWERS)]

            outcome, exc = "returned", None
            try:
                checkout(ws, fs, obj, odb, force=False, relink=case["relink"], state=state,
                         prompt=None if case["prompt"] == "none" else prompt)
            except PromptError as e:
                outcome, exc = "PromptError", e
            except (EOFError, KeyboardInterrupt) as e:
                if not raised_by_prompt:
                    raise
                outcome, exc = "raised:" + type(e).__name__, e
            except (LinkError, CheckoutError) as e:
                outcome, exc = type(e).__name__, e
            except Exception as e:  # noqa: BLE001
                if root_file is not None:
                    # a plain file at the root of a tree target: the unchanged code refuses with a bare
                    # FileExistsError from makedirs. Any error counts as the refusal for this shape;
                    # the byte accounting below is what matters.
                    outcome, exc = "refused:" + type(e).__name__, e
                elif unreadable and isinstance(e, OSError):
                    # the workspace cannot be staged (dangling symlink): everything in the target is
                    # linked as "added"; a file or directory in the way then surfaces as a bare
                    # OSError (FileExistsError / NotADirectoryError from makedirs ...). An error, and
                    # the byte accounting below still applies.
                    outcome, exc = "refused:" + type(e).__name__, e
                elif isinstance(e, FileNotFoundError) and "target-object-dropped" in labels:
                    # a target object is missing from the cache and the link type is symlink: the link
                    # is created dangling and the following stat fails. Nothing to do with user data.
                    outcome, exc = "FileNotFoundError", e
                else:
                    raise

            after, dirs_after = snapshot(ws, set())
            _, intact_after = cache_snapshot(cpath)
        finally:
            if state is not None:
                state.close()

        viols = []
        if case["prompt"] == "accept":
            # (only the canonical bool True is asserted to confirm; other truthy answers are counted)
            if outcome == "PromptError" and ACCEPT_ANSWERS[ans % len(ACCEPT_ANSWERS)] is True:
                viols.append(Viol("accepted-prompt-refused",
                                  f"prompt answered yes but PromptError({exc.path!r}) was raised"))
        else:
            # (1) every lost byte string is accounted for by an intact cache object
            for rel in sorted(before):
                data = before[rel]
                if after.get(rel) == data:
                    continue
                if recoverable(data, intact_after):
                    continue
                how = ("removed" if rel not in after and rel not in dirs_after else
                       "replaced-by-dir" if rel in dirs_after else "overwritten")
                role = conflicts.get(rel, "same-as-target")
                viols.append(Viol(
                    f"lost:{how}:{role}",
                    f"workspace file {rel!r} ({len(data)} bytes, md5 {md5(data)}) was {how} by "
                    f"checkout(force=False, prompt={case['prompt']}, relink={case['relink']}) -> {outcome}, "
                    f"and no intact object with that md5 exists in the cache"))
                break
            # (2) an unrecoverable conflicting file => the call refuses
            # (when the workspace cannot be staged, extra files are simply left alone: only a
            # conflicting file sitting at a target path is in the way of the checkout)
            must_refuse = {r: k for r, k in unrec.items() if not unreadable or k == "modified"}
            if must_refuse and outcome == "returned":
                rel = sorted(must_refuse)[0]
                viols.append(Viol(
                    f"no-refusal:{unrec[rel]}",
                    f"unrecoverable conflicting file {rel!r} present, yet checkout returned normally"))
            # (2b) an exception raised by the prompt callable itself (EOF, Ctrl-C) propagates as it is
            if raised_by_prompt and outcome != "raised:" + raised_by_prompt[0].__name__:
                viols.append(Viol("prompt-exception-swallowed",
                                  f"the prompt raised {raised_by_prompt[0].__name__} but checkout -> {outcome}"))
            # (3) the path named by PromptError still holds its bytes
            if outcome == "PromptError":
                p = exc.path
                rel = os.path.relpath(p, ws)
                rel = "" if rel == "." else rel.replace(os.sep, "/")
                if not os.path.lexists(p):
                    viols.append(Viol("prompt-path-gone", f"PromptError names {rel!r}, which no longer exists"))
                elif rel in before and after.get(rel) != before[rel]:
                    viols.append(Viol("prompt-path-altered", f"PromptError names {rel!r}, whose bytes changed"))
                elif rel not in before and rel not in dirs_before and rel not in dangling_before:
                    viols.append(Viol("prompt-path-unknown",
                                      f"PromptError names {rel!r}, which was not in the workspace"))
                if rel in before and recoverable(before[rel], intact_before):
                    labels.add("prompt-on-recoverable")

        # ---- bookkeeping ---------------------------------------------------------------------
        labels.add("kind=" + case["kind"])
        labels.add("link=" + "+".join(case["types"]))
        labels.add("relink" if case["relink"] else "no-relink")
        labels.add("prompt=" + case["prompt"])
        if prompts:
            if case["prompt"] == "decline":
                labels.add("declined-with=" + repr(DECLINE_ANSWERS[ans % len(DECLINE_ANSWERS)]))
            elif case["prompt"] == "accept":
                labels.add("accepted-with=" + repr(ACCEPT_ANSWERS[ans % len(ACCEPT_ANSWERS)]))
            elif case["prompt"] == "raise":
                labels.add("prompt-raised=" + raised_by_prompt[0].__name__)
        labels.add("target=" + case["target_kind"])
        if case.get("shape"):
            labels.add("shape=" + case["shape"])
        labels.add("outcome=" + outcome)
        if prompts:
            labels.add("prompt-called")
        if unrec:
            labels.add("unrecoverable-conflict")
            for role in set(unrec.values()):
                labels.add("unrecoverable:" + role)
            if any(md5(before[r]) in corrupt_names for r in unrec):
                labels.add("unrecoverable:corrupt-object-in-cache")
            if outcome not in ("PromptError", "returned"):
                labels.add("refused-by-other-error")
        if conflicts and not unrec:
            labels.add("conflicts-all-recoverable")
        if any(after.get(r) != b for r, b in before.items()):
            labels.add("some-file-replaced-or-removed")
        nontrivial = bool(unrec) and case["prompt"] != "accept"
        return Result(viols, nontrivial, sorted(labels),
                      {"refusals": int(outcome == "PromptError"), "checkout_cases": 1})


# ------------------------------------------------------------------------------------------
# entry points
# ------------------------------------------------------------------------------------------
def run_case(case, ctx):
    if case.get("half") == "links":
        raise ValueError("links cases are replayed through the trace machine")
    return run_checkout_case(case, ctx)


def run(ctx):
    from .c05_links import LinksMachine

    total = ctx.budget_s
    if total:
        ctx.budget_s = total * 0.5
    ok = ctx.run_given(cases(), run_case, ctx.n(quick=180, thorough=4500))
    ctx.budget_s = total
    if ok and ctx.failure is None:
        run_trace_machine(ctx, LinksMachine, ctx.n(quick=60, thorough=1800),
                          16 if ctx.tier == "quick" else 20)


def replay(case, ctx):
    if case.get("half") == "links":
        from .c05_links import LinksMachine

        replay_trace_machine(ctx, LinksMachine, case)
    else:
        ctx.exec_case(case, run_case)

