"""Shared transfer-with-faults harness for C04 (closure) and C11 (truthful result)."""

import os

from hypothesis import strategies as st

from . import gen, ops, ref
from .faults import Abort, Injector


@st.composite
def cases(draw, closed_only, allow_verify):
    ntrees = draw(st.integers(1, 4))
    content = gen.small_contents()
    trees = [draw(gen.trees(max_files=4, max_depth=2, content=content)) for _ in range(ntrees)]
    loose = draw(st.lists(content, max_size=2))
    nobj = ntrees + len(loose)
    forms = ["closed", "closed", "expand"] if closed_only else ["closed", "expand", "expand", "shallow-dirs"]
    plan_kind = draw(st.sampled_from(["fail", "fail", "fail", "abort", "none"]))
    case = {
        "trees": trees,
        "loose": loose,
        # refdb: one hand-filled reference store whose objects sit on several filesystem OBJECTS (the
        # workspace fs, further local fs instances, memfs) - uploads are grouped per filesystem object
        "src_kind": draw(st.sampled_from(["local", "generic", "staging", "refdb"])),
        "ref_fs": draw(st.lists(st.integers(0, 3), min_size=1, max_size=8)),
        "dst_kind": draw(st.sampled_from(["local", "generic"])),
        # which top-level objects (trees first, then loose) are requested / pre-delivered (closed)
        "request": sorted(draw(st.sets(st.integers(0, nobj - 1), min_size=1))),
        "dst_init": sorted(draw(st.sets(st.integers(0, nobj - 1), max_size=2))),
        # individual file objects already in the destination (indices into sorted file ids)
        "dst_files": sorted(draw(st.sets(st.integers(0, 11), max_size=3))),
        # objects removed from the source before the transfer (indices into sorted all ids)
        "src_missing": sorted(draw(st.sets(st.integers(0, 15), max_size=draw(st.sampled_from([0, 0, 1, 2]))))),
        "form": draw(st.sampled_from(forms)),
        "index": draw(st.booleans()),
        "fail": sorted(draw(st.sets(st.one_of(st.integers(0, 15), st.integers(0, 15), st.integers(0, 2500)),
                                    min_size=1, max_size=3))) if plan_kind == "fail" else [],
        "abort_at": draw(st.sampled_from([1, 1, 2, 2, 3, 4, 5, 7])) if plan_kind == "abort" else None,
        "verify": False,
        "corrupt": [],
        "jobs": draw(st.sampled_from([1, 1, 4])),
        # hash-state cache attached to the destination / source store (as DVC's cache and remotes have)
        # route: hashfile.transfer() directly, or the index-level collect()+push() (closed by construction)
        "via": draw(st.sampled_from(["transfer", "transfer", "push", "fetch"])) if closed_only else "transfer",
        # after the initial deliveries the destination is wiped externally while its index survives
        "wipe": draw(st.sampled_from([False, False, False, True])),
        # part of the pre-existing destination contents is delivered through a second store handle
        "other_handle": draw(st.booleans()),
        # objects that leave the source between the status phase and the upload (another process's gc):
        # indices into the ids that have to move; removed from the validate_status hook
        "vanish": sorted(draw(st.sets(st.integers(0, 15), max_size=draw(st.sampled_from([0, 0, 0, 1, 2]))))),
        "dst_state": draw(st.booleans()),
        "src_state": draw(st.sampled_from([False, False, True])),
    }
    if ntrees >= 2 and draw(st.integers(0, 9)) == 0:
        # deliberate shape: tree 0 delivered + indexed, destination wiped (index survives), then another
        # tree that shares a file with tree 0 is requested - the stale index must not vouch for the file
        shared = draw(content)
        case["trees"][0] = dict(case["trees"][0], shared=shared)
        case["trees"][1] = dict(case["trees"][1], **{draw(st.sampled_from(["shared", "other-name"])): shared})
        case.update(index=True, wipe=True, dst_init=[0], request=[1], dst_files=[], src_missing=[],
                    fail=[], abort_at=None, src_kind=draw(st.sampled_from(["local", "generic"])))
    if draw(st.integers(0, 24)) in (7, 13, 19):
        # one object whose size sits exactly on / next to a power of two (batching, multipart and
        # "large object" thresholds are sizes like these)
        size = draw(st.sampled_from([2**20, 2**20 + 1, 2**23 - 1, 2**23, 2**23, 2**23 + 1]))
        big = f"z:{size}:{draw(st.binary(min_size=1, max_size=3)).hex()}"
        if draw(st.booleans()):
            case["trees"][0] = dict(case["trees"][0], big=big)
        else:
            case["loose"] = [*case["loose"], big]
            case["request"] = sorted({*case["request"], ntrees + len(case["loose"]) - 1})
    # the destination is NOT closed to begin with: file objects of delivered directories removed afterwards
    # (lost objects, partial gc) while the .dir object stays; only without a destination index (with one the
    # presence of the .dir vouches for its files by design) and only for the truthfulness check
    case["dst_holes"] = sorted(draw(st.sets(st.integers(0, 11), max_size=2))) \
        if not closed_only and draw(st.integers(0, 2)) == 1 else []
    # one directory with more than 1000 files (batch / page / chunk sizes of uploads and listings)
    case["bulk"] = draw(st.sampled_from([1001, 1500, 1990])) if draw(st.integers(0, 29)) == 17 else 0
    # requested ids carry obj_name labels (as DVC's outputs produce them)
    case["named"] = draw(st.booleans())
    # kind of the injected upload failure (OSError subclass is chosen by errno)
    case["fail_errno"] = draw(st.sampled_from(["EIO", "EIO", "ENOENT", "EACCES", "ENOSPC"]))
    # a failing upload leaves the first half of the object, unprotected, under its final name (a destination
    # filesystem without atomic placement dying half-way; dvc_objects hands put_file the final path)
    case["fail_partial"] = draw(st.sampled_from([False, False, False, True]))
    # placement by hard link instead of copy (cache type hardlink); applies to hashfile.transfer() only
    case["hardlink"] = draw(st.sampled_from([False, False, True]))
    # legacy (DVC 2.x) stores name their hashes "md5-dos2unix": both stores legacy, or only the source (a legacy
    # cache pushed to a store opened without hash_name). Applied only when no generated content holds a CR byte
    # (then both flavours give the same ids) and on the direct transfer route between local/generic stores
    case["flavour"] = draw(st.sampled_from(["md5", "md5", "md5", "legacy-both", "legacy-src"]))
    if case["flavour"] != "md5":
        if case["src_kind"] not in ("local", "generic"):
            case["src_kind"] = draw(st.sampled_from(["local", "generic"]))
        case["via"] = "transfer"
        case["bulk"] = 0
    # the source objects carry a second hard link (the store served a hardlink transfer / checkout before)
    case["src_linked"] = draw(st.sampled_from([False, False, True]))
    # deliberate shape: one requested directory loses a file on BOTH sides (its .dir object is withheld although
    # nothing failed while sending it) while the injected upload failures hit objects OUTSIDE that directory
    # (a loose file, another directory's file or .dir object) in the same transfer
    case["withhold"] = None
    if nobj >= 2 and draw(st.integers(0, 7)) == 3:
        t = draw(st.integers(0, ntrees - 1))
        case["withhold"] = [t, draw(st.integers(0, 11))]
        case["request"] = sorted({*case["request"], t, draw(st.integers(0, nobj - 1))})
        case["dst_init"] = [i for i in case["dst_init"] if i != t]
        if case["src_kind"] in ("staging", "refdb"):
            case["src_kind"] = draw(st.sampled_from(["local", "generic"]))
        if draw(st.integers(0, 3)) != 0:
            case["fail"] = sorted(draw(st.sets(st.integers(0, 15), min_size=1, max_size=2)))
            case["abort_at"] = None
    if allow_verify and draw(st.integers(0, 3)) == 0:
        case["verify"] = True
        case["corrupt"] = sorted(draw(st.sets(st.integers(0, 15), min_size=1, max_size=2)))
        # also a directory OBJECT whose source bytes do not hash to its name (re-indented, still parseable)
        case["corrupt_dir"] = draw(st.sampled_from([False, False, True]))
    return case


class Obs:
    """Everything observed while executing one transfer case."""


def execute(case, ctx, d, monitor_closure=True, partial_on_generic=False):  # noqa: C901, PLR0912, PLR0915
    from dvc_objects.fs.local import LocalFileSystem

    from dvc_data.hashfile.build import build
    from dvc_data.hashfile.hash_info import HashInfo
    from dvc_data.hashfile.transfer import transfer
    from dvc_data.index.index import DataIndexDirError

    o = Obs()
    fs = LocalFileSystem()
    src_root = os.path.join(d, "src")
    dst_root = os.path.join(d, "dst")
    o.states = []
    dkw, skw = {}, {}
    if case.get("dst_state"):
        o.states.append(ops.make_state(d, os.path.join(d, "dst-state")))
        dkw["state"] = o.states[-1]
    if case.get("src_state"):
        o.states.append(ops.make_state(d, os.path.join(d, "src-state")))
        skw["state"] = o.states[-1]
    if case["index"]:
        dkw["tmp_dir"] = os.path.join(d, "idx")
        os.makedirs(dkw["tmp_dir"], exist_ok=True)
    flavour = case.get("flavour") or "md5"
    if flavour != "md5":
        blobs = [gen.content_bytes(c) for c in case["loose"]]
        for t_ in case["trees"]:
            blobs += list(gen.flatten_case(t_).values())
        if (any(b"\r" in b_ for b_ in blobs) or case["src_kind"] not in ("local", "generic")
                or case.get("via") in ("push", "fetch") or case.get("bulk")):
            flavour = "md5"
    o.flavour = flavour
    src_name = "md5-dos2unix" if flavour != "md5" else "md5"
    if flavour == "legacy-both":
        dkw["hash_name"] = "md5-dos2unix"
    if flavour != "md5":
        skw["hash_name"] = "md5-dos2unix"
    dst = ops.make_odb(case["dst_kind"], dst_root, **dkw)
    via_push = case.get("via") in ("push", "fetch") and case["src_kind"] not in ("staging", "refdb")
    via_fetch = via_push and case.get("via") == "fetch"
    if via_fetch and case["index"]:
        # index-level fetch keeps an index of the *source* (the remote) under its tmp_dir
        skw["tmp_dir"] = os.path.join(d, "src-idx")
        os.makedirs(skw["tmp_dir"], exist_ok=True)
        dkw.pop("tmp_dir", None)
        dst = ops.make_odb(case["dst_kind"], dst_root, **dkw)
    refdb_mode = case["src_kind"] == "refdb"
    staging_mode = case["src_kind"] in ("staging", "refdb")
    src = None if staging_mode else ops.make_odb(case["src_kind"], src_root, **skw)

    # ---- materialise + reference manifests -------------------------------------------------
    tops = []  # per top-level object: dict(oid, files={oid: bytes}, isdir, path)
    for i, t in enumerate(case["trees"]):
        p = os.path.join(d, f"t{i}")
        if i == 0 and case.get("bulk"):
            t = dict(t, bulk={f"f{j}": "h:" + (b"bulk %d" % j).hex() for j in range(case["bulk"])})
            case = dict(case, trees=[t, *case["trees"][1:]])
        flat = gen.materialise(t, p)
        man = ref.tree_manifest(flat)
        tops.append({"path": p, "isdir": True, "oid": ref.ref_tree_oid(man),
                     "listing": ref.ref_tree_bytes(man),
                     "files": {man[k]: flat[k] for k in flat}, "manifest": man})
    for i, c in enumerate(case["loose"]):
        p = os.path.join(d, f"loose{i}")
        data = gen.content_bytes(c)
        gen.write_file(p, data)
        tops.append({"path": p, "isdir": False, "oid": ref.ref_hash(data), "files": {}, "data": data})
    o.tops = tops
    o.bytes = {}
    for t in tops:
        o.bytes.update(t["files"])
        o.bytes[t["oid"]] = t["listing"] if t["isdir"] else t["data"]
    all_ids = sorted(o.bytes)
    file_ids = sorted(i for i in all_ids if not i.endswith(".dir"))
    o.dir_children = {t["oid"]: set(t["files"]) for t in tops if t["isdir"]}

    # ---- source ----------------------------------------------------------------------------
    stagings = []
    if refdb_mode:
        from dvc_objects.fs import MemoryFileSystem

        from dvc_data.hashfile.db.reference import ReferenceHashFileDB

        memfs = MemoryFileSystem()  # global memfs, reset by ctx.tmpdir()
        base = "memory://vd-refdb"
        src = ReferenceHashFileDB(memfs, base + "/odb", hash_name="md5")
        pool = [fs, LocalFileSystem(), LocalFileSystem()]
        picks = case.get("ref_fs") or [0]
        n = 0

        def ref_add(path, data, oid):
            nonlocal n
            k = picks[n % len(picks)]
            n += 1
            if k == 3:
                mp = f"{base}/files/{n}"
                memfs.pipe_file(mp, data)
                src.add(mp, memfs, oid)
            else:
                src.add(path, pool[k], oid)

        for t in tops:
            if t["isdir"]:
                flat = gen.flatten_case(case["trees"][tops.index(t)])
                for rel in sorted(flat):
                    ref_add(os.path.join(t["path"], *rel.split("/")), flat[rel], t["manifest"][rel])
                mp = f"{base}/dirs/{t['oid']}"
                memfs.pipe_file(mp, t["listing"])
                src.add(mp, memfs, t["oid"])
            else:
                ref_add(t["path"], t["data"], t["oid"])
        o.ref_groups = len({id(src.get(x).fs) for x in all_ids})
    elif staging_mode:
        # one staging area per destination store: build every top-level object against dst
        for t in tops:
            staging, _, obj = build(dst, t["path"], fs, "md5")
            assert obj.hash_info.value == t["oid"], (obj.hash_info.value, t["oid"])
            stagings.append(staging)
        src = stagings[-1]
    else:
        for t in tops:
            _, obj, _ = ops.stage_transfer(src, t["path"])
            assert obj.hash_info.value == t["oid"], (obj.hash_info.value, t["oid"])
    o.src = src
    if case.get("src_linked") and not staging_mode:
        # every source object has a second name (an earlier hardlink transfer or hardlink checkout out of this
        # store): link counts > 1 on protected objects, intact or - after the mutilation below - corrupt
        os.makedirs(os.path.join(d, "srclinks"), exist_ok=True)
        for oid_, pth_ in ref.walk_store(src_root)[0].items():
            os.link(pth_, os.path.join(d, "srclinks", oid_))

    # ---- destination initial contents (closed) ----------------------------------------------
    from dvc_data.hashfile.db import get_index

    index = get_index(dst) if case["index"] and not via_fetch else None
    ikw = {"dest_index": index} if index is not None else {}
    pre_src = ops.make_odb("local", os.path.join(d, "pre"))
    for t in tops:
        ops.stage_transfer(pre_src, t["path"])
    for idx in case["dst_init"]:
        t = tops[idx % len(tops)]
        ids = {HashInfo("md5", t["oid"])} | {HashInfo("md5", f) for f in t["files"]}
        transfer(pre_src, dst, ids, shallow=True, **ikw)
    if file_ids:
        # these arrive through ANOTHER handle on the same store (another process / DVC instance), after
        # `dst` has possibly done its own first add: per-handle bookkeeping of `dst` must not matter
        dst_other = ops.make_odb(case["dst_kind"], dst_root, **{k: v for k, v in dkw.items() if k != "state"}) \
            if case.get("other_handle") else dst
        for idx in case["dst_files"]:
            transfer(pre_src, dst_other, {HashInfo("md5", file_ids[idx % len(file_ids)])}, shallow=True, **ikw)
    o.holes = set()
    if case.get("dst_holes") and not case["index"]:
        present = ref.walk_store(dst_root)[0]
        listed = sorted({f for t in tops if t["isdir"] and t["oid"] in present for f in t["files"] if f in present})
        for i in case["dst_holes"]:
            if listed:
                oid = listed[i % len(listed)]
                if oid in present and oid not in o.holes:
                    os.chmod(present[oid], 0o644)
                    os.unlink(present[oid])
                    o.holes.add(oid)
        dst._dirs = None
    o.wiped = False
    if case.get("wipe") and ref.store_ids(dst_root):
        # external wipe of the destination (remote gc / bucket emptied); a destination index survives
        for _oid, pth in ref.walk_store(dst_root)[0].items():
            os.chmod(pth, 0o644)
            os.unlink(pth)
        dst._dirs = None
        o.wiped = True

    # ---- source mutilation ------------------------------------------------------------------
    o.src_removed = set()
    o.corrupted = set()
    if not staging_mode:
        for idx in case["src_missing"]:
            oid = all_ids[idx % len(all_ids)]
            p = src.oid_to_path(oid)
            if os.path.exists(p):
                os.chmod(p, 0o644)
                os.unlink(p)
                o.src_removed.add(oid)
        if case.get("withhold"):
            wt = tops[case["withhold"][0] % len(tops)]
            kids = sorted(wt["files"])
            if wt["isdir"] and kids:
                oid = kids[case["withhold"][1] % len(kids)]
                p = src.oid_to_path(oid)
                if os.path.exists(p):
                    os.chmod(p, 0o644)
                    os.unlink(p)
                    o.src_removed.add(oid)
        for idx in case["corrupt"]:
            oid = file_ids[idx % len(file_ids)] if file_ids else None
            if oid and oid not in o.src_removed:
                p = src.oid_to_path(oid)
                os.chmod(p, 0o644)
                with open(p, "wb") as f:
                    f.write(b"corrupted:" + oid.encode())
                os.chmod(p, 0o444)  # still protected: the source store itself trusts it
                o.corrupted.add(oid)
        if case.get("corrupt_dir") and case["corrupt"]:
            import json as _json

            dirs = [t["oid"] for t in tops if t["isdir"] and t["oid"] not in o.src_removed]
            if dirs:
                oid = dirs[case["corrupt"][0] % len(dirs)]
                p = src.oid_to_path(oid)
                os.chmod(p, 0o644)
                with open(p, "rb") as f:
                    lst = _json.loads(f.read())
                with open(p, "w", encoding="utf-8") as f:
                    _json.dump(lst, f, indent=1)
                os.chmod(p, 0o444)
                o.corrupted.add(oid)

    # ---- request ----------------------------------------------------------------------------
    req_tops = [tops[i % len(tops)] for i in case["request"]]
    if staging_mode and not refdb_mode:
        # a staging area knows the objects of one build only (as `dvc add` uses it)
        req_tops = req_tops[:1]
        src = stagings[tops.index(req_tops[0])]
        o.src = src
    req = set()
    named = bool(case.get("named"))
    for j, t in enumerate(req_tops):
        # DVC hands transfer() ids that carry a presentation-only path label (obj_name)
        req.add(HashInfo(src_name, t["oid"], obj_name=f"out{j}") if named else HashInfo(src_name, t["oid"]))
        if t["isdir"] and case["form"] == "closed":
            for rel, f in sorted(t["manifest"].items()):
                req.add(HashInfo(src_name, f, obj_name=f"out{j}/{rel}") if named else HashInfo(src_name, f))
    shallow = case["form"] != "expand"
    o.requested = {h.value for h in req}
    o.requested_expanded = set(o.requested)
    if case["form"] == "expand":
        for t in req_tops:
            o.requested_expanded.update(t["files"])
    # a directory requested for expansion must be loadable from the source (status loads it)
    o.unloadable = case["form"] == "expand" and any(
        t["isdir"] and t["oid"] in o.src_removed for t in req_tops)

    if via_push:
        # the index-level push loads every tracked directory from the cache and always sends
        # directories together with their files
        o.unloadable = any(t["isdir"] and t["oid"] in o.src_removed for t in req_tops)
        for t in req_tops:
            o.requested.update(t["files"])
        o.requested_expanded = set(o.requested)

    # A destination index is re-validated against the store only by queries that name a directory (C12);
    # a file-only request after an external wipe legitimately trusts the surviving index.
    o.trusting_stale_index = bool(o.wiped and case["index"] and not any(t["isdir"] for t in req_tops))

    _, o.dst_before = ref.audit_local_store(dst_root)
    o.src_before = None if staging_mode else ref.audit_local_store(src_root)[1]

    o.index = index

    # fault indices point into the ids that have to move (so plans usually hit), else into all ids
    moving = sorted(o.requested_expanded - set(o.dst_before)) or all_ids
    if case.get("withhold") and not staging_mode:
        wt = tops[case["withhold"][0] % len(tops)]
        outside = [m for m in moving if m != wt["oid"] and m not in wt["files"] and m not in o.src_removed]
        moving = outside or moving
    fail = {moving[i % len(moving)] for i in case["fail"]}
    o.fail = fail
    o.closure_breaks = []
    o.vanished = set()
    if refdb_mode:
        # referenced files that are gone by the time of the upload: the reference store still lists them
        for i in list(case.get("vanish") or []) + list(case.get("src_missing") or []):
            oid = moving[i % len(moving)]
            if oid.endswith(".dir") or oid in o.vanished:
                continue
            obj = src.get(oid)
            if obj.fs is memfs:
                # not vanished: a failed download from a non-local filesystem escapes dvc_objects'
                # generic._get (as_atomic renames a temp file that was never created) - a defect of the
                # dependency, outside iterative/dvc-data (DESIGN 9.5)
                continue
            if obj.fs.exists(obj.path):
                obj.fs.rm_file(obj.path)
                o.vanished.add(oid)

    def monitor(_root, oid):
        if not monitor_closure or case.get("bulk"):
            return  # (bulk: one audit per placement would be quadratic; the after-states are audited)
        _, cont = ref.audit_local_store(dst_root)
        br = ref.closure_problems(cont)
        if br:
            o.closure_breaks.append((oid, br))

    def do_push():
        from dvc_data.hashfile.meta import Meta
        from dvc_data.index import DataIndex, DataIndexEntry, ObjectStorage
        from dvc_data.index.collect import collect
        from dvc_data.index.push import push

        idx = DataIndex()
        for j, t in enumerate(req_tops):
            key = (f"o{j}",)
            idx[key] = DataIndexEntry(key=key, meta=Meta(isdir=True) if t["isdir"] else Meta(),
                                      hash_info=HashInfo("md5", t["oid"]))
        if via_fetch:
            from dvc_data.index.fetch import fetch

            # roles swapped: the source store is the remote, the destination is the cache
            idx.storage_map.add_cache(ObjectStorage((), dst))
            idx.storage_map.add_remote(ObjectStorage((), src))
            data = collect([idx], "remote")
            return fetch(data, jobs=case["jobs"])
        idx.storage_map.add_cache(ObjectStorage((), src))
        idx.storage_map.add_remote(ObjectStorage((), dst))
        data = collect([idx], "remote", push=True)
        return push(data, jobs=case["jobs"])

    def vanish_hook(_status):
        # TOCTOU: the objects are in the source when status runs and gone when the upload starts
        if staging_mode or o.vanished or not case.get("vanish"):
            return
        for i in case["vanish"]:
            oid = moving[i % len(moving)]
            pth = src.oid_to_path(oid)
            if not oid.endswith(".dir") and os.path.exists(pth):
                os.chmod(pth, 0o644)
                os.unlink(pth)
                o.vanished.add(oid)

    def do_transfer(inj):
        if via_push:
            o.push_counts.append(do_push())
            return None
        kw = {"shallow": shallow, "jobs": case["jobs"], "verify": case["verify"]}
        if case.get("hardlink"):
            kw["hardlink"] = True
        if index is not None:
            kw["dest_index"] = index
        if not staging_mode:
            kw["cache_odb"] = None
        def status_hook(status):
            # the only channel through which transfer() reports ids missing from BOTH sides
            o.status_calls += 1
            o.status_missing = (o.status_missing or set()) | {h.value for h in status.missing}
            if case.get("vanish"):
                vanish_hook(status)

        kw["validate_status"] = status_hook
        return transfer(src, dst, set(req), **kw)

    o.result = None
    o.raised = None
    o.status_calls = 0
    o.status_missing = None  # ids handed to validate_status as missing (None: hook not under harness control)
    o.push_counts = []
    o.via_push = via_push
    # a store class that trusts names keeps a half-written object for good (nothing in dvc-data claims to heal
    # that); only the truthfulness of the report (C11) is judged there, the retry/closure clauses (C04) are not
    partial = bool(case.get("fail_partial")) and (case["dst_kind"] == "local" or partial_on_generic)
    o.partial = partial
    inj = Injector([dst_root], fail=fail, abort_at=case["abort_at"], monitor=monitor,
                   err=case.get("fail_errno") or "EIO", partial=partial)
    with inj:
        try:
            o.result = do_transfer(inj)
        except Abort as exc:
            o.raised = exc
        except (FileNotFoundError, DataIndexDirError) as exc:
            if not o.unloadable:
                raise
            o.raised = exc
    o.inj = inj
    # what the judged (first) call reported through validate_status; the fault-free retry reports separately
    o.first_status_calls, o.first_status_missing = o.status_calls, o.status_missing
    _, o.dst_after = ref.audit_local_store(dst_root)
    o.src_after = None if staging_mode else ref.audit_local_store(src_root)[1]
    o.index_after = set(index) if index is not None else None

    # ---- retry without faults ---------------------------------------------------------------
    o.retry = None
    o.retry_raised = None
    inj2 = Injector([dst_root], monitor=monitor)
    with inj2:
        try:
            o.retry = do_transfer(inj2)
        except (FileNotFoundError, DataIndexDirError) as exc:
            if not o.unloadable:
                raise
            o.retry_raised = exc
    o.inj2 = inj2
    _, o.dst_final = ref.audit_local_store(dst_root)
    o.index_final = set(index) if index is not None else None
    if index is not None:
        index.close()
    for st_ in o.states:
        st_.close()
    return o


def classes_of(case, o):
    cl = [f"src={case['src_kind']}", f"dst={case['dst_kind']}", f"form={case['form']}"]
    if case["index"]:
        cl.append("dest-index")
    if case.get("bulk"):
        cl.append("directory-with->1000-files")
    if case.get("corrupt_dir") and any(x.endswith(".dir") for x in o.corrupted):
        cl.append("corrupt-dir-object-in-source")
    if getattr(o, "holes", None):
        cl.append("destination-has-dir-without-some-files")
    if case.get("named") and not o.via_push:
        cl.append("request-ids-carry-obj_name")
    if case.get("hardlink") and not o.via_push:
        cl.append("hardlink")
    if getattr(o, "flavour", "md5") != "md5":
        cl.append("stores=" + o.flavour)
    if case.get("src_linked") and case["src_kind"] in ("local", "generic"):
        cl.append("source-objects-multiply-linked")
        if o.corrupted:
            cl.append("source-objects-multiply-linked+corrupt")
    if any(len(v) >= 2**20 for v in o.bytes.values()):
        cl.append("object-size-at-power-of-two(>=1MiB)")
    if getattr(o, "ref_groups", 0) >= 2:
        cl.append("source-on->=2-filesystem-objects")
    if o.inj.faulted and case.get("fail_errno", "EIO") != "EIO":
        cl.append(f"fault-errno={case['fail_errno']}")
    if o.inj.faulted and o.partial:
        cl.append("failed-upload-left-half-the-object-under-its-name")
    if o.inj.faulted:
        cl.append("fault-hit")
    if o.inj.aborted:
        cl.append("abort-hit")
    if o.src_removed:
        cl.append("src-missing")
    if o.corrupted:
        cl.append("corrupt-src")
    req_dirs = [t for t in o.dir_children if t in o.requested]
    shared = False
    for i, a in enumerate(req_dirs):
        for b in req_dirs[i + 1:]:
            if o.dir_children[a] & o.dir_children[b]:
                shared = True
    if shared:
        cl.append("file-shared-by-requested-dirs")
    for t in o.tops:
        if t["isdir"] and len(set(t["manifest"].values())) < len(t["manifest"]):
            cl.append("file-repeated-in-dir")
            break
    if o.dst_before:
        cl.append("dst-nonempty")
    if case.get("dst_state"):
        cl.append("dst-has-state")
    if getattr(o, "vanished", None):
        cl.append("source-object-vanished-after-status")
    if case.get("other_handle") and case["dst_files"]:
        cl.append("pre-existing-via-second-handle")
    if getattr(o, "via_push", False):
        cl.append("via=index-fetch" if case.get("via") == "fetch" else "via=index-push")
    if getattr(o, "wiped", False) and case["index"] and case["dst_init"] == [0] and case["request"] == [1]:
        cl.append("shape:stale-index-shared-file")
    if getattr(o, "wiped", False):
        cl.append("dst-wiped-index-kept" if case["index"] else "dst-wiped")
    return cl
