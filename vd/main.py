"""Runner: ./check <ID> --tier quick|thorough [--replay FILE]

Parent: shards the check into worker subprocesses, merges their counters, writes the evidence
file, prints `VIOLATION property=<id> replay=<path>` and exits 1 on a violation, prints
`KNOWN-FINDING:` lines for listed findings that were hit, exits 2 on a harness error.
"""

import argparse
import importlib
import json
import os
import subprocess
import sys
import time
import traceback

HERE = os.path.dirname(os.path.dirname(os.path.abspath(__file__)))
IDS = [f"C{i:02d}" for i in range(1, 21)]


def load_prop(pid):
    return importlib.import_module(f"vd.props.{pid.lower()}")


def pin_repo():
    import dvc_data

    repo = os.path.realpath(os.environ.get("VERIF_REPO", "/repo"))
    f = os.path.realpath(dvc_data.__file__)
    if not f.startswith(os.path.join(repo, "src") + os.sep):
        print(f"HARNESS-ERROR: dvc_data imported from {f}, expected under {repo}/src", flush=True)
        sys.exit(2)


def parse():
    ap = argparse.ArgumentParser()
    ap.add_argument("prop")
    ap.add_argument("--tier", default=os.environ.get("VERIF_TIER") or "quick",
                    choices=["quick", "thorough"])
    ap.add_argument("--seed", type=int, default=None)
    ap.add_argument("--replay", default=None)
    ap.add_argument("--workers", type=int, default=None)
    ap.add_argument("--budget", type=float, default=None, help="per-worker wall budget (s)")
    ap.add_argument("--worker", type=int, default=None, help=argparse.SUPPRESS)
    ap.add_argument("--nworkers", type=int, default=None, help=argparse.SUPPRESS)
    ap.add_argument("--out", default=None, help=argparse.SUPPRESS)
    a = ap.parse_args()
    if a.seed is None:
        try:
            a.seed = int(os.environ.get("VERIF_SEED", "1"))
        except ValueError:
            a.seed = 1
    a.seed = abs(a.seed) % (2**31)
    a.prop = a.prop.upper()
    if a.prop not in IDS:
        print(f"HARNESS-ERROR: unknown property {a.prop}")
        sys.exit(2)
    return a


def budget_for(mod, a):
    if a.budget is not None:
        return a.budget
    env = os.environ.get("VERIF_BUDGET_S")
    if env:
        return float(env)
    b = getattr(mod, "BUDGET_S", {"quick": 60, "thorough": 900})
    return b[a.tier]


# ------------------------------------------------------------------------------------------
# worker
# ------------------------------------------------------------------------------------------
def run_worker(a):
    from .ctx import Ctx, Failure, HarnessError

    pin_repo()
    mod = load_prop(a.prop)
    ctx = Ctx(a.prop, a.tier, a.seed, a.worker, a.nworkers, budget_s=budget_for(mod, a))
    out = {"harness_error": None}
    try:
        try:
            # every worker replays the saved regressions: workers differ in PYTHONHASHSEED, and set
            # iteration order inside the code under test is an input dimension for some of them
            replay_regressions(mod, ctx)
            if ctx.failure is None:
                mod.run(ctx)
        except Failure:
            pass
        except HarnessError as exc:
            out["harness_error"] = str(exc)
        except Exception as exc:  # noqa: BLE001
            out["harness_error"] = "".join(traceback.format_exception(exc))[-4000:]
    finally:
        ctx.cleanup()
    out.update(ctx.to_json())
    with open(a.out, "w", encoding="utf-8") as f:
        json.dump(out, f)
    return 0


def replay_regressions(mod, ctx):
    from .ctx import Failure

    d = os.path.join(HERE, "regressions", ctx.prop_id)
    if not os.path.isdir(d):
        return
    for name in sorted(os.listdir(d)):
        if not name.endswith(".json"):
            continue
        with open(os.path.join(d, name), encoding="utf-8") as f:
            rec = json.load(f)
        ctx.regressions_replayed += 1
        ctx.replaying = True
        try:
            mod.replay(rec["case"], ctx)
        except Failure:
            ctx.failure["regression_file"] = os.path.join(d, name)
            return
        finally:
            ctx.replaying = False


# ------------------------------------------------------------------------------------------
# replay
# ------------------------------------------------------------------------------------------
def run_replay(a):
    from .ctx import Ctx, Failure, HarnessError

    with open(a.replay, encoding="utf-8") as f:
        rec = json.load(f)
    want = rec.get("pythonhashseed")
    if want is not None and os.environ.get("PYTHONHASHSEED") != str(want):
        env = dict(os.environ, PYTHONHASHSEED=str(want))
        os.execve(sys.executable, [sys.executable, "-m", "vd.main", *sys.argv[1:]], env)
    pin_repo()
    mod = load_prop(a.prop)
    ctx = Ctx(a.prop, a.tier, a.seed, 0, 1, replaying=True)
    try:
        mod.replay(rec["case"], ctx)
    except Failure as exc:
        print(f"replay failed: {exc}")
        print(f"VIOLATION property={a.prop} replay={os.path.abspath(a.replay)}")
        return 1
    except HarnessError as exc:
        print(f"HARNESS-ERROR: {exc}")
        return 2
    finally:
        ctx.cleanup()
    for sig, n in ctx.known_hits.items():
        print(f"KNOWN-FINDING: property={a.prop} {ctx.known[sig]} [signature={sig}]")
    print(f"replay ok: property={a.prop} held on {a.replay}")
    return 0


# ------------------------------------------------------------------------------------------
# parent
# ------------------------------------------------------------------------------------------
def run_parent(a):
    t0 = time.time()
    pin_repo()
    mod = load_prop(a.prop)
    nworkers = a.workers or getattr(mod, "WORKERS", {"quick": 8, "thorough": 16})[a.tier]
    nworkers = max(1, min(nworkers, os.cpu_count() or 1))
    work = os.path.join(HERE, ".work", f"{a.prop}-{os.getpid()}")
    os.makedirs(work, exist_ok=True)
    procs = []
    for i in range(nworkers):
        out = os.path.join(work, f"w{i}.json")
        env = dict(os.environ)
        env["PYTHONHASHSEED"] = str((a.seed * 31 + i) % (2**32))
        cmd = [sys.executable, "-m", "vd.main", a.prop, "--tier", a.tier, "--seed", str(a.seed),
               "--worker", str(i), "--nworkers", str(nworkers), "--out", out]
        if a.budget is not None:
            cmd += ["--budget", str(a.budget)]
        log = open(os.path.join(work, f"w{i}.log"), "w")  # noqa: SIM115
        procs.append((i, out, log, subprocess.Popen(cmd, env=env, stdout=log, stderr=subprocess.STDOUT)))
    results, errors = [], []
    for i, out, log, p in procs:
        rc = p.wait()
        log.close()
        if os.path.exists(out):
            with open(out, encoding="utf-8") as f:
                r = json.load(f)
            results.append(r)
            if r.get("harness_error"):
                errors.append(f"worker {i}: {r['harness_error']}")
        else:
            with open(os.path.join(work, f"w{i}.log"), encoding="utf-8", errors="replace") as f:
                tail = f.read()[-3000:]
            errors.append(f"worker {i}: exit {rc}, no result\n{tail}")

    # merge
    from collections import Counter

    classes, counters, known_hits = Counter(), Counter(), Counter()
    digests, samples = set(), []
    evaluations = skipped = regs = 0
    failures = []
    for r in results:
        evaluations += r["evaluations"]
        skipped += r["skipped_over_budget"]
        regs += r["regressions_replayed"]
        classes.update(r["classes"])
        counters.update(r["counters"])
        known_hits.update(r["known_hits"])
        digests.update(r["digests"])
        for s in r["samples"]:
            if len(samples) < 5:
                samples.append(s)
        if r["failure"]:
            failures.append((r["worker"], r["pythonhashseed"], r["failure"]))

    from . import findings as F

    known = F.load(a.prop)
    violations = 0
    lines = []
    if failures:
        rpdir = os.environ.get("VERIF_REPLAY_DIR") or os.path.join(HERE, "replays")
        os.makedirs(rpdir, exist_ok=True)
        failures.sort(key=lambda t: len(json.dumps(t[2]["case"])))
        seen_sigs = set()
        for w, phs, fl in failures:
            sigs = tuple(sorted(v["sig"] for v in fl["violations"]))
            if sigs in seen_sigs:
                continue  # same root-cause signature: keep only the smallest case
            seen_sigs.add(sigs)
            violations += 1
            path = fl.get("regression_file")
            if not path:
                path = os.path.join(rpdir, f"{a.prop}-seed{a.seed}-w{w}.json")
                with open(path, "w", encoding="utf-8") as f:
                    json.dump({"property": a.prop, "seed": a.seed, "worker": w,
                               "pythonhashseed": phs, "violations": fl["violations"],
                               "case": fl["case"]}, f, indent=1, sort_keys=True)
            for v in fl["violations"]:
                lines.append(f"  [{v['sig']}] {v['msg']}")
            lines.append(f"VIOLATION property={a.prop} replay={path}")

    wall = round(time.time() - t0, 2)
    level = mod.LEVEL
    cov = {
        "evaluations": evaluations,
        "distinct_nontrivial": len(digests),
        "rule": mod.RULE,
        "samples": samples,
        "classes": dict(sorted(classes.items())),
        "counters": dict(sorted(counters.items())),
        "workers": nworkers,
        "skipped_over_budget": skipped,
        "inconclusive_time_capped": bool(skipped),
        "regressions_replayed": regs,
        "known_findings_hit": {k: known_hits[k] for k in sorted(known_hits)},
        "scratch": sorted({r["scratch"] for r in results}),
        "repo": os.environ.get("VERIF_REPO", "/repo"),
    }
    if hasattr(mod, "extra_coverage"):
        cov.update(mod.extra_coverage(cov))
    ev = {
        "property_id": a.prop,
        "tier": a.tier,
        "seed": a.seed,
        "level": level,
        "coverage": cov,
        "assumptions": list(getattr(mod, "ASSUMPTIONS", [])),
        "wall_s": wall,
        "violations": violations,
    }
    if errors:
        ev["coverage"]["harness_errors"] = errors[:3]
    evdir = os.environ.get("VERIF_EVIDENCE_DIR") or os.path.join(HERE, "evidence")
    os.makedirs(evdir, exist_ok=True)
    with open(os.path.join(evdir, f"{a.prop}.json"), "w", encoding="utf-8") as f:
        json.dump(ev, f, indent=1, sort_keys=True, ensure_ascii=True)
        f.write("\n")

    # clean work dir
    import shutil

    shutil.rmtree(work, ignore_errors=True)
    try:
        os.rmdir(os.path.join(HERE, ".work"))
    except OSError:
        pass

    print(f"{a.prop} tier={a.tier} seed={a.seed} workers={nworkers} evaluations={evaluations} "
          f"distinct_nontrivial={len(digests)} skipped_over_budget={skipped} wall={wall}s")
    top = ", ".join(f"{k}={v}" for k, v in sorted(classes.items())[:40])
    if top:
        print(f"classes: {top}")
    for sig in sorted(known_hits):
        print(f"KNOWN-FINDING: property={a.prop} {known.get(sig, sig)} [signature={sig} hits={known_hits[sig]}]")
    for ln in lines:
        print(ln)
    if violations:
        return 1
    if errors:
        for e in errors:
            print(f"HARNESS-ERROR: {e}")
        return 2
    if len(digests) < 2:
        print("HARNESS-ERROR: fewer than 2 distinct non-trivial cases were generated")
        return 2
    return 0


def main():
    a = parse()
    if a.worker is not None:
        return run_worker(a)
    if a.replay:
        return run_replay(a)
    return run_parent(a)


if __name__ == "__main__":
    sys.exit(main())
