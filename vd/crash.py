"""Crash injection: run an operation in a forked child that dies before its n-th mutating event.

The child installs a CPython audit hook counting filesystem-mutating events under the scratch
root (open-for-write, os.rename/replace, os.chmod, os.link, os.symlink, os.mkdir, os.remove,
os.rmdir, os.truncate, shutil.copyfile/move are audited by CPython itself) and additionally wraps
shutil.copyfile / shutil.copyfileobj so that a copy is done in two halves with an explicit
`verif.partial_copy` event in between.  Before the n-th event executes the child calls
os._exit(137).
"""

import os
import shutil
import sys

_WRITE_FLAGS = os.O_WRONLY | os.O_RDWR | os.O_CREAT | os.O_TRUNC | os.O_APPEND
_PATH_EVENTS = {
    "os.rename": (0, 1),
    "os.chmod": (0,),
    "os.link": (0, 1),
    "os.symlink": (1,),
    "os.mkdir": (0,),
    "os.remove": (0,),
    "os.rmdir": (0,),
    "os.truncate": (0,),
    "verif.partial_copy": (0,),
}


def _under(path, root):
    try:
        p = os.fspath(path)
    except TypeError:
        return False
    if isinstance(p, bytes):
        p = os.fsdecode(p)
    if not isinstance(p, str):
        return False
    if not os.path.isabs(p):
        p = os.path.abspath(p)
    return p == root or p.startswith(root + os.sep)


class Counter:
    def __init__(self, root, kill_at=None, exclude=()):
        self.root = os.path.realpath(root)
        self.kill_at = kill_at
        self.n = 0
        self.exclude = tuple(os.path.realpath(e) for e in exclude)
        self.last = None
        self.enabled = True
        self.trace = None  # optional: one character per event ('O' = open of a non-temporary name)

    def _hit(self, event, path):
        if any(_under(path, e) for e in self.exclude):
            return
        self.n += 1
        self.last = (event, os.fspath(path) if not isinstance(path, int) else path)
        if self.trace is not None:
            ch = {"open": "o", "os.rename": "r", "os.chmod": "c", "os.remove": "u", "os.mkdir": "m",
                  "os.link": "l", "os.symlink": "s", "verif.partial_copy": "p"}.get(event, "x")
            if ch == "o" and not os.path.basename(os.fspath(path)).endswith(".tmp"):
                ch = "O"
            self.trace.append(ch)
        if self.kill_at is not None and self.n == self.kill_at:
            os._exit(137)

    def hook(self, event, args):
        if not self.enabled:
            return
        if event == "open":
            path, mode, flags = args
            if isinstance(path, int):
                return
            if (flags or 0) & _WRITE_FLAGS and _under(path, self.root):
                self._hit(event, path)
            return
        idx = _PATH_EVENTS.get(event)
        if idx is None:
            return
        for i in idx:
            if i < len(args) and not isinstance(args[i], int) and _under(args[i], self.root):
                self._hit(event, args[idx[-1]] if len(idx) > 1 else args[i])
                return


def _install_partial_copy():
    def copyfile(src, dst, *, follow_symlinks=True):
        sys.audit("shutil.copyfile", src, dst)
        with open(src, "rb") as fsrc:
            data = fsrc.read()
        with open(dst, "wb") as fdst:
            half = len(data) // 2
            fdst.write(data[:half])
            fdst.flush()
            sys.audit("verif.partial_copy", dst)
            fdst.write(data[half:])
        return dst

    def copyfileobj(fsrc, fdst, length=0):
        data = fsrc.read()
        half = len(data) // 2
        fdst.write(data[:half])
        if hasattr(fdst, "flush"):
            fdst.flush()
        name = getattr(fdst, "name", None)
        if isinstance(name, (str, bytes)):
            sys.audit("verif.partial_copy", name)
        fdst.write(data[half:])

    shutil.copyfile = copyfile
    shutil.copyfileobj = copyfileobj


def run_child(fn, root, kill_at=None, exclude=(), trace=False):
    """Fork; in the child run fn() under the counting hook. Returns (status, n_events, last_event).

    status: 'done' (fn returned), 'killed' (exit 137 at kill_at), 'error:<text>'.
    """
    r, w = os.pipe()
    sys.stdout.flush()
    sys.stderr.flush()
    pid = os.fork()
    if pid == 0:
        code = 0
        try:
            os.close(r)
            c = Counter(root, kill_at, exclude)
            if trace:
                c.trace = []
            _install_partial_copy()
            sys.addaudithook(c.hook)
            try:
                fn()
                c.enabled = False
                msg = f"done {c.n}" + (" " + "".join(c.trace) if c.trace is not None else "")
            except BaseException as exc:  # noqa: BLE001
                c.enabled = False
                import traceback

                msg = "error " + repr(exc) + "\n" + "".join(traceback.format_exception(exc))[-2500:]
                code = 3
            os.write(w, msg.encode("utf-8", "replace"))
            os.close(w)
        finally:
            os._exit(code)
    os.close(w)
    chunks = []
    while True:
        b = os.read(r, 65536)
        if not b:
            break
        chunks.append(b)
    os.close(r)
    _, st = os.waitpid(pid, 0)
    out = b"".join(chunks).decode("utf-8", "replace")
    code = os.waitstatus_to_exitcode(st)
    if code == 137:
        return "killed", kill_at, None
    if out.startswith("done "):
        parts = out.split()
        return "done", int(parts[1]), (parts[2] if len(parts) > 2 else None)
    return "error:" + out, None, None
