"""Rule-based state machines whose executed trace *is* the (JSON) case.

Usage:

    class M(TraceMachine):
        def on_setup(self): ...               # self.dir is a fresh scratch directory
        @rule(i=st.integers(0, 9))
        @traced
        def put(self, i): ...              # call self.violate(sig, msg) on an oracle failure
        def check_state(self): ...          # evaluated after every step (also in replay)
        def on_summary(self): return Result(nontrivial=..., classes=[...])   # at the end of a history
        def on_cleanup(self): ...             # close handles

    def run(ctx):  run_trace_machine(ctx, M, examples, steps)
    def replay(case, ctx): replay_trace_machine(ctx, M, case)

Rule arguments must be plain JSON values (no Bundles); indices are taken modulo the model size.
"""

import functools
import traceback

from hypothesis.stateful import RuleBasedStateMachine, invariant

from .ctx import Failure, HarnessError, Result, Viol, product_frame


def traced(fn):
    @functools.wraps(fn)
    def wrapper(self, **kw):
        if self.skip:
            return None
        self.trace.append({"op": fn.__name__, "args": kw})
        try:
            return fn(self, **kw)
        except (Failure, HarnessError, KeyboardInterrupt):
            raise
        except Exception as exc:  # noqa: BLE001
            fr = product_frame(exc)
            if fr is None:
                raise HarnessError(
                    "harness exception: " + "".join(traceback.format_exception(exc))[-3000:]
                ) from exc
            self.violate(f"exc:{type(exc).__name__}:{fr[0]}:{fr[1]}",
                         f"unexpected {type(exc).__name__}: {exc} (in {fr[0]}:{fr[1]}) "
                         f"during {fn.__name__}")
            return None

    return wrapper


class TraceMachine(RuleBasedStateMachine):
    CTX = None
    INIT = None  # optional JSON-able initial parameters (set per class for replay)

    def __init__(self):
        super().__init__()
        self.ctx = self.CTX
        self.trace = []
        self.failed = False
        self.skip = (self.ctx.over_budget() and not self.ctx.replaying
                     and self.ctx.failure is None)  # after a failure: let the shrinker replay
        self._cm = None
        self.dir = None
        if self.skip:
            self.ctx.skipped += 1
            return
        self.ctx.evaluations += 1
        self._cm = self.ctx.tmpdir()
        self.dir = self._cm.__enter__()
        self.on_setup()

    # ---- to override ---------------------------------------------------------------------
    def on_setup(self):
        pass

    def check_state(self):
        pass

    def on_summary(self):
        return Result()

    def on_cleanup(self):
        pass

    # ---- helpers -------------------------------------------------------------------------
    def case(self):
        return {"steps": list(self.trace)}

    def violate(self, sig, msg):
        unknown = self.ctx.split_known([Viol(sig, msg)])
        if unknown:
            self.failed = True
            self.ctx.failure = {"case": self.case(),
                                "violations": [v.to_json() for v in unknown]}
            raise Failure(f"[{sig}] {msg}")

    @invariant()
    def _inv(self):
        if self.skip or self.failed:
            return
        try:
            self.check_state()
        except (Failure, HarnessError, KeyboardInterrupt):
            raise
        except Exception as exc:  # noqa: BLE001
            fr = product_frame(exc)
            if fr is None:
                raise HarnessError(
                    "harness exception: " + "".join(traceback.format_exception(exc))[-3000:]
                ) from exc
            self.violate(f"exc:{type(exc).__name__}:{fr[0]}:{fr[1]}",
                         f"unexpected {type(exc).__name__}: {exc} (in {fr[0]}:{fr[1]}) in invariant")

    def teardown(self):
        if self.skip:
            return
        try:
            if not self.failed:
                res = self.on_summary()
                self.ctx.note(self.case(), res)
        finally:
            try:
                self.on_cleanup()
            finally:
                if self._cm is not None:
                    self._cm.__exit__(None, None, None)
                    self._cm = None


def run_trace_machine(ctx, cls, examples, steps):
    cls.CTX = ctx
    return ctx.run_machine(cls, examples, steps)


def replay_trace_machine(ctx, cls, case):
    cls.CTX = ctx
    m = cls()
    try:
        m._inv()
        for s in case["steps"]:
            getattr(m, s["op"])(**s["args"])
            m._inv()
    finally:
        m.teardown()
