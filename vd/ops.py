"""Thin helpers around the code under test (store construction, stage+transfer)."""

import os

from dvc_objects.fs.local import LocalFileSystem
from dvc_objects.fs.memory import MemoryFileSystem

from dvc_data.hashfile.build import build
from dvc_data.hashfile.db import HashFileDB
from dvc_data.hashfile.db.local import LocalHashFileDB
from dvc_data.hashfile.hash_info import HashInfo
from dvc_data.hashfile.state import State
from dvc_data.hashfile.transfer import transfer

STORE_KINDS = ["local", "generic"]  # LocalHashFileDB / HashFileDB on the local filesystem


def make_odb(kind, path, fs=None, **config):
    """kind: 'local' = LocalHashFileDB, 'generic' = HashFileDB on a local path,
    'mem' = HashFileDB on a private memory filesystem."""
    if kind == "local":
        os.makedirs(path, exist_ok=True)
        return LocalHashFileDB(fs or LocalFileSystem(), path, **config)
    if kind == "generic":
        os.makedirs(path, exist_ok=True)
        return HashFileDB(fs or LocalFileSystem(), path, **config)
    if kind == "mem":
        mfs = fs or MemoryFileSystem(global_store=False)
        return HashFileDB(mfs, path, **config)
    raise ValueError(kind)


def make_state(root, tmp):
    os.makedirs(tmp, exist_ok=True)
    return State(root_dir=root, tmp_dir=tmp)


def stage_transfer(odb, path, name=None, shallow=False, **kw):
    """build + transfer(staging -> odb). Returns (meta, obj, TransferResult)."""
    fs = LocalFileSystem()
    name = name or odb.hash_name
    staging, meta, obj = build(odb, path, fs, name, **kw)
    res = transfer(staging, odb, {obj.hash_info}, shallow=shallow, hardlink=False)
    return meta, obj, res


def hi(oid, name="md5"):
    return HashInfo(name, oid)
