"""Upload fault / abort injection for local destination stores.

Every route by which dvc-data / dvc-objects places an object into a local store finishes with one
of os.replace / os.rename / os.link / os.symlink onto the final `<root>/<aa>/<rest>` path
(put_file: temp + os.replace; memfs source: temp + shutil.move -> os.rename; upload_fobj: temp +
os.rename; hardlink / symlink placement).  The injector patches those four functions in the `os`
module for the duration of a `with` block and, for destinations that are object paths under one of
the watched store roots:

  * logs the attempt,
  * raises OSError(<drawn errno: EIO, ENOENT, EACCES, ENOSPC>) if the object id is in `fail` - with
    `partial=True` after leaving the first half of the bytes, unprotected, under the final name (what an
    upload through a filesystem without atomic placement leaves behind when it dies half-way),
  * raises Abort (a BaseException: models "the process died here") at the k-th attempt,
  * otherwise performs the call, logs the completion and calls `monitor(root, oid)`.

Other calls go straight through.  All random choices are in the plan, so runs replay exactly.
"""

import errno
import os
import re
import threading

_OBJ = re.compile(r"^[0-9a-f]{2}/[0-9a-f]{6,}(\.dir)?$")


class Abort(BaseException):
    pass


class Injector:
    def __init__(self, roots, fail=(), abort_at=None, monitor=None, fail_once=False, err="EIO", partial=False):
        self.roots = [os.path.realpath(r) for r in roots]
        self.fail = set(fail)
        self.abort_at = abort_at
        self.monitor = monitor
        self.fail_once = fail_once
        self.partial = partial
        self.err = err  # errno name of the injected failure (ENOENT gives a FileNotFoundError, ...)
        self.attempts = []   # (root, oid)
        self.completed = []  # (root, oid)
        self.faulted = []    # (root, oid)
        self.aborted = False
        self._lock = threading.RLock()
        self._orig = {}

    def _match(self, dst):
        try:
            dst = os.fspath(dst)
        except TypeError:
            return None
        if not isinstance(dst, str):
            return None
        ap = os.path.abspath(dst)
        for r in self.roots:
            if ap.startswith(r + os.sep):
                rel = ap[len(r) + 1:]
                if _OBJ.match(rel):
                    return r, rel[:2] + rel[3:]
        return None

    @staticmethod
    def _leave_half(src, dst):
        try:
            with open(src, "rb") as f:
                data = f.read()
            if os.path.lexists(dst):
                os.unlink(dst)
            with open(dst, "wb") as f:
                f.write(data[: len(data) // 2])
        except OSError:
            pass

    def _wrap(self, name):
        orig = getattr(os, name)
        self._orig[name] = orig

        def patched(src, dst, *a, **kw):
            m = self._match(dst)
            if m is None:
                return orig(src, dst, *a, **kw)
            with self._lock:
                root, oid = m
                self.attempts.append((root, oid))
                if self.abort_at is not None and len(self.attempts) == self.abort_at:
                    self.aborted = True
                    raise Abort(f"abort before upload #{self.abort_at} ({oid})")
                if oid in self.fail:
                    self.faulted.append((root, oid))
                    if self.fail_once:
                        self.fail.discard(oid)
                    if self.partial:
                        self._leave_half(src, dst)
                    raise OSError(getattr(errno, self.err), f"injected upload failure for {oid}")
                ret = orig(src, dst, *a, **kw)
                self.completed.append((root, oid))
                if self.monitor is not None:
                    self.monitor(root, oid)
                return ret

        patched.__name__ = name
        setattr(os, name, patched)

    def __enter__(self):
        for name in ("replace", "rename", "link", "symlink"):
            self._wrap(name)
        return self

    def __exit__(self, *exc):
        for name, orig in self._orig.items():
            setattr(os, name, orig)
        self._orig.clear()
        return False
