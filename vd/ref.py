"""Reference oracles, independent of the code under test (hashlib + own serialiser)."""

import hashlib
import json
import os
import re
import stat

TEXT_CHARS = set(range(32, 127)) | {10, 13, 9, 12, 8}


def ref_istext(block):
    """Documented sniffing rule on the first 512 bytes."""
    block = block[:512]
    if not block:
        return True
    if 0 in block:
        return False
    nontext = sum(1 for b in block if b not in TEXT_CHARS)
    return nontext / len(block) <= 0.30


def ref_hash(data, algo="md5"):
    if algo == "md5-dos2unix":
        if ref_istext(data):
            data = data.replace(b"\r\n", b"\n")
        return hashlib.md5(data).hexdigest()  # noqa: S324
    return hashlib.new(algo, data).hexdigest()


def _jstr(s):
    return json.dumps(s)  # string escaping only


def ref_tree_bytes(entries, key="md5"):
    """entries: {relpath 'a/b': oid}. The stored listing format, written by hand."""
    items = []
    for rel in sorted(entries):
        pairs = sorted([(key, entries[rel]), ("relpath", rel)])  # keys appear in sorted order
        items.append("{" + ", ".join(_jstr(k) + ": " + _jstr(v) for k, v in pairs) + "}")
    return ("[" + ", ".join(items) + "]").encode("utf-8")


def ref_tree_oid(entries, algo="md5"):
    key = "md5" if algo == "md5-dos2unix" else algo
    # the listing itself is hashed with the store's algorithm; for md5-dos2unix, a JSON listing
    # holds no CRLF so both variants agree
    return ref_hash(ref_tree_bytes(entries, key), algo) + ".dir"


def flatten(tree, prefix=""):
    """nested {name: bytes|dict} -> {relpath: bytes}"""
    out = {}
    for name, v in tree.items():
        p = f"{prefix}/{name}" if prefix else name
        if isinstance(v, dict):
            out.update(flatten(v, p))
        else:
            out[p] = v
    return out


def tree_manifest(flat, algo="md5"):
    """{relpath: bytes} -> {relpath: oid}"""
    return {p: ref_hash(b, algo) for p, b in flat.items()}


# ------------------------------------------------------------------------------------------
# store audit: walks the store directly, never through ObjectDB listing
# ------------------------------------------------------------------------------------------
TMP_RE = re.compile(r"(^|.*)\.[A-Za-z0-9_-]{16,}\.tmp$")


def walk_store(path):
    """-> ({oid: abs path}, [temp-like leftovers], [other stray files])"""
    objs, temps, stray = {}, [], []
    if not os.path.isdir(path):
        return objs, temps, stray
    for root, _dirs, files in os.walk(path):
        # legacy `<oid>.dir.unpacked` directories of old DVC versions are not objects
        _dirs[:] = [x for x in _dirs if not x.endswith(".unpacked")]
        rel = os.path.relpath(root, path)
        for f in files:
            full = os.path.join(root, f)
            if TMP_RE.match(f):
                temps.append(full)
            elif rel != "." and os.sep not in rel and len(rel) == 2:
                objs[rel + f] = full
            else:
                stray.append(full)
    return objs, temps, stray


def walk_memstore(fs, path):
    """Objects of a HashFileDB on a (private) memory filesystem, read from the raw store."""
    objs = {}
    root = path.rstrip("/")
    for p in list(fs.fs.store):
        if p.startswith(root + "/"):
            rel = p[len(root) + 1:].split("/")
            if len(rel) == 2 and len(rel[0]) == 2:
                objs[rel[0] + rel[1]] = p
    return objs


HEX = re.compile(r"^[0-9a-f]+$")


def parse_listing(data):
    """Parse .dir bytes -> list of dict entries, or None if malformed."""
    try:
        lst = json.loads(data.decode("utf-8"))
    except (ValueError, UnicodeDecodeError):
        return None
    if not isinstance(lst, list) or not all(isinstance(e, dict) and "relpath" in e for e in lst):
        return None
    return lst


def audit_object(oid, data, algo="md5"):
    """Return None if the object is well-formed under `algo`, else a reason string."""
    isdir = oid.endswith(".dir")
    raw = oid[:-4] if isdir else oid
    if not HEX.match(raw):
        return f"object name {oid!r} is not a digest"
    want = ref_hash(data, algo)
    if want != raw:
        return f"object {oid} holds bytes whose {algo} is {want}"
    if isdir:
        lst = parse_listing(data)
        if lst is None:
            return f"directory object {oid} does not parse as a listing"
        key = "md5" if algo == "md5-dos2unix" else algo
        try:
            ents = {e["relpath"]: e[key] for e in lst}
        except KeyError:
            return f"directory object {oid} has an entry without {key!r}"
        if len(ents) != len(lst):
            return f"directory object {oid} repeats a relpath"
        if ref_tree_bytes(ents, key) != data:
            return f"directory object {oid} is not in canonical form"
    return None


def read(path):
    with open(path, "rb") as f:
        return f.read()


def audit_local_store(path, algo="md5", require_protected=None):
    """-> (list of (kind, oid, reason), {oid: bytes})

    require_protected: None = do not look at modes; set of oids (or True = all) that must be 0o444.
    """
    objs, temps, stray = walk_store(path)
    problems = []
    contents = {}
    for oid, p in sorted(objs.items()):
        data = read(p)
        contents[oid] = data
        why = audit_object(oid, data, algo)
        if why:
            problems.append(("mismatch", oid, why))
        if require_protected is True or (require_protected and oid in require_protected):
            mode = stat.S_IMODE(os.lstat(p).st_mode)
            if mode != 0o444:
                problems.append(("mode", oid, f"object {oid} has mode {oct(mode)}, expected 0o444"))
    for s in stray:
        problems.append(("stray", os.path.relpath(s, path), f"unexpected file {s} in store"))
    return problems, contents


def closure_problems(contents, algo="md5"):
    """Every parsable .dir object's listed ids are present."""
    key = "md5" if algo == "md5-dos2unix" else algo
    out = []
    for oid, data in contents.items():
        if not oid.endswith(".dir"):
            continue
        lst = parse_listing(data)
        if lst is None:
            continue
        missing = sorted({e.get(key) for e in lst if e.get(key) not in contents} - {None})
        if missing:
            out.append((oid, missing))
    return out


def store_ids(path):
    return set(walk_store(path)[0])
