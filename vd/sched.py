"""Cooperative scheduler: the harness owns the interleaving of registered writer threads.

Yield points: every open() under the scratch root (reads included) and every filesystem-mutating CPython
audit event (rename, chmod, link,
symlink, mkdir, remove, rmdir, the harness's own mid-copy event) and every os.stat/os.lstat call,
restricted to paths under the case's scratch root.  At a yield point the running registered thread
asks the scheduler who runs next (next element of the generated schedule, then round-robin); if it
is another thread, that one is woken and the caller parks on its semaphore.  Exactly one registered
thread runs at a time; helper threads spawned by the code under test are unregistered and run
freely while their owner holds the token.
"""

import os
import shutil
import sys
import threading

from .crash import _PATH_EVENTS, _under

_ACTIVE = None
_HOOKED = False
_ORIG = {}


class Deadlock(Exception):
    pass


class Sched:
    def __init__(self, root, schedule, nthreads, park_timeout=60.0, rendezvous=None):
        self.root = os.path.realpath(root)
        self.schedule = list(schedule)
        self.pos = 0
        self.n = nthreads
        self.idx_of = {}
        self.sems = [threading.Semaphore(0) for _ in range(nthreads)]
        self.alive = set(range(nthreads))
        self.lock = threading.Lock()
        self.current = None
        self.switches = 0
        self.yields = 0
        self.park_timeout = park_timeout
        self.trace = []
        self.deadlocked = False
        self.rr = 0
        # rendezvous (guided search): writers 0 and 1 each have a label; whenever one reaches its label it
        # is held until the other reaches its own (or `patience` yields pass); then `first` runs `steps`
        # yields alone, then the other, then normal scheduling resumes and the rendezvous re-arms
        self.rv = rendezvous
        self.rv_wait = {}      # idx -> yield count when it started waiting
        self.forced = []       # forced picks after a completed rendezvous
        self.rendezvous_hits = 0
        self.stall_s = 2.0
        self.blocked = set()   # writers taken to be blocked inside the code under test (token taken away)
        self.steals = 0

    # -- choose who runs next (lock held) ---------------------------------------------------
    def _pick(self, me=None):
        alive = sorted(self.alive)
        if not alive:
            return None
        if self.blocked and set(alive) - self.blocked:
            alive = [t for t in alive if t not in self.blocked]
        while self.forced:
            t = self.forced.pop(0)
            if t in self.alive:
                return t
        if self.rv_wait:
            pat = self.rv.get("patience", 400)
            for t, since in list(self.rv_wait.items()):
                if t not in self.alive or self.yields - since > pat or not (set(alive) - set(self.rv_wait)):
                    self.rv_wait.pop(t, None)  # partner gone / never arrives / everybody waits: give up
            runnable = [t for t in alive if t not in self.rv_wait]
            if runnable:
                alive = runnable
        if self.schedule:
            # the generated schedule is consumed cyclically, so run lengths keep varying over a long run
            # (strict alternation after a short prefix explored one interleaving shape only)
            k = self.schedule[self.pos % len(self.schedule)] + self.pos // len(self.schedule)
            self.pos += 1
            return alive[k % len(alive)]
        self.rr += 1
        return alive[self.rr % len(alive)]

    # -- called by writer threads ----------------------------------------------------------
    def enter(self, idx):
        self.idx_of[threading.get_ident()] = idx
        self._park(idx)

    def _park(self, idx):
        """Wait for the token. If nobody passed a yield point for `stall_s` while this thread waited, the token
        holder is taken to be blocked inside the code under test (e.g. on a lock of the library held by a parked
        writer - with free-running threads the holder of that lock would simply go on): the waiting thread
        takes the token over and the blocked one rejoins the scheduling at its next yield point. A wrong guess
        (a holder that is merely slow) lets two writers run concurrently for a while - a legitimate
        interleaving, only not a replayable one; it is counted in `steals`."""
        waited = 0.0
        seen = self.yields
        while not self.sems[idx].acquire(timeout=self.stall_s):
            waited += self.stall_s
            with self.lock:
                cur = self.current
                if self.yields == seen and cur is not None and cur != idx and idx not in self.blocked:
                    self.blocked.add(cur)
                    self.steals += 1
                    self.yields += 1  # a take-over is progress: another waiter must not take over from this one
                    self.current = idx
                    return
                seen = self.yields
            if waited >= self.park_timeout:
                self.deadlocked = True
                raise Deadlock(f"writer {idx} parked for {self.park_timeout}s")

    def yield_point(self, what=None):
        idx = self.idx_of.get(threading.get_ident())
        if idx is None or self.deadlocked:
            return
        with self.lock:
            was_blocked = idx in self.blocked
            if was_blocked:
                # the token was taken away while this writer was blocked; it is runnable again: wait for a turn
                self.blocked.discard(idx)
                self.yields += 1
            elif self.current != idx:
                return  # not the token holder (should not happen)
        if was_blocked:
            self._park(idx)
        with self.lock:
            if self.current != idx:
                return
            self.yields += 1
            rv = self.rv
            if rv and idx in (0, 1) and what == rv["labels"][idx] and not self.forced:
                partner = 1 - idx
                if partner in self.rv_wait:
                    # both writers stand at their labels
                    self.rv_wait.pop(partner)
                    self.rendezvous_hits += 1
                    order = [idx, partner] if rv.get("first", 0) == idx else [partner, idx]
                    k = max(1, int(rv.get("steps", 1)))
                    self.forced = [order[0]] * k + [order[1]] * k + [order[0]] * k
                elif partner in self.alive:
                    self.rv_wait[idx] = self.yields
            nxt = self._pick(idx)
            if nxt is None or nxt == idx:
                return
            self.switches += 1
            self.current = nxt
            self.sems[nxt].release()
        self._park(idx)

    def leave(self, idx):
        with self.lock:
            self.alive.discard(idx)
            self.blocked.discard(idx)
            self.idx_of.pop(threading.get_ident(), None)
            if self.current == idx:
                nxt = self._pick()
                self.current = nxt
                if nxt is not None:
                    self.sems[nxt].release()

    def start(self):
        with self.lock:
            nxt = self._pick()
            self.current = nxt
            self.sems[nxt].release()


def _hook(event, args):
    s = _ACTIVE
    if s is None:
        return
    if event == "open":
        path, _mode, flags = args
        if isinstance(path, int):
            return
        # reads too: opening an object another writer may be replacing / removing is an interaction point
        if _under(path, s.root):
            s.yield_point(event)
        return
    idx = _PATH_EVENTS.get(event)
    if idx is None:
        return
    for i in idx:
        if i < len(args) and not isinstance(args[i], int) and _under(args[i], s.root):
            s.yield_point(event)
            return


def _stat_wrapper(name):
    orig = getattr(os, name)
    _ORIG[name] = orig

    def wrapped(path, *a, **kw):
        s = _ACTIVE
        if s is not None and not isinstance(path, int) and _under(path, s.root):
            s.yield_point(name)
        return orig(path, *a, **kw)

    wrapped.__name__ = name
    return wrapped


def _copyfile(src, dst, *, follow_symlinks=True):
    sys.audit("shutil.copyfile", src, dst)
    with open(src, "rb") as fsrc:
        data = fsrc.read()
    with open(dst, "wb") as fdst:
        half = len(data) // 2
        fdst.write(data[:half])
        fdst.flush()
        sys.audit("verif.partial_copy", dst)
        fdst.write(data[half:])
    return dst


def install():
    """Install the process-wide hook and wrappers once (inactive until activate())."""
    global _HOOKED  # noqa: PLW0603
    if _HOOKED:
        return
    sys.addaudithook(_hook)
    os.stat = _stat_wrapper("stat")
    os.lstat = _stat_wrapper("lstat")
    _ORIG["copyfile"] = shutil.copyfile
    shutil.copyfile = _copyfile
    _HOOKED = True


def activate(s):
    global _ACTIVE  # noqa: PLW0603
    _ACTIVE = s


def _profiler(s, parts):
    """Per-thread profile function: every Python-level call into the selected dvc_data modules is a yield
    point too (function-call granularity: races between two statements of the code under test that involve
    no filesystem operation become reachable)."""

    def prof(frame, event, _arg):
        if event == "call":
            fn = frame.f_code.co_filename
            if "/dvc_data/" in fn and not fn.endswith("callbacks.py") and (not parts or fn.endswith(parts)):
                s.yield_point("call:" + frame.f_code.co_name)

    return prof


def run_scheduled(root, schedule, fns, join_timeout=120.0, trace=None, rendezvous=None):
    """Run fns[i]() in writer thread i under the generated schedule.

    trace: None = yield at filesystem operations only; a tuple of file-name suffixes (possibly empty = all
    of dvc_data) = additionally yield at every Python call into those modules.

    Returns (sched, results) where results[i] = ('ok', value) | ('exc', exception).
    """
    install()
    n = len(fns)
    s = Sched(root, schedule, n, rendezvous=rendezvous)
    results = [None] * n

    def body(i):
        try:
            s.enter(i)
            try:
                if trace is not None:
                    sys.setprofile(_profiler(s, tuple(trace)))
                try:
                    results[i] = ("ok", fns[i]())
                finally:
                    if trace is not None:
                        sys.setprofile(None)
            except Deadlock:
                raise
            except BaseException as exc:  # noqa: BLE001
                results[i] = ("exc", exc)
        except Deadlock as exc:
            results[i] = ("deadlock", exc)
        finally:
            s.leave(i)

    threads = [threading.Thread(target=body, args=(i,), daemon=True) for i in range(n)]
    activate(s)
    try:
        for t in threads:
            t.start()
        s.start()
        for t in threads:
            t.join(join_timeout)
        stuck = [i for i, t in enumerate(threads) if t.is_alive()]
    finally:
        activate(None)
    if stuck or s.deadlocked:
        s.deadlocked = True
        # wake everything so threads can finish unscheduled
        for sem in s.sems:
            for _ in range(4):
                sem.release()
        for t in threads:
            t.join(30)
    return s, results
