"""known_findings.txt: read-only at run time.

Lines:
  known: property=<id> signature=<sig> :: <what fails>
  fixed: property=<id> <commit> <what failed>

A violation whose signature equals a `known:` signature of the same property is counted and the
case continues as a pass; `fixed:` lines suppress nothing.
"""

import os
import re

HERE = os.path.dirname(os.path.dirname(os.path.abspath(__file__)))
PATH = os.path.join(HERE, "known_findings.txt")

_LINE = re.compile(r"^known:\s+property=(\S+)\s+signature=(\S+)\s+::\s+(.*)$")


def load(prop_id):
    """Return {signature: description} for the property."""
    out = {}
    try:
        with open(PATH, encoding="utf-8") as f:
            for line in f:
                m = _LINE.match(line.strip())
                if m and m.group(1) == prop_id:
                    out[m.group(2)] = m.group(3)
    except FileNotFoundError:
        pass
    return out
