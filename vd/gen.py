"""Shared generators. Cases are JSON-serialisable; contents are encoded as strings."""

import os

from hypothesis import strategies as st

# ---- contents ------------------------------------------------------------------------------
POOL = {
    "empty": b"",
    "one": b"x",
    "hello": b"hello\n",
    "crlf": b"line one\r\nline two\r\n",
    "lf": b"line one\nline two\n",
    "nul": b"bin\x00ary\r\n\x00",
    "b511": bytes(range(256)) * 1 + b"a" * 255,
    "b512": b"q" * 511 + b"\r",
    "b513": b"q" * 511 + b"\r\n",
    "hi8": bytes([200, 201, 202]) * 20 + b"text text text text text text\r\n",
    "k70": (b"0123456789abcdef" * 4480)[:70 * 1024],
    "A": b"AAAA",
    "B": b"BBBB",
    "C": b"CCCC\r\nC",
}


def content_bytes(c):
    """Decode a content string: 'p:<pool>', 'h:<hex>', 'r:<n>:<hex>' (repeat), 'z:<size>:<hex>' (exact size)."""
    kind, _, rest = c.partition(":")
    if kind == "p":
        return POOL[rest]
    if kind == "h":
        return bytes.fromhex(rest)
    if kind == "r":
        n, _, hx = rest.partition(":")
        return bytes.fromhex(hx) * int(n)
    if kind == "z":
        # exact size: 'z:<size>:<hex pattern>' (pattern repeated and cut)
        size, _, hx = rest.partition(":")
        pat = bytes.fromhex(hx) or b"\0"
        return (pat * (int(size) // len(pat) + 1))[: int(size)]
    raise ValueError(c)


def contents(pool_weight=3, max_size=96):
    pool = st.sampled_from(sorted(POOL)).map(lambda k: "p:" + k)
    rnd = st.binary(max_size=max_size).map(lambda b: "h:" + b.hex())
    return st.one_of(*([pool] * pool_weight), rnd)


def small_contents():
    """A tiny pool: forces duplicate contents / shared objects."""
    return st.sampled_from(["p:A", "p:B", "p:C", "p:empty", "p:hello", "p:crlf", "p:one", "p:nul"])


def large_content():
    # > 1 MiB by repetition (cheap to generate)
    return st.tuples(st.integers(1100, 1400), st.binary(min_size=1024, max_size=1024)).map(
        lambda t: f"r:{t[0]}:{t[1].hex()}"
    )


# ---- names ---------------------------------------------------------------------------------
NAMES = [
    "a", "b", "c", "d", "sub", "x.y", "dir.dir", ".hidden", "sp ace", "a'b", 'a"b', "UP",
    "Ünï", "文件", "é", "{b}", "100%", "a\\b", "foo", "bar", "data",
    "a.dir", "0", "-", "~",
]
_ALPH = "abXY01._- %{}'\"\\é文"


def names():
    rnd = st.text(alphabet=_ALPH, min_size=1, max_size=6).filter(
        lambda s: s not in (".", "..", ".dvcignore")
    )
    return st.one_of(st.sampled_from(NAMES), st.sampled_from(NAMES[:8]), rnd)


# ---- trees ---------------------------------------------------------------------------------
def trees(max_files=12, max_depth=3, content=None, min_files=1):
    """Nested dict name -> content-string | subtree; every directory non-empty."""
    content = contents() if content is None else content

    @st.composite
    def _tree(draw, depth, budget):
        n = draw(st.integers(min_value=1, max_value=max(1, min(budget, 5))))
        out = {}
        used = 0
        for _ in range(n):
            if used >= budget:
                break
            name = draw(names())
            if name in out:
                continue
            if depth < max_depth and budget - used >= 1 and draw(st.integers(0, 3)) == 0:
                sub = draw(_tree(depth + 1, max(1, (budget - used) // 2)))
                out[name] = sub
                used += count_files(sub)
            else:
                out[name] = draw(content)
                used += 1
        if not out:
            out[draw(names())] = draw(content)
        return out

    return _tree(0, max_files).filter(lambda t: count_files(t) >= min_files)


def count_files(tree):
    return sum(count_files(v) if isinstance(v, dict) else 1 for v in tree.values())


def depth_of(tree):
    return 1 + max((depth_of(v) for v in tree.values() if isinstance(v, dict)), default=0)


def flatten_case(tree, prefix=""):
    """nested {name: content-string|dict} -> {relpath: bytes}"""
    out = {}
    for name, v in tree.items():
        p = f"{prefix}/{name}" if prefix else name
        if isinstance(v, dict):
            out.update(flatten_case(v, p))
        else:
            out[p] = content_bytes(v)
    return out


def materialise(tree, root, order=None):
    """Create the tree under root (root itself is created). Returns {relpath: bytes}."""
    flat = flatten_case(tree)
    os.makedirs(root, exist_ok=True)
    keys = list(flat)
    if order is not None:
        keys = [keys[i % len(keys)] for i in order] + keys
        seen, ks = set(), []
        for k in keys:
            if k not in seen:
                seen.add(k)
                ks.append(k)
        keys = ks
    for rel in keys:
        p = os.path.join(root, *rel.split("/"))
        os.makedirs(os.path.dirname(p), exist_ok=True)
        with open(p, "wb") as f:
            f.write(flat[rel])
    return flat


def write_file(path, data):
    os.makedirs(os.path.dirname(path), exist_ok=True)
    with open(path, "wb") as f:
        f.write(data)


def tree_traits(tree):
    """Class labels of a tree (for the evidence histogram)."""
    flat = flatten_case(tree)
    out = []
    if len(flat) >= 2:
        out.append("files>=2")
    if any("/" in k for k in flat):
        out.append("nested")
    if any(k.count("/") >= 2 for k in flat):
        out.append("depth>=3")
    vals = list(flat.values())
    if len(set(vals)) < len(vals):
        out.append("dup-content")
    if b"" in vals:
        out.append("empty-file")
    if any(b"\r\n" in v for v in vals):
        out.append("crlf")
    if any(not k.isascii() for k in flat):
        out.append("non-ascii-name")
    if any(c in k for k in flat for c in " '\"%{}\\"):
        out.append("odd-name")
    return out
