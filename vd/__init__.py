"""Property-based verification harness for iterative/dvc-data (see /verif/DESIGN.md)."""
