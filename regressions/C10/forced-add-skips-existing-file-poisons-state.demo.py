"""Forced checkout records, in the state db, the target hash for a file it did NOT write.

History (one State, one cache, HashFileDB or LocalHashFileDB, link type hardlink or symlink):
 1. target {x: B, y: C} is cached and checked out with symlinks;
 2. the user replaces x by a new regular file with other content;
 3. the cache object of y disappears (y is now a broken symlink) and `checkout(force=True)` runs:
    the dry-run build of the workspace raises FileNotFoundError, _diff() treats everything as "added",
    link() onto the existing x raises FileExistsError which generic.transfer swallows, _checkout_file()
    returns normally and _checkout() saves (x -> hash of B) in the state although x still holds the user's bytes;
 4. the object of y is restored; `checkout(force=True)` now trusts the poisoned state entry, sees x as
    unchanged and leaves the wrong bytes in place - and so does every later checkout.
"""
import os, shutil, sys, tempfile
from dvc_objects.fs.local import LocalFileSystem
from dvc_data.hashfile import load
from dvc_data.hashfile.build import build
from dvc_data.hashfile.checkout import CheckoutError, checkout
from dvc_data.hashfile.db import HashFileDB
from dvc_data.hashfile.db.local import LocalHashFileDB
from dvc_data.hashfile.state import State
from dvc_data.hashfile.transfer import transfer

def scenario(cls, ltype, base):
    fs = LocalFileSystem()
    state = State(root_dir=base, tmp_dir=os.path.join(base, "tmp"))
    try:
        cdir = os.path.join(base, "cache")
        os.makedirs(cdir)
        odb_sym = cls(fs, cdir, type=["symlink"], state=state)
        src = os.path.join(base, "src"); os.makedirs(src)
        open(os.path.join(src, "x"), "wb").write(b"BBBB")
        open(os.path.join(src, "y"), "wb").write(b"CCCC")
        staging, _, obj = build(odb_sym, src, fs, "md5")
        transfer(staging, odb_sym, {obj.hash_info}, shallow=False)
        ws = os.path.join(base, "ws")
        checkout(ws, fs, obj, odb_sym, state=state)                       # 1
        x = os.path.join(ws, "x")
        os.unlink(x); open(x, "wb").write(b"user")                        # 2
        st = os.stat(x); os.utime(x, ns=(st.st_mtime_ns + 5_000_000, st.st_mtime_ns + 5_000_000))
        odb = cls(fs, cdir, type=[ltype], state=state)
        tree = load(odb, obj.hash_info)
        y_oid = [oid.value for key, _, oid in tree if key == ("y",)][0]
        y_obj = odb.oid_to_path(y_oid)
        data = open(y_obj, "rb").read(); os.unlink(y_obj)                  # 3
        try:
            checkout(ws, fs, tree, odb, state=state, force=True)
            first = "returned"
        except (CheckoutError, FileNotFoundError) as exc:
            first = type(exc).__name__
        tmp = os.path.join(base, "restore"); open(tmp, "wb").write(data)
        odb.add(tmp, fs, y_oid)                                            # 4
        ret = checkout(ws, fs, tree, odb, state=state, force=True)
        got = open(x, "rb").read()
        return first, ret, got
    finally:
        state.close()

bad = 0
for cls in (HashFileDB, LocalHashFileDB):
    for ltype in ("hardlink", "symlink", "copy"):
        base = tempfile.mkdtemp(prefix="c10-demo-")
        try:
            first, ret, got = scenario(cls, ltype, base)
        finally:
            shutil.rmtree(base, ignore_errors=True)
        ok = got == b"BBBB"
        bad += not ok
        print(f"{cls.__name__:16s} {ltype:8s} attempt={first:18s} forced->{ret!r:5} x={got!r} {'ok' if ok else 'WRONG BYTES'}")
sys.exit(1 if bad else 0)
