#!/bin/sh
# Idempotent, offline setup: make sure hypothesis is importable next to the repository's packages.
set -e
HERE="$(cd "$(dirname "$0")" && pwd)"
PY="${VERIF_PYTHON:-/venv/bin/python}"
WHEELS=/opt/veriftools/wheels
export PIP_NO_INDEX=1
if ! "$PY" -c "import hypothesis" 2>/dev/null; then
  "$PY" -m pip install --no-index --find-links "$WHEELS" hypothesis
fi
mkdir -p "$HERE/.deps"
if ! PYTHONPATH="$HERE/.deps" "$PY" -c "import atheris" 2>/dev/null; then
  "$PY" -m pip install --no-index --find-links "$WHEELS" --target "$HERE/.deps" atheris >/dev/null 2>&1 || echo "setup: atheris booster unavailable (optional)"
fi
PYTHONPATH="${VERIF_REPO:-/repo}/src:$HERE" "$PY" -c "import hypothesis, dvc_data, vd.main; print('setup ok: hypothesis', hypothesis.__version__)"
