#!/usr/bin/env python3
"""Regenerate /verif/MANIFEST.json from the table below (kept valid against the schema)."""

import json
import os
import sys

HERE = os.path.dirname(os.path.dirname(os.path.abspath(__file__)))

ENTRIES = json.load(open(os.path.join(HERE, "tools", "manifest_entries.json"), encoding="utf-8"))
CHECKS = {k: (v["level"], v["technique"], v["text"], v["note"], v["ref"]) for k, v in ENTRIES.items()}

NOT_YET = "check not built yet in this round; see DESIGN.md section 4 for the planned generated check"


def main():
    built = sorted(CHECKS)
    checks = []
    for pid in built:
        level, tech, text, note, ref = CHECKS[pid]
        checks.append({
            "property_id": pid,
            "quick_cmd": f"./check {pid} --tier quick",
            "thorough_cmd": f"./check {pid} --tier thorough",
            "evidence_file": f"/verif/evidence/{pid}.json",
            "replay_cmd_template": f"./check {pid} --replay {{path}}",
            "engine": "hypothesis",
            "level_claimed": {"category": level, "text": text, "design_ref": ref},
            "level_note": note,
            "technique": tech,
        })
    all_ids = [f"C{i:02d}" for i in range(1, 21)]
    na = [{"property_id": p, "reason": NOT_YET} for p in all_ids if p not in CHECKS]
    man = {
        "version": 1,
        "setup_cmd": "./setup.sh",
        "hooks": {
            "guard": "DVC_DATA_VERIF",
            "enable": "no source hooks are needed: checks import /repo/src directly (PYTHONPATH pin) and "
                      "inject faults/crashes/schedules from harness-owned filesystem subclasses and audit hooks; "
                      "./check exports DVC_DATA_VERIF=1 for uniformity",
            "baseline_off_cmd": "cd /repo && /venv/bin/python -m pytest -ra -q -p no:cacheprovider --timeout=900 "
                                "--continue-on-collection-errors",
            "source_commits": [],
            "add_only": True,
        },
        "engines": [
            {"name": "hypothesis", "path": "/verif/vd", "serves_properties": built,
             "kind_free_text": "property-based testing: generated cases / rule-based state machines, explicit "
                               "reference oracles, shrinking to a JSON replay file"},
            {"name": "crash-enumeration", "path": "/verif/vd/crash.py", "serves_properties": ["C15"],
             "kind_free_text": "forked child killed with os._exit before the n-th filesystem-mutating CPython audit "
                               "event under the scratch root (or the harness's own mid-copy event: copies are done in "
                               "two halves); every n enumerated per canonical or Hypothesis-generated scenario (sampled "
                               "only for the >1000-file scenario), and again over the re-run where a kill left a "
                               "mismatching leftover"},
            {"name": "schedule-control", "path": "/verif/vd/sched.py", "serves_properties": ["C16"],
             "kind_free_text": "cooperative scheduler: exactly one registered writer thread runs; switches at open, "
                               "mutating-audit-event, mid-copy and os.stat/lstat yield points under the scratch root "
                               "(optionally also at every Python call into selected dvc_data modules, with a rendezvous "
                               "of two writers at drawn call labels) follow a Hypothesis-generated schedule; a waiting "
                               "writer takes the token over when nobody passed a yield point for 2 s (the running writer "
                               "is blocked inside the library, e.g. on a lock held by a parked writer; it rejoins at its "
                               "next yield point), counted as token_takeovers in the evidence. C16's "
                               "process arm is perturbed, not controlled: forked writers only sleep drawn micro-delays "
                               "at the same yield points, optionally one of them stalls inside its first "
                               "state-database transactions"},
            {"name": "fault-injection", "path": "/verif/vd/faults.py", "serves_properties": ["C04", "C11", "C12", "C18"],
             "kind_free_text": "os.replace/rename/link/symlink patched for the duration of a transfer: OSError(EIO) "
                               "(C04/C11: a drawn errno among EIO, ENOENT, EACCES, ENOSPC; C18: kind chosen per id, also "
                               "TimeoutError) for ids in the generated fault plan - in partial mode (C04 on local-class "
                               "destinations, C11, C12) after leaving the first half of the bytes, unprotected, under "
                               "the final name, as a destination without atomic placement does -, BaseException abort "
                               "before the k-th placement, monitor after each completed placement"},
            {"name": "atheris", "path": "/verif/vd/props/c14_booster.py", "serves_properties": ["C14"],
             "kind_free_text": "optional coverage-guided booster (libFuzzer via atheris) in the thorough tier; Hypothesis "
                               "remains the deciding engine"},
        ],
        "checks": checks,
        "notes": "One runner (./check <ID> --tier quick|thorough [--replay FILE]); VERIF_SEED honoured; "
                 "exit 0 held / 1 VIOLATION / 2 harness error. Known findings: /verif/known_findings.txt.",
        "not_applicable": na,
    }
    with open(os.path.join(HERE, "MANIFEST.json"), "w", encoding="utf-8") as f:
        json.dump(man, f, indent=1)
        f.write("\n")
    try:
        import jsonschema

        jsonschema.validate(man, json.load(open("/root/.vp/MANIFEST.schema.json")))
        print("MANIFEST.json valid;", len(checks), "checks,", len(na), "not_applicable")
    except ImportError:
        print("MANIFEST.json written (jsonschema unavailable, not validated)")


if __name__ == "__main__":
    sys.exit(main())
