#!/usr/bin/env python3
"""Regenerate /verif/MANIFEST.json from the table below (kept valid against the schema)."""

import json
import os
import sys

HERE = os.path.dirname(os.path.dirname(os.path.abspath(__file__)))

# id -> (level, technique, level text, level note, design ref)
CHECKS = {
    "C06": (
        "exploration",
        "property-based testing (Hypothesis) against a set-difference reference model",
        "Generated store contents x used sets x modes; after each gc call the store is listed with "
        "os.walk and compared with the independently computed set difference (removed exactly the "
        "unused, return count, dry run, read-only refusal, survivors byte-identical). Random search "
        "with shrinking; no proof of absence.",
        "Trusts hashlib, os.walk and the harness's own .dir parser; in expanding mode assumes used "
        "directories are loadable from cache_odb.",
        "DESIGN.md 4/C06",
    ),
    "C04": (
        "fault_enumeration",
        "property-based testing (Hypothesis) with generated upload-fault / abort plans and a closure invariant monitor",
        "Generated sets of trees sharing files x closed requests x fault plans (failing id subsets, abort before "
        "the k-th upload) injected at the final placement call of the destination store; the closure invariant "
        "(present .dir => every listed id present, parsed from raw bytes) is evaluated after every completed "
        "upload, after the call, and after a fault-free retry; withheld+failed reporting and retry completion "
        "are checked too. Random search over plans with shrinking; not exhaustive.",
        "Faults are injected where uploads into a local store complete (os.replace/rename/link/symlink onto the "
        "object path); an in-process BaseException models a kill; trusts hashlib and the harness listing parser.",
        "DESIGN.md 4/C04, 3.5",
    ),
    "C11": (
        "fault_enumeration",
        "property-based testing (Hypothesis) with generated fault plans against a set-arithmetic reference",
        "Generated source/destination contents (objects missing, present on both sides, directories with a "
        "doubly-missing child, corrupt sources under verify) x requests (closed, expanded, shallow) x fault "
        "plans; TransferResult is compared with new = requested & in-source - in-destination computed from "
        "direct listings, transferred objects are re-hashed, pre-existing objects must not be re-sent, the "
        "source must stay byte-identical.",
        "Same injection point as C04; trusts hashlib and os.walk listings.",
        "DESIGN.md 4/C11",
    ),
    "C15": (
        "fault_enumeration",
        "crash-point enumeration: forked child killed before each mutating audit event, over Hypothesis-generated scenarios",
        "For each generated scenario (stage+transfer with state, index save of nested dirs, store->store transfer "
        "with/without index, upload staging) the uninterrupted run fixes N mutating events and the reference store; "
        "then every crash index 1..N (incl. one mid-copy point per copy) is executed in a forked child killed with "
        "os._exit, the store and state database are audited (no protected or state-vouched mismatching object, "
        "closed directories, next check discards leftovers), the operation is re-run and must converge to the "
        "reference contents with every object intact and protected. Exhaustive over crash points per scenario, "
        "sampled over scenarios.",
        "Crash points are Python-level mutating calls seen by CPython audit hooks plus a mid-copy point; kills inside "
        "one write(2) or inside sqlite are not modelled; tmp_fname()-shaped leftovers are allowed and only counted.",
        "DESIGN.md 4/C15, 3.6",
    ),
    "C16": (
        "exploration",
        "schedule-controlled concurrency testing: Hypothesis-generated thread schedules at filesystem-operation yield points + perturbed multi-process runs, post-run audit",
        "2-4 writers stage+transfer overlapping trees into one LocalHashFileDB with one state database; the harness "
        "owns the thread schedule (one writer runs at a time, switches at every mutating audit event, mid-copy point "
        "and stat call under the scratch root, order drawn by Hypothesis, so failures shrink and replay); a process "
        "arm perturbs timing with drawn micro-delays. The schedule-independent oracle audits every object against "
        "hashlib, every writer's directory object against the reference listing, protection bits and state rows.",
        "Interleavings are explored only at harness yield points; bytecode-level and in-sqlite races are not forced; "
        "the process arm does not replay exactly.",
        "DESIGN.md 4/C16, 3.7",
    ),
}

NOT_YET = "check not built yet in this round; see DESIGN.md section 4 for the planned generated check"


def main():
    built = sorted(CHECKS)
    checks = []
    for pid in built:
        level, tech, text, note, ref = CHECKS[pid]
        checks.append({
            "property_id": pid,
            "quick_cmd": f"./check {pid} --tier quick",
            "thorough_cmd": f"./check {pid} --tier thorough",
            "evidence_file": f"/verif/evidence/{pid}.json",
            "replay_cmd_template": f"./check {pid} --replay {{path}}",
            "engine": "hypothesis",
            "level_claimed": {"category": level, "text": text, "design_ref": ref},
            "level_note": note,
            "technique": tech,
        })
    all_ids = [f"C{i:02d}" for i in range(1, 21)]
    na = [{"property_id": p, "reason": NOT_YET} for p in all_ids if p not in CHECKS]
    man = {
        "version": 1,
        "setup_cmd": "./setup.sh",
        "hooks": {
            "guard": "DVC_DATA_VERIF",
            "enable": "no source hooks are needed: checks import /repo/src directly (PYTHONPATH pin) and "
                      "inject faults/crashes/schedules from harness-owned filesystem subclasses and audit hooks; "
                      "./check exports DVC_DATA_VERIF=1 for uniformity",
            "baseline_off_cmd": "cd /repo && /venv/bin/python -m pytest -ra -q -p no:cacheprovider --timeout=900 "
                                "--continue-on-collection-errors",
            "source_commits": [],
            "add_only": True,
        },
        "engines": [
            {"name": "hypothesis", "path": "/verif/vd", "serves_properties": built,
             "kind_free_text": "property-based testing: generated cases / rule-based state machines, explicit "
                               "reference oracles, shrinking to a JSON replay file"},
        ],
        "checks": checks,
        "notes": "One runner (./check <ID> --tier quick|thorough [--replay FILE]); VERIF_SEED honoured; "
                 "exit 0 held / 1 VIOLATION / 2 harness error. Known findings: /verif/known_findings.txt.",
        "not_applicable": na,
    }
    with open(os.path.join(HERE, "MANIFEST.json"), "w", encoding="utf-8") as f:
        json.dump(man, f, indent=1)
        f.write("\n")
    try:
        import jsonschema

        jsonschema.validate(man, json.load(open("/root/.vp/MANIFEST.schema.json")))
        print("MANIFEST.json valid;", len(checks), "checks,", len(na), "not_applicable")
    except ImportError:
        print("MANIFEST.json written (jsonschema unavailable, not validated)")


if __name__ == "__main__":
    sys.exit(main())
