#!/usr/bin/env python3
"""Validate every /verif/evidence/<id>.json against /root/.vp/EVIDENCE.schema.json (run with python3-vt)."""
import glob
import json
import os
import sys

import jsonschema

HERE = os.path.dirname(os.path.dirname(os.path.abspath(__file__)))
schema = json.load(open("/root/.vp/EVIDENCE.schema.json"))
bad = 0
for f in sorted(glob.glob(os.path.join(HERE, "evidence", "C*.json"))):
    try:
        jsonschema.validate(json.load(open(f)), schema)
    except Exception as exc:  # noqa: BLE001
        bad += 1
        print("INVALID", os.path.basename(f), str(exc)[:300])
print("evidence files:", len(glob.glob(os.path.join(HERE, "evidence", "C*.json"))), "invalid:", bad)
sys.exit(1 if bad else 0)
