#!/bin/sh
# tools/sweep.sh "<seeds>" [tier]: run every check at each seed, print one line per run
TIER="${2:-quick}"
for s in $1; do
  for i in 01 02 03 04 05 06 07 08 09 10 11 12 13 14 15 16 17 18 19 20; do
    out="$(VERIF_SEED=$s ./check C$i --tier $TIER 2>&1)"; rc=$?
    echo "seed=$s C$i exit=$rc $(echo "$out" | grep -m1 '^C')"
    [ $rc -ne 0 ] && echo "$out" | grep -E '^\s+\[|VIOLATION|HARNESS' | head -5
    echo "$out" | grep '^KNOWN-FINDING' | head -2
  done
done
