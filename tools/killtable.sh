#!/bin/sh
# tools/killtable.sh <ID> [check args]: run every patch under tools/mutants/<ID>/ through tools/mutant.sh
HERE="$(cd "$(dirname "$0")/.." && pwd)"
ID="$1"; shift
for m in "$HERE"/tools/mutants/"$ID"/*.diff; do
  out="$("$HERE/tools/mutant.sh" "$m" "$ID" --tier quick "$@" 2>&1)"
  rc="$(echo "$out" | sed -n 's/^mutant exit=//p')"
  sig="$(echo "$out" | grep -m1 -E '^\s+\[' | sed 's/^\s*//' | cut -c1-110)"
  printf '%s %-45s exit=%s %s\n' "$ID" "$(basename "$m" .diff)" "$rc" "$sig"
done
