#!/bin/sh
# Confirm a seeded change produced by an independent sub-agent and run our checks against it.
#   tools/seed_eval.sh <seed worktree> <ID> <name> [check ids...]
# Copies patch.diff/demo.py/meta.json to /verif/seeded/<ID>-<name>/, then in a scratch worktree of /repo HEAD:
#   demo without patch (expect PASS), apply patch, test-suite (expect pass), demo with patch (expect FAIL),
#   then each check's quick tier with VERIF_REPO pointing at the patched tree.
set -u
HERE="$(cd "$(dirname "$0")/.." && pwd)"
SRC="$1"; ID="$2"; NAME="$3"; shift 3
CHECKS="${*:-$ID}"
OUT="$HERE/seeded/$ID-$NAME"
mkdir -p "$OUT"
cp "$SRC/seeded/patch.diff" "$SRC/seeded/demo.py" "$SRC/seeded/meta.json" "$OUT/" || exit 2
W="$(mktemp -d /tmp/vd-seed-XXXXXX)"
trap 'git -C /repo worktree remove --force "$W/repo" >/dev/null 2>&1; rm -rf "$W"' EXIT
git -C /repo worktree add --detach "$W/repo" HEAD >/dev/null 2>&1 || exit 2
LOG="$OUT/confirm.log"; : > "$LOG"
run() { echo "\$ $*" >> "$LOG"; }
cd "$W/repo"
PYTHONPATH="$W/repo/src" /venv/bin/python "$OUT/demo.py" > "$W/d0.txt" 2>&1; r0=$?
echo "demo without patch: exit=$r0 ($(tail -1 "$W/d0.txt"))" | tee -a "$LOG"
git apply "$OUT/patch.diff" || { echo "patch does not apply to /repo HEAD" | tee -a "$LOG"; exit 2; }
PYTHONPATH="$W/repo/src" /venv/bin/python -m pytest -q -p no:cacheprovider -x > "$W/t.txt" 2>&1; rt=$?
echo "test-suite with patch: exit=$rt ($(tail -1 "$W/t.txt"))" | tee -a "$LOG"
PYTHONPATH="$W/repo/src" /venv/bin/python "$OUT/demo.py" > "$W/d1.txt" 2>&1; r1=$?
echo "demo with patch: exit=$r1 ($(tail -1 "$W/d1.txt"))" | tee -a "$LOG"
for c in $CHECKS; do
  mkdir -p "$W/ev" "$W/rp"
  VERIF_REPO="$W/repo" VERIF_EVIDENCE_DIR="$W/ev" VERIF_REPLAY_DIR="$W/rp" "$HERE/check" "$c" --tier quick > "$W/c.txt" 2>&1; rc=$?
  echo "check $c quick on patched tree: exit=$rc" | tee -a "$LOG"
  grep -E "^\s+\[|^VIOLATION|HARNESS" "$W/c.txt" | head -6 | tee -a "$LOG"
done
/venv/bin/python - "$OUT" <<'PY'
import json, sys, os
out = sys.argv[1]
m = json.load(open(os.path.join(out, "meta.json")))
m["confirmed_by_coordinator"] = [l.rstrip("\n") for l in open(os.path.join(out, "confirm.log"))]
json.dump(m, open(os.path.join(out, "meta.json"), "w"), indent=1)
PY
