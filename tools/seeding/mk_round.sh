#!/bin/sh
# usage: mk_round.sh <N>   -> prev files, worktrees /tmp/seed<N>-<ID>, prompts /tmp/seed<N>-prompt-<ID>.txt
N=$1
cd /verif
/venv/bin/python - "$N" <<'PY'
import json, glob, os, sys
N=sys.argv[1]
over = ("Also avoid these edits, which were used several times across properties: 'parallel hashing pool results re-paired by submission order' in build._hash_files; "
"'state cache hit accepted across md5 / md5-dos2unix'; 'state validity token drops inode / uses whole-second mtime'; 'state.save_many moved before verification / re-stats at save time / zips after skipping'; "
"'staging ReferenceHashFileDB cached per destination'; 'failed lazy directory load marked as loaded'; 'per-handle _dirs snapshot used to answer existence/listing'; 'diff._cache_check memo made process-wide'; "
"'HashFileDB.check protects before hashing'; 'storage/cache resolved once per parent directory'; 'unicode NFC normalisation of names/relpaths/paths'; 'file_md5 behaves differently when a progress callback is attached'; "
"'dangling symlinks dropped from the workspace walk'; 'read_only flag of storages'; 'page-size / batch-size flush ignoring an option'; 'FileNotFoundError treated as not-a-failure in error handlers'; 'option resolved with dict.get default (explicit None)'; 'size partition with strict inequalities on both sides'; 'sorting by key tuple instead of joined path'; 'prefix test without path separator'; 'process-wide or per-object memo keyed by something that compares equal too often (Meta eq=False fields, parent dir, basename)'; 'shared mutable template/scratch object across threads'; 'generator wrapped in try/except that never sees its exception'; 'truthiness test on an object that is always truthy'; 'lexical normpath of paths through symlinks'.\n"
"Prefer code paths that the mechanisms listed in the property text name but that none of the changes above touches; a subtle boundary condition (size/count threshold, empty collection, first/last element, equal keys, "
"path separator, option default, falsy-but-valid value, duplicate elements, an exception type caught too broadly or too narrowly, an early return on a rarely-true condition) is welcome. "
"The change must look like something a maintainer could plausibly merge (refactor, optimisation, tidy-up), not sabotage.\n")
for i in range(1,21):
    ID=f"C{i:02d}"
    lines=[]
    for d in sorted(glob.glob(f"seeded/{ID}-*/")):
        try:
            m=json.load(open(d+"meta.json"))
        except Exception:
            continue
        s=(m.get("summary") or m.get("what") or "")
        lines.append("  - "+" ".join(str(s).split())[:420])
    open(f"/tmp/prev-{ID}.txt","w").write(
        "Previous participants already delivered these changes for the same property; yours must use a DIFFERENT mechanism, code site and triggering condition from all of them (and should not be the same edit seen through another API):\n"
        + "\n".join(lines) + "\n" + over)
    open(f"/tmp/seed{N}-prompt-{ID}.txt","w").write(
        f"Read /tmp/seed_prompt_common.txt and follow it exactly. Your worktree: /tmp/seed{N}-{ID} . The property text is in /tmp/prop-{ID}.txt (read it; that is all you get about the property). "
        f"Also read /tmp/prev-{ID}.txt: it lists changes already delivered for this property - yours must break the property through a different mechanism (different code site and different triggering condition). "
        "Prefer a defect that needs two cooperating sites, a multi-step history, or a configuration/option combination that the mechanisms listed in the property text rely on but that is easy to overlook. "
        "For demonstrations involving crashes, concurrency or timestamps make the demo deterministic (kill a child at a chosen point via an audit hook / monkeypatched os function; force interleavings with threading.Event; set mtimes with os.utime(ns=...)).\n")
PY
for i in $(seq -w 1 20); do git -C /repo worktree add --detach /tmp/seed$N-C$i HEAD >/dev/null 2>&1 || echo "wt fail C$i"; done
ls -d /tmp/seed$N-C* | wc -l
