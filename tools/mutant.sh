#!/bin/sh
# Sensitivity self-test: run checks against a scratch copy of /repo with a patch applied
# (or with a commit reverted). Nothing under /repo or /verif/evidence is touched.
#   tools/mutant.sh <patch.diff | revert:<commit>> <ID> [more check args]
set -u
HERE="$(cd "$(dirname "$0")/.." && pwd)"
SPEC="$1"; shift
case "$SPEC" in revert:*) ;; *) SPEC="$(realpath "$SPEC")" ;; esac
ID="$1"; shift
W="$(mktemp -d /tmp/vd-mut-XXXXXX)"
trap 'git -C /repo worktree remove --force "$W/repo" >/dev/null 2>&1; rm -rf "$W"' EXIT
git -C /repo worktree add --detach "$W/repo" HEAD >/dev/null 2>&1 || { echo "worktree failed"; exit 2; }
# carry over uncommitted changes of /repo, if any
git -C /repo diff HEAD | (cd "$W/repo" && git apply --allow-empty 2>/dev/null)
case "$SPEC" in
  revert:*) (cd "$W/repo" && git revert --no-commit "${SPEC#revert:}" >/dev/null) || { echo "revert failed"; exit 2; } ;;
  *) (cd "$W/repo" && git apply "$SPEC") || { echo "patch failed"; exit 2; } ;;
esac
mkdir -p "$W/ev" "$W/rp"
VERIF_REPO="$W/repo" VERIF_EVIDENCE_DIR="$W/ev" VERIF_REPLAY_DIR="$W/rp" "$HERE/check" "$ID" "$@" > "$W/out.txt" 2>&1
rc=$?
# KEEP_REPLAYS=<dir>: keep the shrunk replay files of this run
[ -n "${KEEP_REPLAYS:-}" ] && mkdir -p "$KEEP_REPLAYS" && cp "$W"/rp/*.json "$KEEP_REPLAYS"/ 2>/dev/null
grep -v '^classes:' "$W/out.txt"
echo "mutant exit=$rc"
