#!/usr/bin/env python3
"""Create a mutant patch: tools/mkmutant.py <ID> <name> <repo-relative file> <<< 'OLD\n====\nNEW'
Applies the textual replacement (must match exactly once) in a scratch worktree and stores git diff."""
import os, subprocess, sys, tempfile, shutil
pid, name, rel = sys.argv[1:4]
old, new = sys.stdin.read().split("\n====\n")
new = new.rstrip("\n") if not new.endswith("\n\n") else new
w = tempfile.mkdtemp(prefix="vd-mk-", dir="/tmp")
try:
    subprocess.check_call(["git", "-C", "/repo", "worktree", "add", "--detach", w + "/r", "HEAD"], stdout=subprocess.DEVNULL, stderr=subprocess.DEVNULL)
    p = os.path.join(w, "r", rel)
    s = open(p).read()
    assert s.count(old) == 1, f"pattern occurs {s.count(old)} times"
    open(p, "w").write(s.replace(old, new))
    d = subprocess.check_output(["git", "-C", w + "/r", "diff"]).decode()
    out = f"/verif/tools/mutants/{pid}"
    os.makedirs(out, exist_ok=True)
    open(f"{out}/{name}.diff", "w").write(d)
    r = subprocess.run(["/venv/bin/python", "-m", "pytest", "-q", "-p", "no:cacheprovider", "-x"], cwd=w + "/r", env=dict(os.environ, PYTHONPATH=w + "/r/src"), capture_output=True, text=True)
    print(name, "tests:", r.stdout.strip().splitlines()[-1])
finally:
    subprocess.call(["git", "-C", "/repo", "worktree", "remove", "--force", w + "/r"], stdout=subprocess.DEVNULL, stderr=subprocess.DEVNULL)
    shutil.rmtree(w, ignore_errors=True)
